package sim

import (
	"fmt"
	"os"
	"reflect"
	"runtime"
	"strconv"
	"strings"
	"sync"
	"time"

	"berty.tech/go-orbit-db/verifhook"
)

// Hub receives every verifhook event of the process. It keeps counters per
// (point, object), an ordered event log, and implements gates: a goroutine
// reaching a gated point is parked until the driver releases it.
type Hub struct {
	mu       sync.Mutex
	cond     *sync.Cond
	counts   map[ckey]int
	seq      int
	parkAt   map[string]func(args []interface{}) bool
	parked   []*Parked
	nextPID  int
	handlers []func(point string, args []interface{})
	closed   bool
}

type ckey struct {
	point string
	obj   interface{}
}

// K normalises an object used as counter key: pointers (a *BaseStore and the
// concrete store embedding it as first field share an address) become their
// address, everything else is used as is.
func K(o interface{}) interface{} {
	if o == nil {
		return nil
	}
	v := reflect.ValueOf(o)
	if v.Kind() == reflect.Ptr {
		// pin the object: while it is referenced here its address cannot be
		// reused by a later allocation, so counters never alias
		pinMu.Lock()
		pins[v.Pointer()] = o
		pinMu.Unlock()
		return v.Pointer()
	}
	return o
}

var (
	pinMu sync.Mutex
	pins  = map[uintptr]interface{}{}
)

func ck(point string, o interface{}) ckey { return ckey{point, K(o)} }

// Parked is a goroutine held at a hook point.
type Parked struct {
	ID      int
	Point   string
	Args    []interface{}
	GID     int64 // goroutine that is parked
	release chan struct{}
	done    bool
}

// TheHub is the process-wide hub (verifhook has one global hook function).
var TheHub = newHub()

func newHub() *Hub {
	h := &Hub{counts: map[ckey]int{}, parkAt: map[string]func([]interface{}) bool{}}
	h.cond = sync.NewCond(&h.mu)
	return h
}

// Install sets the hub as the verifhook sink. It fails when the repository was
// not built with the verif tag.
func Install() error {
	if !verifhook.Enabled {
		return fmt.Errorf("go-orbit-db was built without the verif tag")
	}
	verifhook.Set(TheHub.at)
	return nil
}

func objOf(args []interface{}) interface{} {
	if len(args) == 0 {
		return nil
	}
	switch args[0].(type) {
	case string, int, bool:
		return nil
	}
	// replicator hooks carry (r, store, ...): count against the store too
	return args[0]
}

// GoID returns the id of the calling goroutine (parsed from its stack header).
func GoID() int64 {
	var buf [64]byte
	n := runtime.Stack(buf[:], false)
	f := strings.Fields(string(buf[:n]))
	if len(f) < 2 {
		return 0
	}
	id, _ := strconv.ParseInt(f[1], 10, 64)
	return id
}

var hubDebug = os.Getenv("VH_DEBUG") == "2"

func (h *Hub) at(point string, args ...interface{}) {
	if hubDebug {
		fmt.Fprintf(os.Stderr, "HUB %s %v\n", point, args)
	}
	h.mu.Lock()
	h.seq++
	h.counts[ckey{point, nil}]++
	if o := objOf(args); o != nil {
		h.counts[ck(point, o)]++
	}
	if len(point) > 5 && point[:5] == "repl." && len(args) > 1 {
		h.counts[ck(point, args[1])]++
	}
	trackBus(h, point, args)
	handlers := h.handlers
	var p *Parked
	if match, ok := h.parkAt[point]; ok && !h.closed && (match == nil || match(args)) {
		h.nextPID++
		p = &Parked{ID: h.nextPID, Point: point, Args: args, release: make(chan struct{}), GID: GoID()}
		h.parked = append(h.parked, p)
	}
	h.cond.Broadcast()
	h.mu.Unlock()

	for _, f := range handlers {
		f(point, args)
	}

	if p != nil {
		<-p.release
	}
}

// OnEvent registers a synchronous observer called (outside the hub lock, in the
// hooked goroutine) for every event.
func (h *Hub) OnEvent(f func(point string, args []interface{})) {
	h.mu.Lock()
	h.handlers = append(h.handlers, f)
	h.mu.Unlock()
}

// ClearHandlers removes all observers.
func (h *Hub) ClearHandlers() {
	h.mu.Lock()
	h.handlers = nil
	h.mu.Unlock()
}

// Count returns how many times point was reached for obj (nil: any object).
func (h *Hub) Count(point string, obj interface{}) int {
	h.mu.Lock()
	defer h.mu.Unlock()
	return h.counts[ck(point, obj)]
}

// ParkAt makes goroutines reaching point park (when match is nil or true).
func (h *Hub) ParkAt(point string, match func(args []interface{}) bool) {
	h.mu.Lock()
	h.parkAt[point] = match
	h.mu.Unlock()
}

// Unpark stops parking at point (already parked goroutines stay parked).
func (h *Hub) Unpark(point string) {
	h.mu.Lock()
	delete(h.parkAt, point)
	h.mu.Unlock()
}

// ParkedList returns the currently parked goroutines.
func (h *Hub) ParkedList() []*Parked {
	h.mu.Lock()
	defer h.mu.Unlock()
	out := []*Parked{}
	for _, p := range h.parked {
		if !p.done {
			out = append(out, p)
		}
	}
	return out
}

// Release lets a parked goroutine continue.
func (h *Hub) Release(p *Parked) {
	h.mu.Lock()
	if p.done {
		h.mu.Unlock()
		return
	}
	p.done = true
	h.mu.Unlock()
	close(p.release)
}

// ReleaseAll stops all parking and releases everything (used at teardown).
func (h *Hub) ReleaseAll() {
	h.mu.Lock()
	h.parkAt = map[string]func([]interface{}) bool{}
	ps := h.parked
	h.parked = nil
	h.mu.Unlock()
	for _, p := range ps {
		h.mu.Lock()
		d := p.done
		p.done = true
		h.mu.Unlock()
		if !d {
			close(p.release)
		}
	}
}

// WaitFor blocks until pred (evaluated under the hub lock; it may only call
// the *Locked accessors) holds, or the timeout expires.
func (h *Hub) WaitFor(timeout time.Duration, pred func() bool) bool {
	deadline := time.Now().Add(timeout)
	stop := make(chan struct{})
	defer close(stop)
	go func() {
		t := time.NewTicker(5 * time.Millisecond)
		defer t.Stop()
		for {
			select {
			case <-stop:
				return
			case <-t.C:
				h.mu.Lock()
				h.cond.Broadcast()
				h.mu.Unlock()
			}
		}
	}()
	h.mu.Lock()
	defer h.mu.Unlock()
	for !pred() {
		if time.Now().After(deadline) {
			return false
		}
		h.cond.Wait()
	}
	return true
}

// CountLocked is Count for use inside WaitFor predicates.
func (h *Hub) CountLocked(point string, obj interface{}) int {
	return h.counts[ck(point, obj)]
}

// ParkedLocked returns the parked goroutines (inside WaitFor predicates).
func (h *Hub) ParkedLocked() []*Parked {
	out := []*Parked{}
	for _, p := range h.parked {
		if !p.done {
			out = append(out, p)
		}
	}
	return out
}

// Poke wakes up WaitFor predicates (call after changing external state).
func (h *Hub) Poke() {
	h.mu.Lock()
	h.cond.Broadcast()
	h.mu.Unlock()
}
