package sim

import (
	"context"
	"fmt"
	"runtime"
	"sort"
	"time"

	ipfslog "berty.tech/go-ipfs-log"
	"berty.tech/go-ipfs-log/keystore"
	orbitdb "berty.tech/go-orbit-db"
	"berty.tech/go-orbit-db/accesscontroller"
	"berty.tech/go-orbit-db/iface"
	"berty.tech/go-orbit-db/stores/replicator"
	ds "github.com/ipfs/go-datastore"
	dssync "github.com/ipfs/go-datastore/sync"
	"github.com/libp2p/go-libp2p/core/event"
)

// Node is a running go-orbit-db instance attached to a peer.
type Node struct {
	P      *Peer
	DB     iface.OrbitDB
	Stores map[string]*StoreRef // by address
	Dir    string               // "" = simulated cache + in-memory keystore
	ctx    context.Context
	cancel context.CancelFunc

	KS keystore.Interface // the instance's keystore (simulated-cache mode)

	baseRecv, baseIdle, baseDelivered int
	closed                            bool
}

// StoreRef tracks one opened store and the counters at the time it was opened.
type StoreRef struct {
	N          *Node
	S          iface.Store
	Addr       string
	Replicate  bool
	baseBus    int // replicator events emitted on the bus before this store subscribed
	baseWrite  int
	baseJoinD  int
	basePubD   int
	DirectLoad int // replicator loads started synchronously by the driver
	Closed     bool
}

var peerKeystores = map[*Peer]ds.Datastore{}

// Start creates an instance on the peer. With dir == "" the cache is the
// peer's SimCache and the keystore an in-memory datastore kept by the peer;
// otherwise real LevelDB stores under dir are used.
func (p *Peer) Start(dir string) (n *Node, err error) {
	ctx, cancel := context.WithCancel(context.Background())
	opts := &orbitdb.NewOrbitDBOptions{
		PubSub:               p.PubSub(),
		DirectChannelFactory: p.DirectChannelFactory(),
	}
	if dir == "" {
		d := ":sim:"
		opts.Directory = &d
		opts.Cache = p.Caches
		kds, ok := peerKeystores[p]
		if !ok {
			kds = dssync.MutexWrap(ds.NewMapDatastore())
			peerKeystores[p] = kds
		}
		ks, err := keystore.NewKeystore(kds)
		if err != nil {
			cancel()
			return nil, err
		}
		opts.Keystore = ks
		defer func() {
			if n != nil {
				n.KS = ks
			}
		}()
	} else {
		opts.Directory = &dir
	}
	n = &Node{P: p, Stores: map[string]*StoreRef{}, Dir: dir, ctx: ctx, cancel: cancel}
	p.w.mu.Lock()
	n.baseDelivered = p.DeliveredDirect
	p.w.mu.Unlock()
	db, err := orbitdb.NewOrbitDB(ctx, p.IPFS(), opts)
	if err != nil {
		cancel()
		return nil, err
	}
	n.DB = db
	return n, nil
}

// Bus returns the instance event bus.
func (n *Node) Bus() event.Bus { return n.DB.EventBus() }

// AccessFor builds access-controller params with the given write list.
func AccessFor(writers []string) accesscontroller.ManifestParams {
	ac := accesscontroller.NewEmptyManifestParams()
	ac.SetType("ipfs")
	ac.SetAccess("write", writers)
	return ac
}

// Open opens (creating if needed) a database on the node and registers it for
// settling. nameOrAddr may be a name (create) or an address (open).
func (n *Node) Open(nameOrAddr, storeType string, opts *orbitdb.CreateDBOptions) (*StoreRef, error) {
	if opts == nil {
		opts = &orbitdb.CreateDBOptions{}
	}
	t := true
	opts.Create = &t
	opts.StoreType = &storeType
	h := TheHub
	h.mu.Lock()
	baseBus := h.counts[ck("bus.repl", n.Bus())]
	baseWrite := h.counts[ck("bus.write", n.Bus())]
	h.mu.Unlock()
	s, err := n.DB.Open(n.ctx, nameOrAddr, opts)
	if err != nil {
		return nil, err
	}
	ref := &StoreRef{N: n, S: s, Addr: s.Address().String(), Replicate: opts.Replicate == nil || *opts.Replicate,
		baseBus: baseBus, baseWrite: baseWrite}
	n.P.w.mu.Lock()
	ref.baseJoinD = n.P.DeliveredJoin[ref.Addr]
	ref.basePubD = n.P.DeliveredPub[ref.Addr]
	n.P.w.mu.Unlock()
	n.Stores[ref.Addr] = ref
	return ref, nil
}

// Close closes the instance (all stores) and detaches it from the peer.
func (n *Node) Close() error {
	err := n.DB.Close()
	n.closed = true
	for _, r := range n.Stores {
		r.Closed = true
	}
	n.cancel()
	return err
}

// CancelContext ends the context the instance was created under, without closing it.
func (n *Node) CancelContext() { n.cancel() }

type busOwner interface{ EventBus() event.Bus }

// trackBus is called from the hub (see hub.at) to attribute emissions to buses.
func trackBus(h *Hub, point string, args []interface{}) {
	switch point {
	case "repl.enqueue":
		if len(args) >= 4 && args[3] == "entry" {
			if s, ok := args[1].(busOwner); ok {
				h.counts[ck("bus.repl", s.EventBus())]++
			}
		}
	case "repl.idle.emit":
		if s, ok := args[1].(busOwner); ok {
			h.counts[ck("bus.repl", s.EventBus())]++
		}
	case "repl.fetched":
		// one progress event follows every successful single-entry fetch
		if len(args) >= 5 && args[4] == nil {
			if l, ok := args[3].(ipfslog.Log); ok && l != nil && l.Len() > 0 {
				if s, ok := args[1].(busOwner); ok {
					h.counts[ck("bus.repl", s.EventBus())] += l.Len()
				}
			}
		}
	case "direct.recv", "direct.idle":
		// keyed by the instance's event bus (one per instance), which the Node can name too
		if o, ok := args[0].(busOwner); ok {
			h.counts[ck(point, o.EventBus())]++
		}
	case "write.emitted":
		if s, ok := args[0].(busOwner); ok {
			h.counts[ck("bus.write", s.EventBus())]++
		}
	}
}

// Quiet reports (under the hub lock) whether the store has no pending
// background work: all delivered messages handled, all loads returned, the main
// loop has consumed every replicator event of its bus and is waiting.
func (r *StoreRef) quietLocked(why *string) bool {
	h := TheHub
	b := interface{}(r.S)
	c := func(p string) int { return h.counts[ck(p, b)] }
	if r.Closed {
		return true
	}
	if c("listener.msg.recv") != c("listener.msg.done") {
		*why = "listener busy"
		return false
	}
	if c("sync.spawn")+r.DirectLoad != c("repl.load.exit") {
		*why = fmt.Sprintf("loads running spawn=%d exit=%d", c("sync.spawn")+r.DirectLoad, c("repl.load.exit"))
		return false
	}
	// a Load may return before the workers it started (or that an earlier call started for the same hashes) are done
	if c("repl.enqueue") != c("repl.slot.wait") || c("repl.slot.wait") != c("repl.dequeued")+c("repl.slot.fail") || c("repl.dequeued") != c("repl.done") {
		*why = fmt.Sprintf("replicator workers running enqueued=%d wait=%d dequeued=%d fail=%d done=%d", c("repl.enqueue"), c("repl.slot.wait"), c("repl.dequeued"), c("repl.slot.fail"), c("repl.done"))
		return false
	}
	if c("peerjoin.spawn") != c("peerjoin.end") {
		*why = "head exchange running"
		return false
	}
	if c("announce.begin") != c("announce.end") {
		*why = "announce running"
		return false
	}
	bus := r.S.EventBus()
	if want := h.counts[ck("bus.repl", bus)] - r.baseBus; c("mainloop.recv") != want {
		*why = fmt.Sprintf("main loop behind recv=%d want=%d", c("mainloop.recv"), want)
		return false
	}
	if c("mainloop.idle") != c("mainloop.recv")+1 {
		*why = "main loop busy"
		return false
	}
	if r.Replicate {
		if want := h.counts[ck("bus.write", bus)] - r.baseWrite; c("announce.begin") != want {
			*why = fmt.Sprintf("announce pending begin=%d want=%d", c("announce.begin"), want)
			return false
		}
	}
	return true
}

// deliveredQuietLocked checks world-side delivery counters (world lock held by caller is NOT required;
// the counters only grow at driver steps).
func (r *StoreRef) deliveredOK(why *string) bool {
	h := TheHub
	b := interface{}(r.S)
	if r.Closed || !r.Replicate {
		return true
	}
	p := r.N.P
	if got, want := h.counts[ck("listener.msg.recv", b)], p.DeliveredPub[r.Addr]-r.basePubD; got != want {
		*why = fmt.Sprintf("pubsub messages not yet received %d/%d", got, want)
		return false
	}
	if got, want := h.counts[ck("peerjoin.spawn", b)], p.DeliveredJoin[r.Addr]-r.baseJoinD; got != want {
		*why = fmt.Sprintf("join notifications not yet received %d/%d", got, want)
		return false
	}
	return true
}

func (n *Node) quietLocked(why *string) bool {
	h := TheHub
	if n.closed {
		return true
	}
	recv := h.counts[ck("direct.recv", n.Bus())] - n.baseRecv
	if want := n.P.DeliveredDirect - n.baseDelivered; recv != want {
		*why = fmt.Sprintf("direct messages pending %d/%d", recv, want)
		return false
	}
	if h.counts[ck("direct.idle", n.Bus())]-n.baseIdle != recv+1 {
		*why = "direct monitor busy"
		return false
	}
	return true
}

// Settle waits until every given node and its stores are quiet. It returns an
// error (inconclusive, never a verdict) when the bound expires.
func Settle(timeout time.Duration, nodes ...*Node) error {
	var why string
	ok := TheHub.WaitFor(timeout, func() bool {
		for _, n := range nodes {
			if n == nil {
				continue
			}
			if !n.quietLocked(&why) {
				return false
			}
			names := make([]string, 0, len(n.Stores))
			for a := range n.Stores {
				names = append(names, a)
			}
			sort.Strings(names)
			for _, a := range names {
				r := n.Stores[a]
				if !r.deliveredOK(&why) || !r.quietLocked(&why) {
					why = n.P.Name + ": " + why
					return false
				}
			}
		}
		return true
	})
	if !ok {
		return fmt.Errorf("not quiescent after %s: %s", timeout, why)
	}
	return nil
}

// ReplStats returns the replicator bookkeeping of a store.
func (r *StoreRef) ReplStats() replicator.VerifStats {
	st, _ := replicator.VerifStatsOf(r.S.Replicator())
	return st
}

// Goroutines returns a dump of all goroutine stacks.
func Goroutines() string {
	buf := make([]byte, 1<<22)
	n := runtime.Stack(buf, true)
	return string(buf[:n])
}
