package sim

import (
	"context"
	"path"
	"sort"
	"strings"
	"sync"

	"berty.tech/go-orbit-db/address"
	"berty.tech/go-orbit-db/cache"
	datastore "github.com/ipfs/go-datastore"
	"github.com/ipfs/go-datastore/query"
)

// SimCache is a cache.Interface whose contents survive "restarts" of the
// instance (it belongs to the peer) and whose writes are recorded in the
// peer's effect log.
type SimCache struct {
	p    *Peer
	mu   sync.Mutex
	data map[string]map[string][]byte // cache path -> key -> value
	open map[string]*simDatastore
}

func newSimCache(p *Peer) *SimCache {
	return &SimCache{p: p, data: map[string]map[string][]byte{}, open: map[string]*simDatastore{}}
}

func cachePath(directory string, dbAddress address.Address) string {
	return path.Join(directory, dbAddress.GetRoot().String(), dbAddress.GetPath())
}

// Load implements cache.Interface.
func (c *SimCache) Load(directory string, dbAddress address.Address) (datastore.Datastore, error) {
	kp := cachePath(directory, dbAddress)
	c.mu.Lock()
	defer c.mu.Unlock()
	if ds, ok := c.open[kp]; ok {
		return ds, nil
	}
	if c.data[kp] == nil {
		c.data[kp] = map[string][]byte{}
	}
	ds := &simDatastore{c: c, path: kp}
	c.open[kp] = ds
	return ds, nil
}

// Close implements cache.Interface.
func (c *SimCache) Close() error {
	c.mu.Lock()
	defer c.mu.Unlock()
	for k, ds := range c.open {
		ds.closed = true
		delete(c.open, k)
	}
	return nil
}

// Destroy implements cache.Interface.
func (c *SimCache) Destroy(directory string, dbAddress address.Address) error {
	kp := cachePath(directory, dbAddress)
	c.mu.Lock()
	defer c.mu.Unlock()
	if ds, ok := c.open[kp]; ok {
		ds.closed = true
		delete(c.open, kp)
	}
	delete(c.data, kp)
	return nil
}

// Snapshot returns a deep copy of all caches (path -> key -> value).
func (c *SimCache) Snapshot() map[string]map[string][]byte {
	c.mu.Lock()
	defer c.mu.Unlock()
	out := map[string]map[string][]byte{}
	for p, m := range c.data {
		out[p] = map[string][]byte{}
		for k, v := range m {
			out[p][k] = append([]byte{}, v...)
		}
	}
	return out
}

// Restore replaces all cache contents (used to rebuild a crash-point state).
func (c *SimCache) Restore(data map[string]map[string][]byte) {
	c.mu.Lock()
	defer c.mu.Unlock()
	c.data = map[string]map[string][]byte{}
	for p, m := range data {
		c.data[p] = map[string][]byte{}
		for k, v := range m {
			c.data[p][k] = append([]byte{}, v...)
		}
	}
}

// Paths lists cache paths that hold at least one key.
func (c *SimCache) Paths() []string {
	c.mu.Lock()
	defer c.mu.Unlock()
	out := []string{}
	for p, m := range c.data {
		if len(m) > 0 {
			out = append(out, p)
		}
	}
	sort.Strings(out)
	return out
}

type simDatastore struct {
	c      *SimCache
	path   string
	closed bool
}

func (d *simDatastore) m() map[string][]byte {
	m := d.c.data[d.path]
	if m == nil {
		m = map[string][]byte{}
		d.c.data[d.path] = m
	}
	return m
}

func (d *simDatastore) Get(_ context.Context, key datastore.Key) ([]byte, error) {
	d.c.mu.Lock()
	defer d.c.mu.Unlock()
	if d.closed {
		return nil, errClosedDS
	}
	v, ok := d.m()[key.String()]
	if !ok {
		return nil, datastore.ErrNotFound
	}
	return append([]byte{}, v...), nil
}

func (d *simDatastore) Has(ctx context.Context, key datastore.Key) (bool, error) {
	_, err := d.Get(ctx, key)
	if err == datastore.ErrNotFound {
		return false, nil
	}
	return err == nil, err
}

func (d *simDatastore) GetSize(ctx context.Context, key datastore.Key) (int, error) {
	v, err := d.Get(ctx, key)
	return len(v), err
}

func (d *simDatastore) Query(_ context.Context, q query.Query) (query.Results, error) {
	d.c.mu.Lock()
	defer d.c.mu.Unlock()
	es := []query.Entry{}
	for k, v := range d.m() {
		if strings.HasPrefix(k, q.Prefix) {
			es = append(es, query.Entry{Key: k, Value: v, Size: len(v)})
		}
	}
	return query.ResultsWithEntries(q, es), nil
}

func (d *simDatastore) Put(_ context.Context, key datastore.Key, value []byte) error {
	d.c.mu.Lock()
	if d.closed {
		d.c.mu.Unlock()
		return errClosedDS
	}
	d.m()[key.String()] = append([]byte{}, value...)
	d.c.mu.Unlock()
	w := d.c.p.w
	w.mu.Lock()
	d.c.p.Effects = append(d.c.p.Effects, Effect{Kind: "put", Cache: d.path, Key: key.String(), Data: append([]byte{}, value...)})
	w.mu.Unlock()
	return nil
}

func (d *simDatastore) Delete(_ context.Context, key datastore.Key) error {
	d.c.mu.Lock()
	if d.closed {
		d.c.mu.Unlock()
		return errClosedDS
	}
	delete(d.m(), key.String())
	d.c.mu.Unlock()
	w := d.c.p.w
	w.mu.Lock()
	d.c.p.Effects = append(d.c.p.Effects, Effect{Kind: "delete", Cache: d.path, Key: key.String()})
	w.mu.Unlock()
	return nil
}

func (d *simDatastore) Sync(context.Context, datastore.Key) error { return nil }

func (d *simDatastore) Close() error {
	d.c.mu.Lock()
	defer d.c.mu.Unlock()
	d.closed = true
	if d.c.open[d.path] == d {
		delete(d.c.open, d.path)
	}
	return nil
}

type closedErr struct{}

func (closedErr) Error() string { return "simcache: datastore closed" }

var errClosedDS error = closedErr{}

var _ cache.Interface = &SimCache{}
var _ datastore.Datastore = &simDatastore{}
