package sim

import (
	"bytes"
	"context"
	"crypto/sha256"
	"fmt"
	"io"
	"sort"
	"sync"

	"berty.tech/go-orbit-db/events"
	"berty.tech/go-orbit-db/iface"
	"berty.tech/go-orbit-db/pubsub"
	"github.com/ipfs/boxo/files"
	"github.com/ipfs/boxo/path"
	blocks "github.com/ipfs/go-block-format"
	cid "github.com/ipfs/go-cid"
	cbornode "github.com/ipfs/go-ipld-cbor"
	ipld "github.com/ipfs/go-ipld-format"
	coreiface "github.com/ipfs/kubo/core/coreiface"
	"github.com/ipfs/kubo/core/coreiface/options"
	"github.com/libp2p/go-libp2p/core/crypto"
	"github.com/libp2p/go-libp2p/core/peer"
	mh "github.com/multiformats/go-multihash"
)

// Effect is one persistence effect issued by a peer, in issue order.
type Effect struct {
	Kind  string // "block" | "put" | "delete"
	Cid   cid.Cid
	Data  []byte
	Cache string // cache path (directory/root/name) for put/delete
	Key   string
}

// Msg is an in-flight message or notification of the simulated network.
type Msg struct {
	ID      int
	Kind    string // "pub" | "direct" | "join" | "leave"
	Topic   string
	From    string
	To      string
	Payload []byte
}

// World is the simulated network, block exchange and durable storage.
type World struct {
	mu     sync.Mutex
	cond   *sync.Cond
	peers  map[string]*Peer
	order  []string
	cut    map[[2]string]bool
	bag    []*Msg
	nextID int
	// AutoFetch: a Get of a block held by a linked peer succeeds at once.
	// When false every remote fetch parks at hub point "sim.fetch".
	AutoFetch bool
	// Published records every topic publish and direct send (for C09).
	Published []*Msg
}

// NewWorld creates an empty world.
func NewWorld() *World {
	w := &World{peers: map[string]*Peer{}, cut: map[[2]string]bool{}, AutoFetch: true}
	w.cond = sync.NewCond(&w.mu)
	return w
}

// Peer is one simulated node: durable state (blocks, caches, keystore) that
// survives restarts, plus the volatile attachment of the running instance.
type Peer struct {
	w    *World
	Name string
	ID   peer.ID
	priv crypto.PrivKey

	blocks  map[string][]byte // cid key -> raw block
	denied  map[string]bool   // blocks this peer cannot read for the moment (provider gone, disk error): Get fails
	Effects []Effect
	Caches  *SimCache

	// volatile
	subs   map[string]*topicSub // topic -> subscription
	direct *simDirect

	DeliveredPub    map[string]int // topic -> messages pushed to the listener
	DeliveredJoin   map[string]int
	DeliveredDirect int
}

func seededReader(seed string) io.Reader {
	return &hashReader{state: sha256.Sum256([]byte(seed))}
}

type hashReader struct {
	state [32]byte
	buf   []byte
}

func (r *hashReader) Read(p []byte) (int, error) {
	n := 0
	for n < len(p) {
		if len(r.buf) == 0 {
			r.state = sha256.Sum256(r.state[:])
			r.buf = append([]byte{}, r.state[:]...)
		}
		c := copy(p[n:], r.buf)
		r.buf = r.buf[c:]
		n += c
	}
	return n, nil
}

// AddPeer creates a peer with a deterministic libp2p identity.
func (w *World) AddPeer(name string) *Peer {
	priv, _, err := crypto.GenerateEd25519Key(seededReader("peer:" + name))
	if err != nil {
		panic(err)
	}
	id, err := peer.IDFromPrivateKey(priv)
	if err != nil {
		panic(err)
	}
	p := &Peer{w: w, Name: name, ID: id, priv: priv, blocks: map[string][]byte{},
		subs: map[string]*topicSub{}, DeliveredPub: map[string]int{}, DeliveredJoin: map[string]int{}}
	p.Caches = newSimCache(p)
	w.mu.Lock()
	w.peers[name] = p
	w.order = append(w.order, name)
	w.mu.Unlock()
	return p
}

// Peer returns a peer by name.
func (w *World) Peer(name string) *Peer {
	w.mu.Lock()
	defer w.mu.Unlock()
	return w.peers[name]
}

func (w *World) peerByID(id peer.ID) *Peer {
	for _, p := range w.peers {
		if p.ID == id {
			return p
		}
	}
	return nil
}

// live reports whether a subscription is still in use (world lock held).
func (s *topicSub) live() bool {
	return s != nil && !s.closed && (s.ctx == nil || s.ctx.Err() == nil)
}

func lk(a, b string) [2]string {
	if a > b {
		a, b = b, a
	}
	return [2]string{a, b}
}

// Linked reports whether two peers are connected.
func (w *World) Linked(a, b string) bool {
	w.mu.Lock()
	defer w.mu.Unlock()
	return w.linkedLocked(a, b)
}

func (w *World) linkedLocked(a, b string) bool { return a != b && !w.cut[lk(a, b)] }

// Cut disconnects two peers: each side that subscribed to a common topic gets a
// leave notification in the bag.
func (w *World) Cut(a, b string) {
	w.mu.Lock()
	if w.cut[lk(a, b)] {
		w.mu.Unlock()
		return
	}
	w.cut[lk(a, b)] = true
	w.notifyLocked(a, b, "leave")
	w.cond.Broadcast()
	w.mu.Unlock()
}

// Heal reconnects two peers: each side observes the other joining the common
// topics (a notification in the bag).
func (w *World) Heal(a, b string) {
	w.mu.Lock()
	if !w.cut[lk(a, b)] {
		w.mu.Unlock()
		return
	}
	delete(w.cut, lk(a, b))
	w.notifyLocked(a, b, "join")
	w.cond.Broadcast()
	w.mu.Unlock()
	TheHub.Poke()
}

func (w *World) notifyLocked(a, b, kind string) {
	pa, pb := w.peers[a], w.peers[b]
	if pa == nil || pb == nil {
		return
	}
	topics := []string{}
	for t, sa := range pa.subs {
		if sb := pb.subs[t]; sa.live() && sb.live() {
			topics = append(topics, t)
		}
	}
	sort.Strings(topics)
	for _, t := range topics {
		w.addMsgLocked(&Msg{Kind: kind, Topic: t, From: b, To: a})
		w.addMsgLocked(&Msg{Kind: kind, Topic: t, From: a, To: b})
	}
}

func (w *World) addMsgLocked(m *Msg) {
	w.nextID++
	m.ID = w.nextID
	w.bag = append(w.bag, m)
}

// Bag returns the in-flight messages.
func (w *World) Bag() []*Msg {
	w.mu.Lock()
	defer w.mu.Unlock()
	return append([]*Msg{}, w.bag...)
}

// Take removes a message from the bag.
func (w *World) Take(id int) *Msg {
	w.mu.Lock()
	defer w.mu.Unlock()
	for i, m := range w.bag {
		if m.ID == id {
			w.bag = append(w.bag[:i:i], w.bag[i+1:]...)
			return m
		}
	}
	return nil
}

// Inject puts a crafted message into the bag.
func (w *World) Inject(m *Msg) *Msg {
	w.mu.Lock()
	defer w.mu.Unlock()
	w.addMsgLocked(m)
	return m
}

// Deliver hands a message (taken from the bag or crafted) to its destination.
// It reports false when the destination has no matching listener.
func (w *World) Deliver(m *Msg) bool {
	w.mu.Lock()
	p := w.peers[m.To]
	if p == nil {
		w.mu.Unlock()
		return false
	}
	var from peer.ID
	if f := w.peers[m.From]; f != nil {
		from = f.ID
	}
	switch m.Kind {
	case "pub":
		s := p.subs[m.Topic]
		if !s.live() || s.msgs == nil {
			w.mu.Unlock()
			return false
		}
		p.DeliveredPub[m.Topic]++
		ch := s.msgs
		w.mu.Unlock()
		ch <- pubsub.NewEventMessage(m.Payload)
		return true
	case "join", "leave":
		s := p.subs[m.Topic]
		if !s.live() || s.peers == nil {
			w.mu.Unlock()
			return false
		}
		var evt events.Event
		if m.Kind == "join" {
			p.DeliveredJoin[m.Topic]++
			evt = pubsub.NewEventPeerJoin(from, m.Topic)
		} else {
			evt = pubsub.NewEventPeerLeave(from, m.Topic)
		}
		ch := s.peers
		w.mu.Unlock()
		ch <- evt
		return true
	case "direct":
		d := p.direct
		if d == nil || d.closed {
			w.mu.Unlock()
			return false
		}
		p.DeliveredDirect++
		w.mu.Unlock()
		_ = d.emitter.Emit(pubsub.NewEventPayload(m.Payload, from))
		return true
	}
	w.mu.Unlock()
	return false
}

// ---------------------------------------------------------------------------
// blocks / CoreAPI

func (p *Peer) hasBlock(c cid.Cid) bool {
	_, ok := p.blocks[bkey(c)]
	return ok
}

// HasBlock reports whether the peer holds the block locally.
func (p *Peer) HasBlock(c cid.Cid) bool {
	p.w.mu.Lock()
	defer p.w.mu.Unlock()
	return p.hasBlock(c)
}

// PutBlock stores a raw block (recorded as an effect).
func (p *Peer) PutBlock(c cid.Cid, data []byte) {
	p.w.mu.Lock()
	p.putBlockLocked(c, data)
	p.w.cond.Broadcast()
	p.w.mu.Unlock()
	TheHub.Poke()
}

func (p *Peer) putBlockLocked(c cid.Cid, data []byte) {
	if _, ok := p.blocks[bkey(c)]; ok {
		return
	}
	p.blocks[bkey(c)] = data
	p.Effects = append(p.Effects, Effect{Kind: "block", Cid: c, Data: data})
}

// BlockCids lists the blocks held by the peer.
func (p *Peer) BlockCids() []cid.Cid {
	p.w.mu.Lock()
	defer p.w.mu.Unlock()
	out := []cid.Cid{}
	for k := range p.blocks {
		c, err := cid.Cast([]byte(k))
		if err == nil {
			out = append(out, c)
		}
	}
	return out
}

// RawBlock returns the bytes of a locally held block.
func (p *Peer) RawBlock(c cid.Cid) ([]byte, bool) {
	p.w.mu.Lock()
	defer p.w.mu.Unlock()
	b, ok := p.blocks[bkey(c)]
	return b, ok
}

func (w *World) remoteHolderLocked(p *Peer, c cid.Cid) *Peer {
	for _, n := range w.order {
		q := w.peers[n]
		if q != p && w.linkedLocked(p.Name, q.Name) && q.hasBlock(c) {
			return q
		}
	}
	return nil
}

func decodeBlock(c cid.Cid, data []byte) (ipld.Node, error) {
	switch c.Prefix().Codec {
	case cid.DagCBOR:
		return cbornode.Decode(data, mh.SHA2_256, -1)
	default:
		blk, err := blocks.NewBlockWithCid(data, c)
		if err != nil {
			return nil, err
		}
		return &rawNode{blk}, nil
	}
}

type rawNode struct{ blocks.Block }

func (r *rawNode) Resolve([]string) (interface{}, []string, error) {
	return nil, nil, fmt.Errorf("raw")
}
func (r *rawNode) Tree(string, int) []string { return nil }
func (r *rawNode) ResolveLink([]string) (*ipld.Link, []string, error) {
	return nil, nil, fmt.Errorf("raw")
}
func (r *rawNode) Copy() ipld.Node               { return r }
func (r *rawNode) Links() []*ipld.Link           { return nil }
func (r *rawNode) Stat() (*ipld.NodeStat, error) { return &ipld.NodeStat{}, nil }
func (r *rawNode) Size() (uint64, error)         { return uint64(len(r.RawData())), nil }

type simDag struct{ p *Peer }

func (d *simDag) Add(_ context.Context, n ipld.Node) error {
	d.p.PutBlock(n.Cid(), n.RawData())
	return nil
}

func (d *simDag) AddMany(ctx context.Context, ns []ipld.Node) error {
	for _, n := range ns {
		_ = d.Add(ctx, n)
	}
	return nil
}

// Deny makes every read of the block fail on this peer until Allow is called.
func (p *Peer) Deny(c cid.Cid) {
	p.w.mu.Lock()
	if p.denied == nil {
		p.denied = map[string]bool{}
	}
	p.denied[bkey(c)] = true
	p.w.mu.Unlock()
}

// DropBlock removes a block from the peer's store and returns it: until somebody puts it back, a read of it waits
// (as for a block no connected peer holds) for as long as its context lives.
func (p *Peer) DropBlock(c cid.Cid) ([]byte, bool) {
	p.w.mu.Lock()
	defer p.w.mu.Unlock()
	data, ok := p.blocks[bkey(c)]
	delete(p.blocks, bkey(c))
	return data, ok
}

// Allow undoes Deny.
func (p *Peer) Allow(c cid.Cid) {
	p.w.mu.Lock()
	delete(p.denied, bkey(c))
	p.w.mu.Unlock()
}

func (d *simDag) Get(ctx context.Context, c cid.Cid) (ipld.Node, error) {
	p, w := d.p, d.p.w
	w.mu.Lock()
	if p.denied[bkey(c)] {
		w.mu.Unlock()
		return nil, fmt.Errorf("block %s is not available", c)
	}
	if data, ok := p.blocks[bkey(c)]; ok {
		w.mu.Unlock()
		// a local read: a read under a context that is done fails; a gate point for the driver too (a slow disk): a
		// read that has begun completes, whatever happens to its context meanwhile
		if err := ctx.Err(); err != nil {
			return nil, err
		}
		TheHub.at("sim.get", p, c, ctx)
		return decodeBlock(c, data)
	}
	w.mu.Unlock()

	// remote fetch: a gate point for the driver, then wait for availability
	TheHub.at("sim.fetch", p, c, ctx)

	stop := make(chan struct{})
	defer close(stop)
	go func() {
		select {
		case <-ctx.Done():
			w.mu.Lock()
			w.cond.Broadcast()
			w.mu.Unlock()
		case <-stop:
		}
	}()

	w.mu.Lock()
	defer w.mu.Unlock()
	for {
		if data, ok := p.blocks[bkey(c)]; ok {
			return decodeBlock(c, data)
		}
		if err := ctx.Err(); err != nil {
			return nil, err
		}
		if w.AutoFetch {
			if q := w.remoteHolderLocked(p, c); q != nil {
				data := q.blocks[bkey(c)]
				p.putBlockLocked(c, data)
				return decodeBlock(c, data)
			}
		}
		w.cond.Wait()
	}
}

func (d *simDag) GetMany(ctx context.Context, cs []cid.Cid) <-chan *ipld.NodeOption {
	ch := make(chan *ipld.NodeOption, len(cs))
	go func() {
		defer close(ch)
		for _, c := range cs {
			n, err := d.Get(ctx, c)
			ch <- &ipld.NodeOption{Node: n, Err: err}
		}
	}()
	return ch
}

func (d *simDag) Remove(context.Context, cid.Cid) error       { return nil }
func (d *simDag) RemoveMany(context.Context, []cid.Cid) error { return nil }
func (d *simDag) Pinning() ipld.NodeAdder                     { return d }

// CompleteFetch copies a block from any holder to the peer (driver-controlled
// fetch completion when AutoFetch is off).
func (w *World) CompleteFetch(p *Peer, c cid.Cid) bool {
	w.mu.Lock()
	defer w.mu.Unlock()
	q := w.remoteHolderLocked(p, c)
	if q == nil {
		return false
	}
	p.putBlockLocked(c, q.blocks[bkey(c)])
	w.cond.Broadcast()
	return true
}

type simKey struct{ id peer.ID }

func (k *simKey) Name() string    { return "self" }
func (k *simKey) Path() path.Path { return nil }
func (k *simKey) ID() peer.ID     { return k.id }

type simKeyAPI struct {
	coreiface.KeyAPI
	p *Peer
}

func (k *simKeyAPI) Self(context.Context) (coreiface.Key, error) { return &simKey{k.p.ID}, nil }

type simUnixfs struct {
	coreiface.UnixfsAPI
	p *Peer
}

func (u *simUnixfs) Add(_ context.Context, n files.Node, _ ...options.UnixfsAddOption) (path.ImmutablePath, error) {
	f, ok := n.(files.File)
	if !ok {
		return path.ImmutablePath{}, fmt.Errorf("simunixfs: only files")
	}
	data, err := io.ReadAll(f)
	if err != nil {
		return path.ImmutablePath{}, err
	}
	h, _ := mh.Sum(data, mh.SHA2_256, -1)
	c := cid.NewCidV1(cid.Raw, h)
	u.p.PutBlock(c, data)
	return path.FromCid(c), nil
}

func (u *simUnixfs) Get(ctx context.Context, pth path.Path) (files.Node, error) {
	ip, err := path.NewImmutablePath(pth)
	if err != nil {
		return nil, err
	}
	n, err := (&simDag{u.p}).Get(ctx, ip.RootCid())
	if err != nil {
		return nil, err
	}
	return files.NewReaderFile(bytes.NewReader(n.RawData())), nil
}

// SimIPFS is the CoreAPI given to go-orbit-db: Dag, Key and Unixfs only.
type SimIPFS struct {
	coreiface.CoreAPI
	p *Peer
}

func (s *SimIPFS) Dag() coreiface.APIDagService { return &simDag{s.p} }
func (s *SimIPFS) Key() coreiface.KeyAPI        { return &simKeyAPI{p: s.p} }
func (s *SimIPFS) Unixfs() coreiface.UnixfsAPI  { return &simUnixfs{p: s.p} }

// IPFS returns the peer's CoreAPI.
func (p *Peer) IPFS() coreiface.CoreAPI { return &SimIPFS{p: p} }

// ---------------------------------------------------------------------------
// pubsub

type topicSub struct {
	msgs   chan *iface.EventPubSubMessage
	peers  chan events.Event
	closed bool
	refs   int
	ctx    context.Context // the subscription lives as long as this context (the store's)
}

// closeLocked ends the subscription (world lock held).
func (s *topicSub) closeLocked(p *Peer, topic string) {
	if s.closed {
		return
	}
	s.closed = true
	if s.peers != nil {
		close(s.peers)
	}
	if s.msgs != nil {
		close(s.msgs)
	}
	if p.subs[topic] == s {
		delete(p.subs, topic)
	}
}

type simPubSub struct{ p *Peer }

type simTopic struct {
	p     *Peer
	topic string
}

// PubSub returns the peer's iface.PubSubInterface.
func (p *Peer) PubSub() iface.PubSubInterface { return &simPubSub{p} }

func (s *simPubSub) TopicSubscribe(_ context.Context, topic string) (iface.PubSubTopic, error) {
	return &simTopic{p: s.p, topic: topic}, nil
}

func (t *simTopic) Topic() string { return t.topic }

func (t *simTopic) sub() *topicSub {
	s := t.p.subs[t.topic]
	// a subscription whose store has been closed is over, whether or not the goroutine that
	// watches its context has run yet: a store opened afterwards gets a fresh subscription
	if s != nil && !s.closed && s.ctx != nil && s.ctx.Err() != nil {
		s.closeLocked(t.p, t.topic)
	}
	if s == nil || s.closed {
		s = &topicSub{}
		t.p.subs[t.topic] = s
	}
	return s
}

func (t *simTopic) Publish(_ context.Context, message []byte) error {
	w := t.p.w
	w.mu.Lock()
	defer w.mu.Unlock()
	w.Published = append(w.Published, &Msg{Kind: "pub", Topic: t.topic, From: t.p.Name, Payload: message})
	for _, n := range w.order {
		q := w.peers[n]
		if q == t.p || !w.linkedLocked(t.p.Name, n) {
			continue
		}
		if s := q.subs[t.topic]; s.live() {
			w.addMsgLocked(&Msg{Kind: "pub", Topic: t.topic, From: t.p.Name, To: n, Payload: message})
		}
	}
	return nil
}

func (t *simTopic) Peers(context.Context) ([]peer.ID, error) {
	// a gate point for the driver: the pubsub is slow to answer
	TheHub.at("sim.peers", t.p, t.topic)
	w := t.p.w
	w.mu.Lock()
	defer w.mu.Unlock()
	out := []peer.ID{}
	for _, n := range w.order {
		q := w.peers[n]
		if q == t.p || !w.linkedLocked(t.p.Name, n) {
			continue
		}
		if s := q.subs[t.topic]; s.live() {
			out = append(out, q.ID)
		}
	}
	return out, nil
}

func (t *simTopic) WatchPeers(ctx context.Context) (<-chan events.Event, error) {
	w := t.p.w
	w.mu.Lock()
	s := t.sub()
	first := s.peers == nil
	if first {
		s.peers = make(chan events.Event, 256)
		s.ctx = ctx
	}
	ch := s.peers
	if first {
		// joining the topic: every linked member and this peer observe each other
		for _, n := range w.order {
			q := w.peers[n]
			if q == t.p || !w.linkedLocked(t.p.Name, n) {
				continue
			}
			if qs := q.subs[t.topic]; qs.live() {
				w.addMsgLocked(&Msg{Kind: "join", Topic: t.topic, From: n, To: t.p.Name})
				w.addMsgLocked(&Msg{Kind: "join", Topic: t.topic, From: t.p.Name, To: n})
			}
		}
	}
	w.mu.Unlock()
	go func() {
		<-ctx.Done()
		w.mu.Lock()
		s.closeLocked(t.p, t.topic)
		w.mu.Unlock()
	}()
	return ch, nil
}

func (t *simTopic) WatchMessages(ctx context.Context) (<-chan *iface.EventPubSubMessage, error) {
	w := t.p.w
	w.mu.Lock()
	s := t.sub()
	if s.msgs == nil {
		s.msgs = make(chan *iface.EventPubSubMessage, 256)
	}
	ch := s.msgs
	w.mu.Unlock()
	return ch, nil
}

// ---------------------------------------------------------------------------
// direct channel

type simDirect struct {
	p       *Peer
	emitter iface.DirectChannelEmitter
	closed  bool
}

// DirectChannelFactory returns the peer's iface.DirectChannelFactory.
func (p *Peer) DirectChannelFactory() iface.DirectChannelFactory {
	return func(_ context.Context, emitter iface.DirectChannelEmitter, _ *iface.DirectChannelOptions) (iface.DirectChannel, error) {
		d := &simDirect{p: p, emitter: emitter}
		p.w.mu.Lock()
		p.direct = d
		p.w.mu.Unlock()
		return d, nil
	}
}

func (d *simDirect) Connect(_ context.Context, target peer.ID) error {
	w := d.p.w
	w.mu.Lock()
	defer w.mu.Unlock()
	q := w.peerByID(target)
	if q == nil || !w.linkedLocked(d.p.Name, q.Name) {
		return fmt.Errorf("simdirect: peer not reachable")
	}
	return nil
}

func (d *simDirect) Send(_ context.Context, target peer.ID, data []byte) error {
	w := d.p.w
	w.mu.Lock()
	defer w.mu.Unlock()
	q := w.peerByID(target)
	if q == nil || !w.linkedLocked(d.p.Name, q.Name) {
		return fmt.Errorf("simdirect: peer not reachable")
	}
	w.Published = append(w.Published, &Msg{Kind: "direct", From: d.p.Name, To: q.Name, Payload: data})
	w.addMsgLocked(&Msg{Kind: "direct", From: d.p.Name, To: q.Name, Payload: data})
	return nil
}

func (d *simDirect) Close() error {
	w := d.p.w
	w.mu.Lock()
	d.closed = true
	if d.p.direct == d {
		d.p.direct = nil
	}
	w.mu.Unlock()
	return d.emitter.Close()
}

// CloneDurable builds a new world containing one peer with the same identity
// whose durable state (blocks, caches) is exactly the first n persistence
// effects of p: the state a crash after the n-th effect leaves behind.
func (p *Peer) CloneDurable(n int) *Peer {
	w := NewWorld()
	q := w.AddPeer(p.Name)
	if ks, ok := peerKeystores[p]; ok {
		peerKeystores[q] = ks
	}
	p.w.mu.Lock()
	effs := append([]Effect{}, p.Effects...)
	p.w.mu.Unlock()
	if n > len(effs) {
		n = len(effs)
	}
	data := map[string]map[string][]byte{}
	for _, e := range effs[:n] {
		switch e.Kind {
		case "block":
			q.blocks[bkey(e.Cid)] = e.Data
		case "put":
			if data[e.Cache] == nil {
				data[e.Cache] = map[string][]byte{}
			}
			data[e.Cache][e.Key] = e.Data
		case "delete":
			delete(data[e.Cache], e.Key)
		}
	}
	q.Caches.Restore(data)
	// the clone's own effect log starts with what it was built from, so that it can be cloned in turn
	q.Effects = append([]Effect{}, effs[:n]...)
	return q
}

// EffectCount returns the number of persistence effects issued so far.
func (p *Peer) EffectCount() int {
	p.w.mu.Lock()
	defer p.w.mu.Unlock()
	return len(p.Effects)
}

// EffectKinds summarises the effect log (for evidence samples).
func (p *Peer) EffectKinds() []string {
	p.w.mu.Lock()
	defer p.w.mu.Unlock()
	out := []string{}
	for _, e := range p.Effects {
		if e.Kind == "block" {
			out = append(out, "block")
		} else {
			out = append(out, e.Kind+":"+e.Key)
		}
	}
	return out
}

// bkey is the key of a block in a peer's store: as in a real blockstore, the multihash, whatever
// version and codec the CID that asks for it carries.
func bkey(c cid.Cid) string { return string(c.Hash()) }
