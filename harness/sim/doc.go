// Package sim is the simulated world in which real go-orbit-db instances run
// under the control of a replayed TLA+ behaviour.
package sim
