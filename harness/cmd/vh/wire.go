package main

import (
	"berty.tech/go-orbit-db/iface"
	"context"
	"encoding/json"
	"fmt"
	cid "github.com/ipfs/go-cid"
	cbornode "github.com/ipfs/go-ipld-cbor"
	mh "github.com/multiformats/go-multihash"
	"math/rand"
	"os"
	"strings"

	ipfslog "berty.tech/go-ipfs-log"
	"berty.tech/go-ipfs-log/entry"
	orbitdb "berty.tech/go-orbit-db"
	"verif/harness/sim"
)

func init() { commands["wire"] = wireCmd }

// WireInput: behaviours of spec/Wire.tla (sequences of malformed deliveries and
// valid messages) realised against a real instance with two databases.
type WireInput struct {
	Property   string      `json:"property"`
	Seed       int64       `json:"seed"`
	Behaviours []Behaviour `json:"behaviours"`
	PerClass   int         `json:"per_class"` // extra single-delivery cases per (channel, class)
	Classes    []string    `json:"classes"`
}

// malformed builds a byte string of the given class; real is a valid message.
func malformed(class string, addr string, real []byte, head *entry.Entry, rng *rand.Rand) []byte {
	var hm map[string]interface{}
	hb, _ := json.Marshal(head)
	_ = json.Unmarshal(hb, &hm)
	msg := func(heads interface{}) []byte {
		b, _ := json.Marshal(map[string]interface{}{"address": addr, "heads": heads})
		return b
	}
	without := func(keys ...string) map[string]interface{} {
		m := map[string]interface{}{}
		for k, v := range hm {
			m[k] = v
		}
		for _, k := range keys {
			delete(m, k)
		}
		return m
	}
	with := func(k string, v interface{}) map[string]interface{} {
		m := without()
		m[k] = v
		return m
	}
	switch class {
	case "garbage":
		b := make([]byte, rng.Intn(300))
		rng.Read(b)
		return b
	case "empty":
		return []byte{}
	case "json-not-object":
		return [][]byte{[]byte("[]"), []byte(`"x"`), []byte("123"), []byte("null"), []byte("true"), []byte("[[[]]]")}[rng.Intn(6)]
	case "heads-null":
		return msg(nil)
	case "heads-empty":
		return msg([]interface{}{})
	case "head-null":
		return msg([]interface{}{nil})
	case "head-null-among-valid":
		return msg([]interface{}{nil, hm, nil})
	case "head-empty-object":
		return msg([]interface{}{map[string]interface{}{}})
	case "head-no-identity":
		return msg([]interface{}{without("identity")})
	case "head-identity-null":
		return msg([]interface{}{with("identity", nil)})
	case "head-identity-empty":
		return msg([]interface{}{with("identity", map[string]interface{}{})})
	case "head-identity-no-signatures":
		id := map[string]interface{}{}
		for k, v := range asMap(hm["identity"]) {
			if k != "signatures" {
				id[k] = v
			}
		}
		return msg([]interface{}{with("identity", id)})
	case "head-no-clock":
		return msg([]interface{}{without("clock")})
	case "head-clock-null":
		return msg([]interface{}{with("clock", nil)})
	case "head-no-hash":
		return msg([]interface{}{without("hash")})
	case "head-no-sig":
		return msg([]interface{}{without("sig")})
	case "head-no-key":
		return msg([]interface{}{without("key")})
	case "head-no-payload":
		return msg([]interface{}{without("payload")})
	case "head-no-id":
		return msg([]interface{}{without("id")})
	case "head-ill-typed":
		alts := []interface{}{1, "x", []interface{}{1}, map[string]interface{}{"hash": 1}, with("clock", "x"), with("next", "x"), with("next", []interface{}{"not-a-cid"}),
			with("hash", "not-a-cid"), with("identity", "x"), with("payload", 7), with("v", "two"), with("key", []interface{}{1}), with("refs", map[string]interface{}{})}
		return msg([]interface{}{alts[rng.Intn(len(alts))]})
	case "heads-ill-typed":
		return [][]byte{msg("x"), msg(1), msg(map[string]interface{}{"a": 1})}[rng.Intn(3)]
	case "address-unknown":
		b, _ := json.Marshal(map[string]interface{}{"address": "/orbitdb/bafyreib6dwsnvk2btrcmbdduuf5w64szfqijgdubiqkhwbzy3pqcmkdcpa/nowhere", "heads": []interface{}{hm}})
		return b
	case "address-missing":
		b, _ := json.Marshal(map[string]interface{}{"heads": []interface{}{hm}})
		return b
	case "address-ill-typed":
		b, _ := json.Marshal(map[string]interface{}{"address": 5, "heads": []interface{}{hm}})
		return b
	case "huge-numbers":
		return msg([]interface{}{with("clock", map[string]interface{}{"id": asMap(hm["clock"])["id"], "time": 9.3e18}), with("v", 1.9e19)})
	case "deep-nesting":
		return []byte(strings.Repeat("[", 2000) + strings.Repeat("]", 2000))
	case "truncated-real":
		if len(real) < 2 {
			return real
		}
		return real[:1+rng.Intn(len(real)-1)]
	case "real-payload-changed":
		// a damaged copy of the real message: one byte of the head's payload differs, the claimed hash is the real one
		pl, _ := hm["payload"].(string)
		if len(pl) > 2 {
			b := []byte(pl)
			if b[1] == 'A' {
				b[1] = 'B'
			} else {
				b[1] = 'A'
			}
			pl = string(b)
		}
		return msg([]interface{}{with("payload", pl)})
	case "real-identity-sig-changed", "real-identity-keysig-changed":
		// a damaged copy of the real message: one character of a signature inside the head's identity block differs; the
		// identity's id and key are the writer's own
		id := map[string]interface{}{}
		for k, v := range asMap(hm["identity"]) {
			id[k] = v
		}
		sigs := map[string]interface{}{}
		for k, v := range asMap(id["signatures"]) {
			sigs[k] = v
		}
		field := "id"
		if class == "real-identity-keysig-changed" {
			field = "publicKey"
		}
		if sg, _ := sigs[field].(string); len(sg) > 24 {
			b := []byte(sg)
			// (not among the last characters: the signature travels in base64, whose decoder ignores the unused bits of
			// the last character before the padding - such a copy would decode to the very same signature)
			p := 10 + rng.Intn(len(b)-20)
			if b[p] == '1' {
				b[p] = '2'
			} else {
				b[p] = '1'
			}
			sigs[field] = string(b)
		}
		id["signatures"] = sigs
		return msg([]interface{}{with("identity", id)})
	case "real-hash-alias":
		// the real head announced under another CID of the same block: same digest, another codec or version
		mhash := head.GetHash().Hash()
		alias := []cid.Cid{cid.NewCidV1(cid.Raw, mhash), cid.NewCidV1(cid.DagProtobuf, mhash), cid.NewCidV1(cid.DagJSON, mhash), cid.NewCidV0(mhash)}[rng.Intn(4)]
		return msg([]interface{}{with("hash", map[string]interface{}{"/": alias.String()})})
	case "mutated-real":
		b := append([]byte{}, real...)
		for i := 0; i < 1+rng.Intn(4); i++ {
			switch rng.Intn(3) {
			case 0:
				b[rng.Intn(len(b))] ^= byte(1 << uint(rng.Intn(8)))
			case 1:
				p := rng.Intn(len(b))
				b = append(b[:p], b[p+1:]...)
			default:
				p := rng.Intn(len(b))
				b = append(b[:p], append([]byte{b[p]}, b[p:]...)...)
			}
		}
		return b
	}
	return []byte("{")
}

type wireEnv struct {
	w            *sim.World
	wn, rn       *sim.Node
	w1, w2       *sim.StoreRef // writer's handles of database 1 and 2
	r1, r2       *sim.StoreRef // the peer under test holds both
	heads        []*entry.Entry
	nvalid       int
	validEntries []ipfslog.Entry
}

func newWireEnv(tag string) (*wireEnv, error) {
	e := &wireEnv{w: sim.NewWorld()}
	var err error
	if e.wn, err = e.w.AddPeer(tag + "-w").Start(""); err != nil {
		return nil, err
	}
	if e.rn, err = e.w.AddPeer(tag + "-r").Start(""); err != nil {
		return nil, err
	}
	ac := sim.AccessFor([]string{e.wn.DB.Identity().ID})
	if e.w1, err = e.wn.Open("wire1-"+tag, "keyvalue", &orbitdb.CreateDBOptions{AccessController: ac}); err != nil {
		return nil, err
	}
	if e.w2, err = e.wn.Open("wire2-"+tag, "eventlog", &orbitdb.CreateDBOptions{AccessController: ac}); err != nil {
		return nil, err
	}
	if e.r1, err = e.rn.Open(e.w1.Addr, "keyvalue", nil); err != nil {
		return nil, err
	}
	if e.r2, err = e.rn.Open(e.w2.Addr, "eventlog", nil); err != nil {
		return nil, err
	}
	return e, nil
}

func (e *wireEnv) close() {
	_ = e.wn.Close()
	_ = e.rn.Close()
}

func (e *wireEnv) contents() string {
	return fmt.Sprintf("db1=%d db2=%d", e.r1.S.OpLog().Len(), e.r2.S.OpLog().Len())
}

func (e *wireEnv) sendTo(ch string, addr string, payload []byte) {
	switch ch {
	case "topic":
		e.w.Deliver(&sim.Msg{Kind: "pub", Topic: addr, From: e.wn.P.Name, To: e.rn.P.Name, Payload: payload})
	case "direct":
		e.w.Deliver(&sim.Msg{Kind: "direct", From: e.wn.P.Name, To: e.rn.P.Name, Payload: payload})
	}
}

func wireCmd(args []string) int {
	in := &WireInput{}
	if len(args) < 2 || readJSON(args[0], in) != nil {
		fmt.Fprintln(os.Stderr, "usage: vh wire <in.json> <out.json>")
		return 2
	}
	if err := sim.Install(); err != nil {
		fmt.Fprintln(os.Stderr, err)
		return 2
	}
	res := newResult("wire")
	ctx := context.Background()
	behaviours := append([]Behaviour{}, in.Behaviours...)
	// plus every (channel, class) on its own, several representatives each
	for _, ch := range []string{"topic", "direct"} {
		for _, cls := range in.Classes {
			for k := 0; k < in.PerClass; k++ {
				behaviours = append(behaviours, Behaviour{ID: fmt.Sprintf("single/%s/%s/%d", ch, cls, k), Steps: []Step{
					{Action: "DeliverMalformed", Args: []interface{}{ch, cls}}, {Action: "DeliverValid", Args: []interface{}{ch}}}})
			}
		}
	}
	// ... and every (channel, class) received by a peer that already holds entries of the database (handlers may treat
	// heads differently once the log is not empty)
	for _, ch := range []string{"topic", "direct"} {
		for _, cls := range in.Classes {
			behaviours = append(behaviours, Behaviour{ID: fmt.Sprintf("after-valid/%s/%s", ch, cls), Steps: []Step{
				{Action: "DeliverValid", Args: []interface{}{ch}}, {Action: "DeliverMalformed", Args: []interface{}{ch, cls}}, {Action: "DeliverValid", Args: []interface{}{ch}}}})
		}
	}
	// a damaged copy of an announcement, several times, then the announcement itself: it must still be handled
	for _, ch := range []string{"topic", "direct"} {
		behaviours = append(behaviours, Behaviour{ID: "damaged-copy-then-real/" + ch, Steps: []Step{
			{Action: "DeliverMalformed", Args: []interface{}{ch, "real-payload-changed"}}, {Action: "DeliverMalformed", Args: []interface{}{ch, "real-payload-changed"}},
			{Action: "DeliverReal", Args: []interface{}{ch}}, {Action: "DeliverValid", Args: []interface{}{ch}}}})
	}
	// a run of undecodable payloads from one peer on one channel (longer than any counter a receiver might keep), then a
	// valid message from the same peer
	for _, ch := range []string{"topic", "direct"} {
		steps := []Step{}
		for k, cls := range []string{"garbage", "truncated-real", "json-not-object", "empty", "heads-ill-typed", "garbage", "deep-nesting", "garbage", "truncated-real", "head-ill-typed", "garbage", "garbage"} {
			_ = k
			steps = append(steps, Step{Action: "DeliverMalformed", Args: []interface{}{ch, cls}})
		}
		steps = append(steps, Step{Action: "DeliverValid", Args: []interface{}{ch}}, Step{Action: "DeliverValid", Args: []interface{}{ch}})
		behaviours = append(behaviours, Behaviour{ID: "noise-run-then-valid/" + ch, Steps: steps})
	}
	for bi, b := range behaviours {
		rng := rand.New(rand.NewSource(in.Seed*1009 + int64(bi)))
		env, err := newWireEnv(fmt.Sprintf("w%d", bi))
		if err != nil {
			res.Inconclusive = append(res.Inconclusive, b.ID+": setup: "+err.Error())
			continue
		}
		res.Behaviours++
		func() {
			defer env.close()
			viol := func(step int, kind, detail string) {
				res.violate(Violation{Property: in.Property, Kind: kind, Behaviour: b.ID, Step: step, Detail: detail})
			}
			// a real message to mutate: the writer's first entry of database 1
			op, err := env.w1.S.(orbitdb.KeyValueStore).Put(ctx, "seed", []byte("s"))
			if err != nil {
				res.Inconclusive = append(res.Inconclusive, b.ID+": "+err.Error())
				return
			}
			seedHead := op.GetEntry().(*entry.Entry)
			real := headsMsg(env.w1.Addr, seedHead)
			if err := sim.Settle(settleTimeout, env.wn, env.rn); err != nil {
				res.Inconclusive = append(res.Inconclusive, b.ID+": "+err.Error())
				return
			}
			for _, m := range env.w.Bag() {
				env.w.Take(m.ID)
			}
			nvalid := 0
			var linkedHead *entry.Entry
			for si, st := range b.Steps {
				switch st.Action {
				case "Init":
					continue
				case "DeliverMalformed":
					ch, cls := asStr(st.Args[0]), asStr(st.Args[1])
					if ch == "frame" {
						continue // raw stream frames are exercised by `vh transport`
					}
					before := env.contents()
					lenBefore := env.r1.S.OpLog().Len()
					_, hadSeed := env.r1.S.OpLog().Get(seedHead.GetHash())
					payload := malformed(cls, env.w1.Addr, real, seedHead, rng)
					if cls == "head-links-to-malformed-block" {
						// a well-formed head of the authorised writer whose link leads to a block that is the seed entry
						// without its clock (or without the signatures of its identity)
						raw, ok := env.wn.P.RawBlock(seedHead.GetHash())
						var fields map[string]interface{}
						if !ok || cbornode.DecodeInto(raw, &fields) != nil {
							res.Inconclusive = append(res.Inconclusive, b.ID+": no block of the seed entry")
							return
						}
						if rng.Intn(2) == 0 {
							delete(fields, "clock")
						} else if id, ok := fields["identity"].(map[string]interface{}); ok {
							delete(id, "signatures")
						}
						nd, err := cbornode.WrapObject(fields, mh.SHA2_256, -1)
						if err != nil {
							res.Inconclusive = append(res.Inconclusive, b.ID+": "+err.Error())
							return
						}
						env.wn.P.PutBlock(nd.Cid(), nd.RawData())
						head, err := mkEntry(ctx, env.wn, env.wn.DB.Identity(), env.w1.Addr, []byte(`{"op":"PUT","key":"linked","value":"eA=="}`), []cid.Cid{nd.Cid()}, seedHead.GetClock().GetTime()+1)
						if err != nil {
							res.Inconclusive = append(res.Inconclusive, b.ID+": "+err.Error())
							return
						}
						payload = headsMsg(env.w1.Addr, head)
						linkedHead = head
					}
					mark("%s step %d: %s message of class %s: %q", b.ID, si, ch, cls, truncate(payload, 300))
					env.sendTo(ch, env.w1.Addr, payload)
					if err := sim.Settle(settleTimeout, env.rn); err != nil {
						viol(si, "stuck", fmt.Sprintf("after a %s message of class %s the peer does not come to rest: %v", ch, cls, err))
						return
					}
					res.Comparisons++
					res.Stats["class_"+cls]++
					// a mutated real message may happen to remain a valid announcement of the seed entry
					after := env.contents()
					if cls == "head-links-to-malformed-block" && linkedHead != nil {
						// the head is a valid entry of the writer and may be merged on its own; the malformed block never is
						for _, e := range env.r1.S.OpLog().GetEntries().Slice() {
							if e.GetClock() == nil || e.GetIdentity() == nil || e.GetIdentity().Signatures == nil {
								viol(si, "changed", "a block that is not a well-formed entry was merged")
							}
						}
						after = before
					}
					if after != before && os.Getenv("VH_DEBUG") != "" {
						for _, e := range env.r1.S.OpLog().GetEntries().Slice() {
							res.note("%s step %d: r1 holds %s clock %d payload %s next %v", b.ID, si, e.GetHash(), e.GetClock().GetTime(), truncate(e.GetPayload(), 60), e.GetNext())
						}
						res.note("seed head %s", seedHead.GetHash())
					}
					if after != before {
						_, ok := env.r1.S.OpLog().Get(seedHead.GetHash())
						if !(ok && (cls == "mutated-real" || cls == "truncated-real" || cls == "head-null-among-valid" || cls == "address-missing" || cls == "address-unknown" || cls == "address-ill-typed") && !hadSeed && env.r1.S.OpLog().Len() == lenBefore+1 && env.r2.S.OpLog().Len() == 0) {
							viol(si, "changed", fmt.Sprintf("a %s message of class %s changed the contents: %s -> %s", ch, cls, before, after))
						}
					}
				case "DeliverReal":
					ch := asStr(st.Args[0])
					mark("%s step %d: the real %s message whose damaged copies were delivered before", b.ID, si, ch)
					env.sendTo(ch, env.w1.Addr, real)
					if err := sim.Settle(settleTimeout, env.rn); err != nil {
						viol(si, "stuck", "after a valid message the peer does not come to rest: "+err.Error())
						return
					}
					res.Comparisons++
					if _, ok := env.r1.S.OpLog().Get(seedHead.GetHash()); !ok {
						viol(si, "valid-ignored", fmt.Sprintf("a valid %s message was not handled after damaged copies of it had been received", ch))
						return
					}
				case "DeliverValid":
					ch := asStr(st.Args[0])
					nvalid++
					key := fmt.Sprintf("valid-%d", nvalid)
					op, err := env.w1.S.(orbitdb.KeyValueStore).Put(ctx, key, []byte(key))
					if err != nil && si > 0 && strings.Contains(err.Error(), "append denied") {
						// the writer is on the write list of its own database: only something remembered from the malformed
						// messages (the peers of the harness share one process) can make its access controller refuse it
						viol(si, "valid-ignored", "after malformed messages the authorised writer's own valid write is refused: "+err.Error())
						return
					}
					if err != nil {
						res.Inconclusive = append(res.Inconclusive, b.ID+": "+err.Error())
						return
					}
					if err := sim.Settle(settleTimeout, env.wn); err != nil {
						res.Inconclusive = append(res.Inconclusive, b.ID+": "+err.Error())
						return
					}
					for _, m := range env.w.Bag() {
						env.w.Take(m.ID)
					}
					mark("%s step %d: valid %s message", b.ID, si, ch)
					env.sendTo(ch, env.w1.Addr, headsMsg(env.w1.Addr, op.GetEntry().(*entry.Entry)))
					if err := sim.Settle(settleTimeout, env.rn); err != nil {
						viol(si, "stuck", "after a valid message the peer does not come to rest: "+err.Error())
						return
					}
					res.Comparisons++
					if v, _ := env.r1.S.(orbitdb.KeyValueStore).Get(ctx, key); string(v) != key {
						viol(si, "valid-ignored", fmt.Sprintf("a valid %s message delivered after malformed ones was not handled", ch))
						return
					}
					if env.r2.S.OpLog().Len() != 0 {
						viol(si, "changed", "the other database of the peer changed")
					}
				}
				res.Steps++
			}
			if len(res.Samples) < 4 {
				res.Samples = append(res.Samples, map[string]interface{}{"behaviour": b.ID, "actions": briefSteps(b.Steps)})
			}
		}()
	}
	malformedOperations(in, res)
	return res.write(args[1])
}

// malformedOperations: a well-formed, correctly signed entry of an authorised writer whose payload is not a well-formed
// operation of the store (what another implementation, or a peer using the log directly, may write). It reaches the
// replica as an announced head. The process survives, and the other databases of the peer are as they were.
func malformedOperations(in *WireInput, res *Result) {
	ctx := context.Background()
	payloads := []string{
		`{"op":"PUTALL","docs":[null]}`, `{"op":"PUTALL","docs":null}`, `{"op":"PUTALL","docs":[{"key":"a","value":"eA=="},null]}`,
		`{"op":"PUT","key":null,"value":null}`, `{"op":"PUT"}`, `{"op":5}`, `[]`, `"text"`, `null`, `{"op":"PUT","key":"k","value":{"a":1}}`,
		`{"op":"DEL"}`, `{"op":"ADD","value":null}`, `{"op":"PUTALL","docs":[{"key":null,"value":null}]}`, `{}`,
	}
	for _, stype := range []string{"doc", "kv", "log"} {
		for pi, payload := range payloads {
			bid := fmt.Sprintf("malformed-operation/%s/%d", stype, pi)
			w := sim.NewWorld()
			wn, err := w.AddPeer(fmt.Sprintf("mo-w-%s-%d", stype, pi)).Start("")
			if err != nil {
				res.Inconclusive = append(res.Inconclusive, bid+": "+err.Error())
				return
			}
			rn, err := w.AddPeer(fmt.Sprintf("mo-r-%s-%d", stype, pi)).Start("")
			if err != nil {
				res.Inconclusive = append(res.Inconclusive, bid+": "+err.Error())
				return
			}
			func() {
				defer wn.Close()
				defer rn.Close()
				ac := sim.AccessFor([]string{wn.DB.Identity().ID})
				wd, err := wn.Open("mo-"+bid, realType(stype), &orbitdb.CreateDBOptions{AccessController: ac})
				if err != nil {
					res.Inconclusive = append(res.Inconclusive, bid+": "+err.Error())
					return
				}
				wo, err := wn.Open("mo-other-"+bid, "eventlog", &orbitdb.CreateDBOptions{AccessController: ac})
				if err != nil {
					res.Inconclusive = append(res.Inconclusive, bid+": "+err.Error())
					return
				}
				rd, err := rn.Open(wd.Addr, realType(stype), nil)
				if err != nil {
					res.Inconclusive = append(res.Inconclusive, bid+": "+err.Error())
					return
				}
				ro, err := rn.Open(wo.Addr, "eventlog", nil)
				if err != nil {
					res.Inconclusive = append(res.Inconclusive, bid+": "+err.Error())
					return
				}
				res.Behaviours++
				mark("%s: an entry of the authorised writer whose payload is %s, announced on the topic of a %s store", bid, payload, stype)
				e, err := mkEntry(ctx, wn, wn.DB.Identity(), wd.Addr, []byte(payload), []cid.Cid{}, 1)
				if err != nil {
					res.Inconclusive = append(res.Inconclusive, bid+": "+err.Error())
					return
				}
				w.Deliver(&sim.Msg{Kind: "pub", Topic: wd.Addr, From: wn.P.Name, To: rn.P.Name, Payload: headsMsg(wd.Addr, e)})
				if err := sim.Settle(settleTimeout, rn); err != nil {
					res.violate(Violation{Property: in.Property, Kind: "stuck", Behaviour: bid, Detail: "after an entry with a malformed operation the peer does not come to rest: " + err.Error()})
					return
				}
				// reading the store does not crash either
				switch stype {
				case "kv":
					_ = rd.S.(orbitdb.KeyValueStore).All()
				case "doc":
					_, _ = rd.S.(orbitdb.DocumentStore).Query(ctx, func(interface{}) (bool, error) { return true, nil })
				default:
					all := -1
					_, _ = rd.S.(orbitdb.EventLogStore).List(ctx, &iface.StreamOptions{Amount: &all})
				}
				res.Comparisons++
				res.Stats["malformed_operations"]++
				// the other database of the peer still replicates
				op, err := wo.S.(orbitdb.EventLogStore).Add(ctx, []byte("after"))
				if err != nil {
					res.Inconclusive = append(res.Inconclusive, bid+": "+err.Error())
					return
				}
				_ = sim.Settle(settleTimeout, wn)
				for _, m := range w.Bag() {
					w.Take(m.ID)
				}
				w.Deliver(&sim.Msg{Kind: "pub", Topic: wo.Addr, From: wn.P.Name, To: rn.P.Name, Payload: headsMsg(wo.Addr, op.GetEntry().(*entry.Entry))})
				if err := sim.Settle(settleTimeout, rn); err != nil {
					res.violate(Violation{Property: in.Property, Kind: "stuck", Behaviour: bid, Detail: "after an entry with a malformed operation the peer does not come to rest: " + err.Error()})
					return
				}
				if ro.S.OpLog().Len() != 1 {
					res.violate(Violation{Property: in.Property, Kind: "valid-ignored", Behaviour: bid, Detail: fmt.Sprintf("after a %s store received an entry whose payload is %s, a valid message for another database of the peer was not handled", stype, payload)})
				}
			}()
		}
	}
}

func truncate(b []byte, n int) []byte {
	if len(b) > n {
		return b[:n]
	}
	return b
}
