package main

import (
	"context"
	"encoding/json"
	"fmt"
	cid "github.com/ipfs/go-cid"
	"os"
	"reflect"
	"sort"
	"strings"
	"sync"
	"time"

	ipfslog "berty.tech/go-ipfs-log"
	"berty.tech/go-ipfs-log/entry"
	orbitdb "berty.tech/go-orbit-db"
	"berty.tech/go-orbit-db/iface"
	"berty.tech/go-orbit-db/stores"
	"github.com/libp2p/go-libp2p/core/event"
	"github.com/libp2p/go-libp2p/p2p/host/eventbus"
	"verif/harness/sim"
)

func init() { commands["isolation"] = isolationCmd }

// IsolationInput: behaviours of spec/Isolation.tla on one real instance holding several databases.
type IsolationInput struct {
	Closed     []string    `json:"closed"` // databases whose write list does not name the remote writer
	Property   string      `json:"property"`
	Seed       int64       `json:"seed"`
	DBs        []string    `json:"dbs"`
	Behaviours []Behaviour `json:"behaviours"`
}

type isoDB struct {
	closed bool // the remote writer is not in the write list
	name   string
	stype  string
	local  *sim.StoreRef // on the instance under test
	remote *sim.StoreRef // the remote writer's replica
	nw     int
	pend   []ipfslog.Entry // remote entries not yet delivered
	// an operation the index cannot read has been replicated into this database: its own view is out of the model
	poisoned bool
	lastKey  string
}

type isoRun struct {
	memdir      bool                     // the instance under test runs over cacheleveldown's in-memory directory, not the simulated cache
	remAccepted bool                     // an entry of the remote writer has been merged into some database of the instance
	shared      *orbitdb.CreateDBOptions // when set, the caller reuses this one value for every Open
	in          *IsolationInput
	res         *Result
	bid         string
	step        int
	w           *sim.World
	inst        *sim.Node
	rem         *sim.Node
	dbs         map[string]*isoDB
	mu          sync.Mutex
	evs         map[string][]string // address -> store events seen on the bus (kind + entry log ids)
	flushEm     event.Emitter
	flushed     chan struct{}
}

func (r *isoRun) violate(kind, detail string, exp, got interface{}) {
	r.res.violate(Violation{Property: r.in.Property, Kind: kind, Behaviour: r.bid, Step: r.step, Detail: detail, Expected: exp, Got: got})
}

var isoTypes = []string{"kv", "log", "doc", "kv"}

func (r *isoRun) setup(tag string) error {
	r.w = sim.NewWorld()
	var err error
	dir := ""
	if r.memdir {
		dir = ":memory:" // the instance's own cache manager (cache/cacheleveldown) in its default, in-memory mode
	}
	if r.inst, err = r.w.AddPeer(tag + "-inst").Start(dir); err != nil {
		return err
	}
	if r.rem, err = r.w.AddPeer(tag + "-rem").Start(""); err != nil {
		return err
	}
	r.dbs = map[string]*isoDB{}
	r.evs = map[string][]string{}
	for i, name := range r.in.DBs {
		d := &isoDB{name: name, stype: isoTypes[i%len(isoTypes)]}
		// mixed write lists: explicit pair, wildcard, explicit pair, ...
		// mixed write lists: explicit pair, closed to the remote writer, wildcard, explicit pair
		writers := []string{r.inst.DB.Identity().ID, r.rem.DB.Identity().ID}
		for _, c := range r.in.Closed {
			d.closed = d.closed || c == name
		}
		if d.closed {
			writers = []string{r.inst.DB.Identity().ID}
		} else if i%2 == 0 && i > 0 {
			writers = []string{"*"}
		}
		opts := &orbitdb.CreateDBOptions{}
		if r.shared != nil {
			// one options value reused by the caller for every database it opens, one field changed
			opts = r.shared
		}
		opts.AccessController = sim.AccessFor(writers)
		// the third database has the name of the first one (another type: another manifest, another address)
		dbname := fmt.Sprintf("%s-%s", tag, name)
		if i == 2 {
			dbname = fmt.Sprintf("%s-%s", tag, r.in.DBs[0])
		}
		if first := r.dbs[r.in.DBs[0]]; i == 3 && r.shared == nil && !d.closed && !first.closed && first.stype == d.stype {
			// the fourth database is the manifest of the first one opened under another path: another address, another
			// log, another topic, another cache
			parts := strings.Split(first.local.Addr, "/")
			parts[len(parts)-1] = dbname
			dbname = strings.Join(parts, "/")
			opts = nil
		}
		if d.local, err = r.inst.Open(dbname, realType(d.stype), opts); err != nil {
			return err
		}
		if d.remote, err = r.rem.Open(d.local.Addr, realType(d.stype), nil); err != nil {
			return err
		}
		r.dbs[name] = d
	}
	// observe every store event on the instance's bus, with its address and what it carries
	sub, err := r.inst.Bus().Subscribe(event.WildcardSubscription, eventbus.BufSize(256))
	if err != nil {
		return err
	}
	r.flushEm, err = r.inst.Bus().Emitter(new(isoSentinel))
	if err != nil {
		return err
	}
	r.flushed = make(chan struct{}, 16)
	go func() {
		for e := range sub.Out() {
			if _, ok := e.(isoSentinel); ok {
				r.flushed <- struct{}{}
				continue
			}
			r.record(e)
		}
	}()
	if err := sim.Settle(settleTimeout, r.inst, r.rem); err != nil {
		return err
	}
	for _, m := range r.w.Bag() {
		r.w.Take(m.ID)
	}
	r.w.Published = nil
	return nil
}

func entryIDs(es []ipfslog.Entry) string {
	ids := []string{}
	for _, e := range es {
		if e != nil {
			ids = append(ids, e.GetLogID())
		}
	}
	sort.Strings(ids)
	return strings.Join(ids, ",")
}

func (r *isoRun) record(e interface{}) {
	var addr, desc string
	switch evt := e.(type) {
	case stores.EventWrite:
		addr, desc = evt.Address.String(), "write carries "+entryIDs(append([]ipfslog.Entry{evt.Entry}, evt.Heads...))
	case stores.EventReplicated:
		addr, desc = evt.Address.String(), "replicated carries "+entryIDs(evt.Entries)
	case stores.EventReplicate:
		addr, desc = evt.Address.String(), "replicate"
	case stores.EventReplicateProgress:
		addr, desc = evt.Address.String(), "replicate.progress carries "+entryIDs([]ipfslog.Entry{evt.Entry})
	case stores.EventLoad:
		addr, desc = evt.Address.String(), "load carries "+entryIDs(evt.Heads)
	case stores.EventLoadProgress:
		addr, desc = evt.Address.String(), "load.progress"
	case stores.EventReady:
		addr, desc = evt.Address.String(), "ready"
	default:
		return
	}
	r.mu.Lock()
	r.evs[addr] = append(r.evs[addr], desc)
	r.mu.Unlock()
}

type isoSentinel struct{}

// flush waits until the observer has recorded every event emitted so far
// (the subscription is a FIFO channel).
func (r *isoRun) flush() {
	_ = r.flushEm.Emit(isoSentinel{})
	<-r.flushed
}

type isoObs struct {
	Len      int
	View     string
	Progress int
	Max      int
	Events   int
	Sent     int
}

func (r *isoRun) viewOf(d *isoDB) string {
	ctx := context.Background()
	switch d.stype {
	case "kv":
		m := d.local.S.(orbitdb.KeyValueStore).All()
		ks := []string{}
		for k := range m {
			ks = append(ks, k)
		}
		sort.Strings(ks)
		return strings.Join(ks, ",")
	case "doc":
		docs, _ := d.local.S.(orbitdb.DocumentStore).Query(ctx, func(interface{}) (bool, error) { return true, nil })
		ks := []string{}
		for _, x := range docs {
			ks = append(ks, asStr(x.(map[string]interface{})["_id"]))
		}
		sort.Strings(ks)
		return strings.Join(ks, ",")
	}
	all := -1
	ops, _ := d.local.S.(orbitdb.EventLogStore).List(ctx, &iface.StreamOptions{Amount: &all})
	ks := []string{}
	for _, op := range ops {
		ks = append(ks, string(op.GetValue()))
	}
	return strings.Join(ks, ",")
}

func (r *isoRun) observe(d *isoDB) isoObs {
	r.flush()
	o := isoObs{Len: d.local.S.OpLog().Len(), View: r.viewOf(d), Progress: d.local.S.ReplicationStatus().GetProgress(), Max: d.local.S.ReplicationStatus().GetMax()}
	r.mu.Lock()
	o.Events = len(r.evs[d.local.Addr])
	r.mu.Unlock()
	for _, m := range r.w.Published {
		if m.From != r.inst.P.Name {
			continue
		}
		if m.Kind == "pub" && m.Topic == d.local.Addr {
			o.Sent++
		}
		if m.Kind == "direct" {
			var x iface.MessageExchangeHeads
			if json.Unmarshal(m.Payload, &x) == nil && x.Address == d.local.Addr {
				o.Sent++
			}
		}
	}
	return o
}

// announceOverlap: a write to one database is announced by a goroutine of its own; while that goroutine waits for the
// pubsub (slow to say who is on the topic), another database of the instance is written to. Each announcement carries
// the heads of its own database (foreignTraffic looks at everything published afterwards).
func (r *isoRun) announceOverlap() {
	names := []string{}
	for n, d := range r.dbs {
		if !d.poisoned {
			names = append(names, n)
		}
	}
	sort.Strings(names)
	if len(names) < 2 {
		return
	}
	a, b := r.dbs[names[0]], r.dbs[names[1]]
	h := sim.TheHub
	topicA := a.local.Addr
	h.ParkAt("sim.peers", func(args []interface{}) bool {
		return len(args) > 1 && args[0] == interface{}(r.inst.P) && args[1] == interface{}(topicA)
	})
	defer h.Unpark("sim.peers")
	if _, err := r.write(a.local, a); err != nil {
		r.res.note("%s: announce overlap: write: %v", r.bid, err)
		return
	}
	p := parkedFor("sim.peers", nil, 2*time.Second)
	if p == nil {
		r.res.note("%s: announce overlap: the announcement did not ask who is on the topic", r.bid)
		return
	}
	h.Unpark("sim.peers")
	if _, err := r.write(b.local, b); err != nil {
		r.res.note("%s: announce overlap: second write: %v", r.bid, err)
	}
	time.Sleep(20 * time.Millisecond) // the listener of the first database takes the second database's event off the bus
	h.Release(p)
	r.res.Comparisons++
	r.res.Stats["announce_overlaps"]++
	if err := sim.Settle(settleTimeout, r.inst, r.rem); err != nil {
		r.res.Inconclusive = append(r.res.Inconclusive, r.bid+": announce overlap: "+err.Error())
	}
}

func (r *isoRun) poisonedNames() []string {
	out := []string{}
	for n, d := range r.dbs {
		if d.poisoned {
			out = append(out, n)
		}
	}
	sort.Strings(out)
	return out
}

func (r *isoRun) write(ref *sim.StoreRef, d *isoDB) (ipfslog.Entry, error) {
	d.nw++
	// the databases of an instance use the same keys: a key written to one must not depend on what the others hold
	d.lastKey = fmt.Sprintf("k-%d", d.nw)
	return honestWrite(ref, d.stype, d.lastKey)
}

// foreignTraffic checks what the instance put on a database's channels and events.
func (r *isoRun) foreignTraffic() {
	byAddr := map[string]string{}
	for n, d := range r.dbs {
		byAddr[d.local.Addr] = n
	}
	for _, m := range r.w.Published {
		if m.From != r.inst.P.Name {
			continue
		}
		var x iface.MessageExchangeHeads
		if json.Unmarshal(m.Payload, &x) != nil {
			continue
		}
		chanAddr := x.Address
		if m.Kind == "pub" {
			chanAddr = m.Topic
			if x.Address != m.Topic {
				r.violate("cross-channel", fmt.Sprintf("a message addressed to %s was published on the topic of %s", byAddr[x.Address], byAddr[m.Topic]), nil, nil)
			}
		}
		for _, h := range x.Heads {
			if h != nil && h.GetLogID() != chanAddr {
				r.violate("cross-channel", fmt.Sprintf("heads of database %s were sent on the channel of database %s", byAddr[h.GetLogID()], byAddr[chanAddr]), nil, nil)
				return
			}
		}
	}
	r.mu.Lock()
	defer r.mu.Unlock()
	for addr, evs := range r.evs {
		for _, e := range evs {
			if i := strings.Index(e, "carries "); i >= 0 {
				for _, id := range strings.Split(e[i+8:], ",") {
					if id != "" && id != addr {
						r.violate("cross-event", fmt.Sprintf("a store event of database %s carries entries of database %s (%s)", byAddr[addr], byAddr[id], e[:i]), nil, nil)
						return
					}
				}
			}
		}
	}
}

// burst: the remote writer writes to every database and its heads for all of them arrive on the
// direct channel back to back, while the replication started by the first message is still held
// before it has looked at its heads. Afterwards every database must hold its own new entry only.
func (r *isoRun) burst() {
	h := sim.TheHub
	names := append([]string{}, r.in.DBs...)
	sort.Strings(names)
	type sent struct {
		d   *isoDB
		key string
		e   ipfslog.Entry
	}
	msgs := []sent{}
	for _, n := range names {
		d := r.dbs[n]
		if d.closed || d.poisoned {
			continue
		}
		e, err := r.write(d.remote, d)
		if err != nil {
			r.violate("write-error", err.Error(), nil, nil)
			return
		}
		msgs = append(msgs, sent{d, d.lastKey, copyEntry(e)})
	}
	if err := sim.Settle(settleTimeout, r.rem); err != nil {
		r.res.Inconclusive = append(r.res.Inconclusive, r.bid+": burst: "+err.Error())
		return
	}
	for _, m := range r.w.Bag() {
		r.w.Take(m.ID)
	}
	if len(msgs) == 0 {
		return
	}
	first := msgs[0].d.local.S
	recvBefore := h.Count("direct.recv", r.inst.Bus())
	h.ParkAt("repl.load.enter", func(args []interface{}) bool { return len(args) > 1 && sim.K(args[1]) == sim.K(first) })
	for i, m := range msgs {
		r.w.Deliver(&sim.Msg{Kind: "direct", From: r.rem.P.Name, To: r.inst.P.Name, Payload: headsMsg(m.d.local.Addr, m.e.(*entry.Entry))})
		if i == 0 {
			if parkedFor("repl.load.enter", nil, 3*time.Second) == nil {
				r.res.note("%s: burst: the first replication did not start", r.bid)
			}
		}
	}
	// every message has been decoded and routed; now the first replication may look at its heads
	h.WaitFor(3*time.Second, func() bool {
		recv := h.CountLocked("direct.recv", r.inst.Bus())
		return recv >= recvBefore+len(msgs) && h.CountLocked("direct.idle", r.inst.Bus()) > recv
	})
	time.Sleep(5 * time.Millisecond)
	h.ReleaseAll()
	if err := sim.Settle(settleTimeout, r.inst, r.rem); err != nil {
		r.violate("interference", "after head exchanges for several databases arrived back to back the instance does not come to rest: "+err.Error(), nil, nil)
		return
	}
	for _, m := range msgs {
		r.res.Comparisons++
		for _, e := range m.d.local.S.OpLog().GetEntries().Slice() {
			if e.GetLogID() != m.d.local.Addr {
				r.violate("interference", fmt.Sprintf("database %s holds an entry of another database after head exchanges for several databases arrived back to back", m.d.name), m.d.local.Addr, e.GetLogID())
				return
			}
		}
		if !strings.Contains(","+r.viewOf(m.d)+",", ","+m.key+",") {
			r.violate("interference", fmt.Sprintf("database %s did not receive its own entry %s when head exchanges for several databases arrived back to back", m.d.name, m.key), m.key, r.viewOf(m.d))
		}
	}
}

func (r *isoRun) run(b Behaviour, idx int) {
	r.remAccepted = false
	r.shared = nil
	if idx%2 == 1 {
		r.shared = &orbitdb.CreateDBOptions{}
	}
	r.memdir = strings.HasPrefix(b.ID, "one-root-two-paths") || idx%4 == 2
	if err := r.setup(fmt.Sprintf("iso%d", idx)); err != nil {
		r.res.Inconclusive = append(r.res.Inconclusive, b.ID+": setup: "+err.Error())
		return
	}
	defer func() {
		_ = r.inst.Close()
		_ = r.rem.Close()
	}()
	ctx := context.Background()
	r.res.Behaviours++
	for si, st := range b.Steps {
		r.step = si
		if st.Action == "Init" {
			continue
		}
		dn := asStr(st.Args[0])
		d := r.dbs[dn]
		before := map[string]isoObs{}
		for n, x := range r.dbs {
			before[n] = r.observe(x)
		}
		switch st.Action {
		case "Write":
			if _, err := r.write(d.local, d); err != nil {
				if d.poisoned {
					r.res.Stats["writes_refused_by_poisoned_db"]++
					break
				}
				r.violate("write-error", err.Error(), nil, nil)
				return
			}
			if !d.poisoned {
				r.res.Comparisons++
				if !strings.Contains(","+r.viewOf(d)+",", ","+d.lastKey+",") {
					r.violate("interference", fmt.Sprintf("a write of key %s to database %s returned and the database does not show it (databases holding an operation their index cannot read: %v)", d.lastKey, dn, r.poisonedNames()), d.lastKey, r.viewOf(d))
				}
			}
		case "RemoteWrite":
			var e ipfslog.Entry
			var err error
			if d.closed {
				// the remote writer is not allowed here: it crafts the entry with its own log of the database
				d.nw++
				hs := d.remote.S.OpLog().Heads().Slice()
				next, t := []cid.Cid{}, 0
				for _, h := range hs {
					next = append(next, h.GetHash())
					if h.GetClock().GetTime() > t {
						t = h.GetClock().GetTime()
					}
				}
				e, err = mkEntry(ctx, r.rem, r.rem.DB.Identity(), d.local.Addr, opPayload(d.stype, fmt.Sprintf("%s-%d", d.name, d.nw)), next, t+1)
			} else {
				e, err = r.write(d.remote, d)
			}
			if err != nil {
				r.violate("write-error", err.Error(), nil, nil)
				return
			}
			d.pend = append(d.pend, copyEntry(e))
		case "Replicate":
			if len(d.pend) == 0 {
				continue
			}
			head := d.pend[len(d.pend)-1]
			d.pend = nil
			r.w.Deliver(&sim.Msg{Kind: "pub", Topic: d.local.Addr, From: r.rem.P.Name, To: r.inst.P.Name, Payload: headsMsg(d.local.Addr, head.(*entry.Entry))})
		case "Garbage":
			// the remote writer of d writes a PUT whose value is a JSON object (as another implementation encodes it) on top
			// of its heads, and one readable entry on top of that; both are replicated
			hs := d.remote.S.OpLog().Heads().Slice()
			next, t := []cid.Cid{}, 0
			for _, h := range hs {
				next = append(next, h.GetHash())
				if h.GetClock().GetTime() > t {
					t = h.GetClock().GetTime()
				}
			}
			g, err := mkEntry(ctx, r.rem, r.rem.DB.Identity(), d.local.Addr, []byte(`{"op":"PUT","key":"g","value":{"a":1}}`), next, t+1)
			if err != nil {
				r.violate("write-error", err.Error(), nil, nil)
				return
			}
			d.nw++
			d.lastKey = fmt.Sprintf("k-%d", d.nw+1)
			top, err := mkEntry(ctx, r.rem, r.rem.DB.Identity(), d.local.Addr, opPayload(d.stype, d.lastKey), []cid.Cid{g.GetHash()}, t+2)
			if err != nil {
				r.violate("write-error", err.Error(), nil, nil)
				return
			}
			d.poisoned = true
			d.pend = nil
			mark("%s step %d: an operation the index cannot read replicated into %s", b.ID, si, dn)
			r.w.Deliver(&sim.Msg{Kind: "pub", Topic: d.local.Addr, From: r.rem.P.Name, To: r.inst.P.Name, Payload: headsMsg(d.local.Addr, top)})
		case "Foreign":
			// the remote writer, who may write to d, announces on d's topic an entry whose log id names another database
			names := []string{}
			for n := range r.dbs {
				if n != dn {
					names = append(names, n)
				}
			}
			sort.Strings(names)
			o := r.dbs[names[si%len(names)]]
			d.nw++
			e, err := mkEntry(ctx, r.rem, r.rem.DB.Identity(), o.local.Addr, opPayload(o.stype, fmt.Sprintf("foreign-%s-%d", dn, d.nw)), []cid.Cid{}, 50)
			if err != nil {
				r.violate("write-error", err.Error(), nil, nil)
				return
			}
			mark("%s step %d: head naming %s announced on the topic of %s", b.ID, si, o.name, dn)
			r.w.Deliver(&sim.Msg{Kind: "pub", Topic: d.local.Addr, From: r.rem.P.Name, To: r.inst.P.Name, Payload: headsMsg(d.local.Addr, e)})
		case "Reload":
			if err := d.local.S.Close(); err != nil {
				r.violate("close-error", err.Error(), nil, nil)
			}
			d.local.Closed = true
			nr, err := r.inst.Open(d.local.Addr, realType(d.stype), r.shared)
			if err != nil {
				r.violate("reopen-error", err.Error(), nil, nil)
				return
			}
			d.local = nr
			if err := nr.S.Load(ctx, -1); err != nil && !d.poisoned {
				r.violate("load-error", err.Error(), nil, nil)
				return
			}
		}
		if err := sim.Settle(settleTimeout, r.inst, r.rem); err != nil {
			r.res.Inconclusive = append(r.res.Inconclusive, fmt.Sprintf("%s step %d: %v", b.ID, si, err))
			return
		}
		// announcements of the remote peer are not delivered unless the behaviour says so
		for _, m := range r.w.Bag() {
			r.w.Take(m.ID)
		}
		r.res.Steps++
		r.res.Stats["action_"+st.Action]++
		for n, x := range r.dbs {
			if n == dn {
				continue
			}
			r.res.Comparisons++
			after := r.observe(x)
			if !reflect.DeepEqual(after, before[n]) {
				r.mu.Lock()
				evl := append([]string{}, r.evs[x.local.Addr]...)
				r.mu.Unlock()
				r.violate("interference", fmt.Sprintf("%s on database %s changed database %s (its events so far: %v)", st.Action, dn, n, evl), before[n], after)
			}
		}
		// a database closed to the remote writer refuses its heads, whatever that writer was allowed elsewhere
		if st.Action == "Replicate" && d.closed {
			r.res.Comparisons++
			if after := r.observe(d); !reflect.DeepEqual(after, before[dn]) {
				kind := "closed-db-merged"
				if r.remAccepted {
					kind = "interference"
				}
				r.violate(kind, fmt.Sprintf("database %s does not name the remote writer in its write list, yet its heads changed it (the same writer had been accepted by another database of the instance: %v)", dn, r.remAccepted), before[dn], after)
			}
		}
		if st.Action == "Replicate" && !d.closed {
			r.remAccepted = true
		}
		// the touched database against the specification
		o := r.observe(d)
		if want := asInt(asMap(st.State["contents"])[dn]); len(st.State) > 0 && !d.poisoned && o.Len != want {
			r.res.note("%s step %d: database %s holds %d entries, specification %d", b.ID, si, dn, o.Len, want)
		}
	}
	r.step = -3
	r.announceOverlap()
	r.step = -2
	r.burst()
	r.step = -1
	r.flush()
	r.foreignTraffic()
	if len(r.res.Samples) < 3 {
		r.res.Samples = append(r.res.Samples, map[string]interface{}{"behaviour": b.ID, "actions": briefSteps(b.Steps)})
	}
}

func isolationCmd(args []string) int {
	in := &IsolationInput{}
	if len(args) < 2 || readJSON(args[0], in) != nil {
		fmt.Fprintln(os.Stderr, "usage: vh isolation <in.json> <out.json>")
		return 2
	}
	if err := sim.Install(); err != nil {
		fmt.Fprintln(os.Stderr, err)
		return 2
	}
	res := newResult("isolation")
	for i, b := range in.Behaviours {
		r := &isoRun{in: in, res: res, bid: b.ID}
		r.run(b, i)
	}
	return res.write(args[1])
}
