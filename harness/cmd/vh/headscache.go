package main

import (
	"bytes"
	"context"
	"fmt"
	"os"
	"sort"
	"time"

	ipfslog "berty.tech/go-ipfs-log"
	orbitdb "berty.tech/go-orbit-db"
	"verif/harness/sim"
)

func init() { commands["headscache"] = headsCacheCmd }

// HCInput: behaviours of spec/HeadsCache.tla (one replica over several runs of its process: open, full and limited
// loads, writes, replications before and after a load, stops) replayed call by call on a real store. After every
// step the log in memory is compared with the specification's, the view with the log, and a copy of the durable
// state is opened and loaded: it must show everything acknowledged so far.
type HCInput struct {
	Property   string      `json:"property"`
	Seed       int64       `json:"seed"`
	Behaviours []Behaviour `json:"behaviours"`
	Mutant     []string    `json:"mutant"`
}

type hcRun struct {
	in      *HCInput
	res     *Result
	bid     string
	step    int
	w       *sim.World
	pa      *sim.Peer
	na      *sim.Node
	a       *sim.StoreRef
	addr    string
	entries map[int]ipfslog.Entry
	ids     map[string]int
	nloc    int
	// a write held after its append (WriteBegin .. WriteEnd)
	writing bool
	wdone   chan error
	wentry  ipfslog.Entry
}

func (r *hcRun) violate(kind, detail string, exp, got interface{}) {
	r.res.violate(Violation{Property: r.in.Property, Kind: kind, Behaviour: r.bid, Step: r.step, Detail: detail, Expected: exp, Got: got})
}

func (r *hcRun) setup(tag string) error {
	r.w = sim.NewWorld()
	r.entries, r.ids = map[int]ipfslog.Entry{}, map[string]int{}
	type cand struct {
		n  *sim.Node
		pk []byte
	}
	cands := []cand{}
	for i := 0; i < 3; i++ {
		nd, err := r.w.AddPeer(fmt.Sprintf("%s-%d", tag, i)).Start("")
		if err != nil {
			return err
		}
		cands = append(cands, cand{nd, nd.DB.Identity().PublicKey})
	}
	// the replica is writer 1, the remote writers 2 and 3: ties of equal Lamport times are broken in that order
	sort.Slice(cands, func(i, j int) bool { return bytes.Compare(cands[i].pk, cands[j].pk) < 0 })
	a, b, c := cands[0].n, cands[1].n, cands[2].n
	ctx := context.Background()
	ac := sim.AccessFor([]string{a.DB.Identity().ID, b.DB.Identity().ID, c.DB.Identity().ID})
	rb, err := b.Open("hc-"+tag, "keyvalue", &orbitdb.CreateDBOptions{AccessController: ac})
	if err != nil {
		return err
	}
	r.addr = rb.Addr
	rc, err := c.Open(r.addr, "keyvalue", nil)
	if err != nil {
		return err
	}
	put := func(ref *sim.StoreRef, id int) error {
		op, err := ref.S.(orbitdb.KeyValueStore).Put(ctx, fmt.Sprintf("k%d", id), []byte("x"))
		if err != nil {
			return err
		}
		r.entries[id] = op.GetEntry()
		r.ids[op.GetEntry().GetHash().String()] = id
		return nil
	}
	// nothing is delivered between the writers: 1 <- 2 by writer 2, and 3 by writer 3 concurrently
	for _, id := range []int{1, 2} {
		if err := put(rb, id); err != nil {
			return err
		}
	}
	if err := put(rc, 3); err != nil {
		return err
	}
	if len(r.entries[3].GetNext()) != 0 || len(r.entries[2].GetNext()) != 1 {
		return fmt.Errorf("setup: the remote entries do not have the shape of the specification's constants")
	}
	r.pa = a.P
	r.na = a
	if r.a, err = a.Open(r.addr, "keyvalue", nil); err != nil {
		return err
	}
	if err := sim.Settle(settleTimeout, a, b, c); err != nil {
		return err
	}
	// the remote writers stay up (their blocks are fetchable) but nothing they published is delivered
	for _, m := range r.w.Bag() {
		r.w.Take(m.ID)
	}
	if r.a.S.OpLog().Len() != 0 {
		return fmt.Errorf("setup: the replica already holds entries")
	}
	return nil
}

func (r *hcRun) logIDsOf(ref *sim.StoreRef) []int {
	out := []int{}
	for _, e := range ref.S.OpLog().Values().Slice() {
		id, ok := r.ids[e.GetHash().String()]
		if !ok {
			id = -1
		}
		out = append(out, id)
	}
	sort.Ints(out)
	return out
}

// viewOf returns the entries (ids) the key-value view shows: every entry writes its own key
func (r *hcRun) viewOf(ref *sim.StoreRef) []int {
	out := []int{}
	all := ref.S.(orbitdb.KeyValueStore).All()
	for id := range r.entries {
		if _, ok := all[fmt.Sprintf("k%d", id)]; ok {
			out = append(out, id)
		}
	}
	sort.Ints(out)
	return out
}

func (r *hcRun) dropBag() {
	for _, m := range r.w.Bag() {
		r.w.Take(m.ID)
	}
}

var errDriftHC = fmt.Errorf("drift")

// entryBefore: the order of the log (last write wins: Lamport time, then writer)
func entryBefore(a, b ipfslog.Entry) bool {
	if a.GetClock().GetTime() != b.GetClock().GetTime() {
		return a.GetClock().GetTime() < b.GetClock().GetTime()
	}
	return bytes.Compare(a.GetClock().GetID(), b.GetClock().GetID()) < 0
}

func (r *hcRun) apply(st Step) error {
	ctx, cancel := context.WithTimeout(context.Background(), 20*time.Second)
	defer cancel()
	switch st.Action {
	case "Init":
	case "Write":
		if r.a == nil {
			return fmt.Errorf("write while the process is down")
		}
		r.nloc++
		id := 100 + r.nloc
		op, err := r.a.S.(orbitdb.KeyValueStore).Put(ctx, fmt.Sprintf("k%d", id), []byte("x"))
		if err != nil {
			r.violate("write-error", fmt.Sprintf("write %d failed: %v", id, err), nil, nil)
			return errDriftHC
		}
		r.entries[id] = op.GetEntry()
		r.ids[op.GetEntry().GetHash().String()] = id
	case "WriteBegin":
		// a write on a store that has not loaded, held between the append of its entry and what follows
		if r.a == nil {
			return fmt.Errorf("write while the process is down")
		}
		r.nloc++
		id := 100 + r.nloc
		store := r.a.S
		sim.TheHub.ParkAt("write.appended", func(args []interface{}) bool { return len(args) > 0 && sim.K(args[0]) == sim.K(store) })
		r.wdone = make(chan error, 1)
		go func() {
			op, err := store.(orbitdb.KeyValueStore).Put(context.Background(), fmt.Sprintf("k%d", id), []byte("x"))
			if err == nil {
				r.wentry = op.GetEntry()
			}
			r.wdone <- err
		}()
		p := parkedFor("write.appended", func(p *sim.Parked) bool { return len(p.Args) > 0 && sim.K(p.Args[0]) == sim.K(store) }, 4*time.Second)
		if p == nil {
			return fmt.Errorf("the write did not reach its append")
		}
		if len(p.Args) > 1 {
			if e, ok := p.Args[1].(ipfslog.Entry); ok {
				r.entries[id] = e
				r.ids[e.GetHash().String()] = id
			}
		}
		r.writing = true
		return nil
	case "WriteEnd":
		sim.TheHub.ReleaseAll()
		select {
		case err := <-r.wdone:
			if err != nil {
				r.violate("write-error", fmt.Sprintf("write %d failed: %v", 100+r.nloc, err), nil, nil)
				return errDriftHC
			}
		case <-time.After(10 * time.Second):
			return fmt.Errorf("the held write does not return")
		}
		r.entries[100+r.nloc] = r.wentry
		r.ids[r.wentry.GetHash().String()] = 100 + r.nloc
		r.writing = false
	case "Replicate":
		h := asInt(st.Args[0])
		if err := r.a.S.Sync(ctx, []ipfslog.Entry{copyEntry(r.entries[h])}); err != nil {
			return fmt.Errorf("sync: %w", err)
		}
		if err := sim.Settle(settleTimeout, r.na); err != nil {
			return err
		}
	case "LoadFull":
		if err := r.a.S.Load(ctx, -1); err != nil {
			return fmt.Errorf("load: %w", err)
		}
		if err := sim.Settle(settleTimeout, r.na); err != nil {
			return err
		}
	case "LoadLimited":
		n := asInt(st.Args[0])
		if err := r.a.S.Load(ctx, n); err != nil {
			return fmt.Errorf("load(%d): %w", n, err)
		}
		if err := sim.Settle(settleTimeout, r.na); err != nil {
			return err
		}
	case "Stop":
		if err := r.na.Close(); err != nil {
			return fmt.Errorf("close: %w", err)
		}
		r.na, r.a = nil, nil
	case "Open":
		na, err := r.pa.Start("")
		if err != nil {
			return fmt.Errorf("start: %w", err)
		}
		r.na = na
		if r.a, err = na.Open(r.addr, "keyvalue", nil); err != nil {
			return fmt.Errorf("open: %w", err)
		}
		if err := sim.Settle(settleTimeout, r.na); err != nil {
			return err
		}
	default:
		return fmt.Errorf("unknown action %s", st.Action)
	}
	r.dropBag()
	return nil
}

// recovered: a copy of the durable state as it is now, opened and loaded
func (r *hcRun) recovered() (log []int, view []int, err error) {
	return r.recoveredAt(r.pa.EffectCount())
}

// recoveredAt: the same for the durable state as it was after the first n persistence effects of the peer
func (r *hcRun) recoveredAt(n int) (log []int, view []int, err error) {
	q := r.pa.CloneDurable(n)
	node, err := q.Start("")
	if err != nil {
		return nil, nil, fmt.Errorf("start: %w", err)
	}
	defer node.Close()
	ref, err := node.Open(r.addr, "keyvalue", &orbitdb.CreateDBOptions{Timeout: 3 * time.Second})
	if err != nil {
		return nil, nil, fmt.Errorf("open: %w", err)
	}
	ctx, cancel := context.WithTimeout(context.Background(), 20*time.Second)
	defer cancel()
	if err := ref.S.Load(ctx, -1); err != nil {
		return nil, nil, fmt.Errorf("load: %w", err)
	}
	return r.logIDsOf(ref), r.viewOf(ref), nil
}

func (r *hcRun) run(b Behaviour, idx int) {
	mutant := false
	for _, m := range r.in.Mutant {
		mutant = mutant || m == b.ID
	}
	if err := r.setup(fmt.Sprintf("h%d", idx)); err != nil {
		r.res.Inconclusive = append(r.res.Inconclusive, b.ID+": setup: "+err.Error())
		return
	}
	defer func() {
		// a behaviour may end while a write is held: let it finish before the instance goes
		sim.TheHub.ReleaseAll()
		if r.writing && r.wdone != nil {
			select {
			case <-r.wdone:
			case <-time.After(5 * time.Second):
			}
		}
		if r.na != nil {
			_ = r.na.Close()
		}
	}()
	r.res.Behaviours++
	prevAcked := []int{}
	prevEffects := r.pa.EffectCount()
	for si, st := range b.Steps {
		r.step = si
		mark("%s step %d %s%v", b.ID, si, st.Action, st.Args)
		if err := r.apply(st); err != nil {
			if err == errDriftHC {
				r.res.Stats["drift"]++
			} else {
				r.res.Inconclusive = append(r.res.Inconclusive, fmt.Sprintf("%s step %d %s: %v", b.ID, si, st.Action, err))
			}
			return
		}
		r.res.Steps++
		r.res.Stats["action_"+st.Action]++
		acked := sortedInts(asInts(st.State["acked"]))
		if r.a != nil {
			// the log in memory is the specification's; the view shows exactly what the log holds
			want, got := sortedInts(asInts(st.State["log"])), r.logIDsOf(r.a)
			r.res.Comparisons++
			if !eqInts(want, got) && st.Action == "LoadLimited" {
				// with several heads the code does not promise WHICH n entries a limited load keeps (C15: exactly
				// min(n, total) entries, the newest one among them); the specification keeps the n newest
				n := asInt(st.Args[0])
				newest := -1
				for _, id := range append(append([]int{}, want...), got...) {
					if e, ok := r.entries[id]; ok && (newest < 0 || entryBefore(r.entries[newest], e)) {
						newest = id
					}
				}
				if len(got) != n || !contains(got, newest) {
					r.violate("limit-count", fmt.Sprintf("after Load(%d) on a database of more than %d entries the log holds %v (the newest entry is %d)", n, n, got, newest), want, got)
				} else {
					r.res.Stats["drift"]++
					r.res.note("%s step %d: Load(%d) kept %v, the specification keeps the newest %v", b.ID, si, n, got, want)
				}
				return
			}
			if !eqInts(want, got) {
				if mutant {
					r.res.Stats["drift"]++
					r.res.note("%s step %d %s: log %v, mutant specification %v", b.ID, si, st.Action, got, want)
					return
				}
				r.violate("log-differs", fmt.Sprintf("after %s%v the log in memory holds %v, the specification %v", st.Action, st.Args, got, want), want, got)
				return
			}
			if view := r.viewOf(r.a); !r.writing && !eqInts(view, got) {
				r.violate("view-differs", fmt.Sprintf("after %s%v the log holds %v and the view shows the keys of %v", st.Action, st.Args, got, view), got, view)
			}
		}
		// C05: the process crashed between two persistence effects of this step (block writes, cache puts): what had
		// been acknowledged before the step is still recovered
		for n := prevEffects + 1; n < r.pa.EffectCount(); n++ {
			clog, _, err := r.recoveredAt(n)
			if err != nil {
				r.violate("recover-error", fmt.Sprintf("during %s%v, after persistence effect %d, a copy of the durable state could not be opened and loaded: %v", st.Action, st.Args, n, err), nil, nil)
				return
			}
			r.res.Stats["crash_points"]++
			for _, id := range prevAcked {
				if !contains(clog, id) {
					r.violate("lost-ack", fmt.Sprintf("a crash during %s%v (after persistence effect %d; history: %s) loses entry %d, acknowledged before that step: recovered %v", st.Action, st.Args, n, briefSteps(b.Steps[:si+1]), id, clog), prevAcked, clog)
					break
				}
			}
		}
		prevEffects = r.pa.EffectCount()
		prevAcked = acked
		// C05: stopped at this instant, reopened from the same directory and loaded
		rlog, rview, err := r.recovered()
		if err != nil {
			r.violate("recover-error", fmt.Sprintf("after %s%v a copy of the durable state could not be opened and loaded: %v", st.Action, st.Args, err), nil, nil)
			return
		}
		r.res.Comparisons++
		r.res.Stats["recoveries"]++
		for _, id := range acked {
			if !contains(rlog, id) {
				r.violate("lost-ack", fmt.Sprintf("after %s%v (history: %s) entry %d, acknowledged earlier (written, or reported as replicated), is not in the log of a copy of the durable state opened and loaded: %v", st.Action, st.Args, briefSteps(b.Steps[:si+1]), id, rlog), acked, rlog)
				break
			}
		}
		for _, id := range rlog {
			if id < 0 {
				r.violate("phantom", "the recovered log holds an entry nobody wrote", nil, rlog)
			}
		}
		for _, id := range rlog {
			if id < 0 {
				continue
			}
			for _, c := range r.entries[id].GetNext() {
				if x, ok := r.ids[c.String()]; ok && !contains(rlog, x) {
					r.violate("not-closed", fmt.Sprintf("the recovered log holds entry %d without its parent %d", id, x), nil, rlog)
				}
			}
		}
		if !eqInts(rview, rlog) {
			r.violate("recover-view", fmt.Sprintf("the recovered log holds %v and its view shows the keys of %v", rlog, rview), rlog, rview)
		}
	}
	if len(r.res.Samples) < 3 {
		r.res.Samples = append(r.res.Samples, map[string]interface{}{"behaviour": b.ID, "actions": briefSteps(b.Steps)})
	}
}


func headsCacheCmd(args []string) int {
	in := &HCInput{}
	if len(args) < 2 || readJSON(args[0], in) != nil {
		fmt.Fprintln(os.Stderr, "usage: vh headscache <in.json> <out.json>")
		return 2
	}
	if err := sim.Install(); err != nil {
		fmt.Fprintln(os.Stderr, err)
		return 2
	}
	res := newResult("headscache")
	for i, b := range in.Behaviours {
		r := &hcRun{in: in, res: res, bid: b.ID}
		r.run(b, i)
	}
	return res.write(args[1])
}
