package main

import (
	"berty.tech/go-orbit-db/iface"
	"context"
	"encoding/json"
	"fmt"
	"os"
	"sort"
	"strings"
	"sync"
	"time"

	ipfslog "berty.tech/go-ipfs-log"
	orbitdb "berty.tech/go-orbit-db"
	"berty.tech/go-orbit-db/stores/operation"

	"verif/harness/sim"
)

func init() { commands["indexrace"] = indexRaceCmd }

// IRInput: behaviours of spec/IndexRace.tla forced on a real key-value or document store.
type IRInput struct {
	Property    string            `json:"property"`
	Seed        int64             `json:"seed"`
	Type        string            `json:"type"`  // kv | doc
	Keys        map[string]string `json:"keys"`  // writer -> key
	Batch       bool              `json:"batch"` // one remote entry is replicated meanwhile
	Behaviours  []Behaviour       `json:"behaviours"`
	Adversarial []string          `json:"adversarial"` // behaviours of the mutant specification: non-realisable = drift
}

type irRun struct {
	in   *IRInput
	res  *Result
	bid  string
	step int

	w      *sim.World
	local  *sim.Node
	remote *sim.Node
	ref    *sim.StoreRef
	rref   *sim.StoreRef // the remote peer's replica
	remE   ipfslog.Entry

	mu       sync.Mutex
	returned map[int]bool
	started  map[int]bool
	retErr   map[int]error
	idxPark  map[int]*sim.Parked // writer (or 100 = batch) -> its goroutine parked inside UpdateIndex
	gid      map[int]int64       // writer -> goroutine running its call
	waiting  map[int]bool        // writer (or 100) released towards UpdateIndex while the index lock was held
	skipped  map[int]bool        // writer (or 100) whose index update returned without waiting for the holder (not this tree's behaviour)
	known    map[int]bool        // park ids at index.read already attributed
}

func (r *irRun) violate(kind, detail string, exp, got interface{}) {
	r.res.violate(Violation{Property: r.in.Property, Kind: kind, Behaviour: r.bid, Step: r.step, Detail: detail, Expected: exp, Got: got})
}

func irMarker(g int) string { return fmt.Sprintf("w%d!", g) }

func (r *irRun) put(ctx context.Context, ref *sim.StoreRef, key, val string) (ipfslog.Entry, error) {
	if r.in.Type == "log" {
		op, err := ref.S.(orbitdb.EventLogStore).Add(ctx, []byte(val))
		if err != nil {
			return nil, err
		}
		return op.GetEntry(), nil
	}
	if r.in.Type == "doc" {
		op, err := ref.S.(orbitdb.DocumentStore).Put(ctx, map[string]interface{}{"_id": key, "abs": val})
		if err != nil {
			return nil, err
		}
		return op.GetEntry(), nil
	}
	op, err := ref.S.(orbitdb.KeyValueStore).Put(ctx, key, []byte(val))
	if err != nil {
		return nil, err
	}
	return op.GetEntry(), nil
}

// shown returns the value the store's view shows for a key ("" when absent).
func (r *irRun) shownNow(key string) string {
	ctx := context.Background()
	if r.in.Type == "doc" {
		docs, err := r.ref.S.(orbitdb.DocumentStore).Get(ctx, key, nil)
		if err != nil || len(docs) == 0 {
			return ""
		}
		if m, ok := docs[0].(map[string]interface{}); ok {
			return asStr(m["abs"])
		}
		return ""
	}
	v, err := r.ref.S.(orbitdb.KeyValueStore).Get(ctx, key)
	if err != nil || v == nil {
		return ""
	}
	return string(v)
}

func opValue(stype string, e ipfslog.Entry) (key, val string) {
	op, err := operation.ParseOperation(e)
	if err == nil && stype == "log" {
		return "log", string(op.GetValue())
	}
	if err != nil || op.GetKey() == nil {
		return "", ""
	}
	key = *op.GetKey()
	if stype == "doc" {
		var m map[string]interface{}
		if json.Unmarshal(op.GetValue(), &m) == nil {
			return key, asStr(m["abs"])
		}
		return key, ""
	}
	return key, string(op.GetValue())
}

// shown queries the view; while a goroutine is held inside UpdateIndex it may own the index lock (queries
// then wait, as any reader would), so the query is given up after a short while: ok = false.
func (r *irRun) shown(key string) (string, bool) {
	ch := make(chan string, 1)
	go func() { ch <- r.shownNow(key) }()
	select {
	case v := <-ch:
		return v, true
	case <-time.After(60 * time.Millisecond):
		return "", false
	}
}

// listed returns the values an event log lists (List with amount -1), in order.
func (r *irRun) listed(ref *sim.StoreRef) []string {
	all := -1
	ops, err := ref.S.(orbitdb.EventLogStore).List(context.Background(), &iface.StreamOptions{Amount: &all})
	out := []string{}
	if err != nil {
		return []string{"error: " + err.Error()}
	}
	for _, op := range ops {
		out = append(out, string(op.GetValue()))
	}
	return out
}

// logValues returns the values of the log's entries in the log's total order.
func (r *irRun) logValues(ref *sim.StoreRef) []string {
	out := []string{}
	for _, e := range ref.S.OpLog().Values().Slice() {
		_, v := opValue("log", e)
		out = append(out, v)
	}
	return out
}

// replay is the last-writer-wins replay of the store's own log in its own total order.
func (r *irRun) replay() map[string]string {
	out := map[string]string{}
	for _, e := range r.ref.S.OpLog().Values().Slice() {
		k, v := opValue(r.in.Type, e)
		if k != "" {
			out[k] = v
		}
	}
	return out
}

// laterOrSame lists the values of the entries that put key at or after the entry carrying val, in log order.
func (r *irRun) laterOrSame(key, val string) []string {
	out := []string{}
	seen := false
	for _, e := range r.ref.S.OpLog().Values().Slice() {
		k, v := opValue(r.in.Type, e)
		if k != key {
			continue
		}
		if v == val {
			seen = true
		}
		if seen {
			out = append(out, v)
		}
	}
	return out
}

func (r *irRun) setup(tag string) error {
	r.w = sim.NewWorld()
	var err error
	if r.local, err = r.w.AddPeer(tag + "-local").Start(""); err != nil {
		return err
	}
	if r.remote, err = r.w.AddPeer(tag + "-remote").Start(""); err != nil {
		return err
	}
	ac := sim.AccessFor([]string{"*"})
	if r.ref, err = r.local.Open("ir-"+tag, realType(r.in.Type), &orbitdb.CreateDBOptions{AccessController: ac}); err != nil {
		return err
	}
	rref, err := r.remote.Open(r.ref.Addr, realType(r.in.Type), nil)
	if err != nil {
		return err
	}
	r.rref = rref
	if r.remE, err = r.put(context.Background(), rref, "r", "remote"); err != nil {
		return err
	}
	r.remE = copyEntry(r.remE)
	if err := sim.Settle(settleTimeout, r.local, r.remote); err != nil {
		return err
	}
	for _, m := range r.w.Bag() {
		r.w.Take(m.ID)
	}
	r.returned, r.retErr, r.started = map[int]bool{}, map[int]error{}, map[int]bool{}
	r.idxPark, r.known = map[int]*sim.Parked{}, map[int]bool{}
	r.gid, r.waiting, r.skipped = map[int]int64{}, map[int]bool{}, map[int]bool{}
	return nil
}

func (r *irRun) mine(p *sim.Parked) bool {
	return len(p.Args) > 0 && sim.K(p.Args[0]) == sim.K(r.ref.S)
}

func (r *irRun) writerAt(point string, g int, d time.Duration) *sim.Parked {
	return parkedFor(point, func(p *sim.Parked) bool {
		if !r.mine(p) || len(p.Args) < 2 {
			return false
		}
		e, ok := p.Args[1].(ipfslog.Entry)
		if !ok {
			return false
		}
		_, v := opValue(r.in.Type, e)
		return strings.Contains(v, irMarker(g))
	}, d)
}

// newIndexPark waits for the goroutine of writer g (100: the store's main loop, i.e. none of the writers) to be
// parked right after it has read the log inside UpdateIndex of this store's index.
func (r *irRun) newIndexPark(g int, d time.Duration) *sim.Parked {
	idx := r.ref.S.Index()
	return parkedFor("index.read", func(p *sim.Parked) bool {
		if len(p.Args) == 0 || sim.K(p.Args[0]) != sim.K(idx) || r.known[p.ID] {
			return false
		}
		r.mu.Lock()
		defer r.mu.Unlock()
		if g != 100 {
			return p.GID == r.gid[g]
		}
		for _, id := range r.gid {
			if id == p.GID {
				return false
			}
		}
		return true
	}, d)
}

func (r *irRun) apply(st Step) error {
	h := sim.TheHub
	const d = 3 * time.Second
	g := 0
	if len(st.Args) > 0 {
		g = asInt(st.Args[0])
	}
	if r.in.Type == "log" {
		// the event log's index keeps a reference to the log, not a copy: its update is one step, taken where the
		// model patches the view; reading and waiting are not steps of its own
		switch st.Action {
		case "WIndexWait", "WIndexRead", "BIndexWait", "BIndexRead":
			return nil
		case "WIndexWrite":
			p := r.writerAt("write.persisted", g, d)
			if p == nil {
				return fmt.Errorf("writer %d is not between persisting its head and updating the view", g)
			}
			h.Release(p)
			if r.writerAt("write.indexed", g, d) == nil {
				return fmt.Errorf("writer %d did not finish its index update", g)
			}
			return nil
		case "BIndexWrite":
			p := parkedFor("join.log", r.mine, d)
			if p == nil {
				return fmt.Errorf("batch is not between join and index update")
			}
			h.Release(p)
			if parkedFor("join.indexed", r.mine, d) == nil {
				return fmt.Errorf("batch did not finish its index update")
			}
			return nil
		}
	}
	switch st.Action {
	case "Init":
	case "WAppend":
		key := r.in.Keys[fmt.Sprint(g)]
		r.mu.Lock()
		r.started[g] = true
		r.mu.Unlock()
		go func() {
			r.mu.Lock()
			r.gid[g] = sim.GoID()
			r.mu.Unlock()
			_, err := r.put(context.Background(), r.ref, key, irMarker(g))
			r.mu.Lock()
			r.returned[g], r.retErr[g] = true, err
			r.mu.Unlock()
			h.Poke()
		}()
		if r.writerAt("write.persisted", g, d) == nil {
			return errNotRealisable
		}
	case "WIndexWait":
		p := r.writerAt("write.persisted", g, d)
		if p == nil {
			return fmt.Errorf("writer %d is not between persisting its head and updating the view", g)
		}
		h.Release(p)
		r.waiting[g] = true
		// it must now be waiting for the index lock: not parked anywhere
		if r.writerAt("write.indexed", g, 150*time.Millisecond) != nil {
			// not a step of this tree: the update did not wait. The rest of the behaviour is still forced, the
			// update of this writer counting as done, so that what is observed at rest does not depend on chance
			r.res.note("%s step %d: the index update of writer %d came back while another update held the index", r.bid, r.step, g)
			r.skipped[g] = true
			r.res.Stats["drift"]++
		}
	case "WIndexRead":
		if r.skipped[g] {
			return nil
		}
		if !r.waiting[g] {
			p := r.writerAt("write.persisted", g, d)
			if p == nil {
				return fmt.Errorf("writer %d is not between persisting its head and updating the view", g)
			}
			h.Release(p)
		}
		ip := r.newIndexPark(g, d)
		if ip == nil {
			// the goroutine waits for the index lock, or its update was skipped: not a schedule of this tree
			return errNotRealisable
		}
		r.known[ip.ID] = true
		r.idxPark[g] = ip
	case "WIndexWrite":
		if r.skipped[g] {
			return nil
		}
		ip := r.idxPark[g]
		if ip == nil {
			return fmt.Errorf("writer %d has not read the log", g)
		}
		h.Release(ip)
		delete(r.idxPark, g)
		if r.writerAt("write.indexed", g, d) == nil {
			return fmt.Errorf("writer %d did not finish its index update", g)
		}
	case "WReturn":
		p := r.writerAt("write.indexed", g, d)
		if p == nil {
			return fmt.Errorf("writer %d is not past its index update", g)
		}
		h.Release(p)
		if !h.WaitFor(d, func() bool { r.mu.Lock(); defer r.mu.Unlock(); return r.returned[g] }) {
			return fmt.Errorf("writer %d did not return", g)
		}
		r.mu.Lock()
		err := r.retErr[g]
		r.mu.Unlock()
		if err != nil {
			r.violate("write-error", fmt.Sprintf("concurrent write %d failed: %v", g, err), nil, nil)
			return nil
		}
		// the call has returned, its write event has been emitted: the view shows this entry or a later one of the key
		if r.in.Type == "log" {
			r.res.Comparisons++
			if l := r.listed(r.ref); !containsStr(l, irMarker(g)) {
				r.violate("ack-not-shown", fmt.Sprintf("Add %d has returned and the event log does not list its entry (listed: %v)", g, l), irMarker(g), l)
			}
			return nil
		}
		key := r.in.Keys[fmt.Sprint(g)]
		r.res.Comparisons++
		ok := false
		got, answered := r.shown(key)
		allowed := r.laterOrSame(key, irMarker(g))
		for _, v := range allowed {
			ok = ok || v == got
		}
		if answered && !ok {
			r.violate("ack-not-shown", fmt.Sprintf("write %d to key %q has returned but the view shows %q, the value of an older operation (log order for this key from this write on: %v)", g, key, got, allowed), allowed, got)
		}
	case "BJoin":
		p := parkedFor("join.begin", r.mine, d)
		if p == nil {
			return fmt.Errorf("no batch waits at the main loop")
		}
		h.Release(p)
		if parkedFor("join.log", r.mine, d) == nil {
			return fmt.Errorf("batch did not join")
		}
		if r.in.Type == "log" {
			// a reader lists the event log in the middle of the merge (the first log of the batch is in, the rest is not):
			// whatever it sees, later listings show what the log holds then
			done := make(chan struct{})
			go func() { _ = r.listed(r.ref); close(done) }()
			select {
			case <-done:
				r.res.Stats["reads_in_the_middle_of_a_merge"]++
			case <-time.After(100 * time.Millisecond):
			}
		}
	case "BIndexWait":
		p := parkedFor("join.log", r.mine, d)
		if p == nil {
			return fmt.Errorf("batch is not between join and index update")
		}
		h.Release(p)
		r.waiting[100] = true
		if parkedFor("join.indexed", r.mine, 150*time.Millisecond) != nil {
			r.res.note("%s step %d: the index update of the batch came back while another update held the index", r.bid, r.step)
			r.skipped[100] = true
			r.res.Stats["drift"]++
		}
	case "BIndexRead":
		if r.skipped[100] {
			return nil
		}
		if !r.waiting[100] {
			p := parkedFor("join.log", r.mine, d)
			if p == nil {
				return fmt.Errorf("batch is not between join and index update")
			}
			h.Release(p)
		}
		ip := r.newIndexPark(100, d)
		if ip == nil {
			return errNotRealisable
		}
		r.known[ip.ID] = true
		r.idxPark[100] = ip
	case "BIndexWrite":
		if r.skipped[100] {
			return nil
		}
		ip := r.idxPark[100]
		if ip == nil {
			return fmt.Errorf("batch has not read the log")
		}
		h.Release(ip)
		delete(r.idxPark, 100)
		if parkedFor("join.indexed", r.mine, d) == nil {
			return fmt.Errorf("batch did not finish its index update")
		}
	case "BDone":
		p := parkedFor("join.indexed", r.mine, d)
		if p == nil {
			return fmt.Errorf("batch is not past its index update")
		}
		before := h.Count("join.end", r.ref.S)
		h.Release(p)
		if !h.WaitFor(d, func() bool { return h.CountLocked("join.end", r.ref.S) == before+1 }) {
			return fmt.Errorf("batch did not complete")
		}
	default:
		return fmt.Errorf("unknown action %s", st.Action)
	}
	return nil
}

func containsStr(l []string, x string) bool {
	for _, y := range l {
		if y == x {
			return true
		}
	}
	return false
}

func (r *irRun) compareView(st map[string]interface{}) {
	if r.in.Type == "log" {
		return
	}
	// the map as the specification has it: key -> entry id
	want := asMap(st["view"])
	for k, v := range want {
		id := asInt(v)
		exp := ""
		if id == 100 {
			exp = "remote"
		} else if id != 0 {
			exp = irMarker(id)
		}
		got, answered := r.shown(k)
		if !answered {
			return // the index lock is held by the update that is parked
		}
		if got != exp {
			r.res.note("%s step %d: view[%s] = %q, specification %q", r.bid, r.step, k, got, exp)
		}
	}
}

func (r *irRun) run(b Behaviour, idx int) {
	adversarial := false
	for _, a := range r.in.Adversarial {
		adversarial = adversarial || a == b.ID
	}
	if err := r.setup(fmt.Sprintf("ir%d", idx)); err != nil {
		r.res.Inconclusive = append(r.res.Inconclusive, b.ID+": setup: "+err.Error())
		return
	}
	h := sim.TheHub
	defer func() {
		h.ReleaseAll()
		h.ClearHandlers()
		_ = r.local.Close()
		_ = r.remote.Close()
	}()
	for _, pt := range []string{"write.persisted", "write.indexed", "join.begin", "join.log", "join.indexed"} {
		h.ParkAt(pt, func(args []interface{}) bool { return len(args) > 0 && sim.K(args[0]) == sim.K(r.ref.S) })
	}
	index := r.ref.S.Index()
	h.ParkAt("index.read", func(args []interface{}) bool { return len(args) > 0 && sim.K(args[0]) == sim.K(index) })
	if r.in.Batch {
		if err := r.ref.S.Sync(context.Background(), []ipfslog.Entry{copyEntry(r.remE)}); err != nil {
			r.res.Inconclusive = append(r.res.Inconclusive, b.ID+": sync: "+err.Error())
			return
		}
		if parkedFor("join.begin", r.mine, 4*time.Second) == nil {
			r.res.Inconclusive = append(r.res.Inconclusive, b.ID+": the replicated entry did not reach the main loop")
			return
		}
	}
	r.res.Behaviours++
	realised := true
	for si, st := range b.Steps {
		r.step = si
		if err := r.apply(st); err != nil {
			realised = false
			if err == errNotRealisable || adversarial {
				r.res.note("%s step %d %s: not realisable on this tree (%v)", b.ID, si, st.Action, err)
				r.res.Stats["drift"]++
			} else {
				r.res.Inconclusive = append(r.res.Inconclusive, fmt.Sprintf("%s step %d %s: %v", b.ID, si, st.Action, err))
			}
			break
		}
		r.res.Steps++
		r.res.Stats["action_"+st.Action]++
		if st.Action != "Init" {
			r.compareView(st.State)
		}
	}
	_ = realised
	// run to rest: every started call returns, the batch completes
	r.idxPark = map[int]*sim.Parked{}
	h.Unpark("index.read")
	for _, pt := range []string{"write.persisted", "write.indexed", "join.begin", "join.log", "join.indexed"} {
		h.Unpark(pt)
	}
	h.ReleaseAll()
	if !h.WaitFor(settleTimeout, func() bool {
		r.mu.Lock()
		defer r.mu.Unlock()
		for g := range r.started {
			if !r.returned[g] {
				return false
			}
		}
		return true
	}) {
		r.res.Inconclusive = append(r.res.Inconclusive, b.ID+": writers did not return")
		return
	}
	time.Sleep(2 * time.Millisecond)
	if err := sim.Settle(settleTimeout, r.local); err != nil {
		r.res.Inconclusive = append(r.res.Inconclusive, b.ID+": "+err.Error())
		return
	}
	r.step = -1
	if r.in.Type == "log" {
		// at rest: the listing is the log in its total order
		r.res.Comparisons++
		want, got := r.logValues(r.ref), r.listed(r.ref)
		if fmt.Sprint(want) != fmt.Sprint(got) {
			r.violate("rest-view", fmt.Sprintf("at rest the event log holds %d entries and lists %d: the listing differs from the log", len(want), len(got)), want, got)
		}
		return
	}
	// at rest: the view is the last-writer-wins replay of the log
	r.res.Comparisons++
	want := r.replay()
	got := map[string]string{}
	keys := []string{}
	for k := range want {
		keys = append(keys, k)
	}
	sort.Strings(keys)
	for _, k := range keys {
		got[k] = r.shownNow(k)
	}
	if !eqStrMap(want, got) {
		r.violate("rest-view", fmt.Sprintf("at rest with %d entries the view differs from the last-writer-wins replay of the log", r.ref.S.OpLog().Len()), want, got)
	}
	// C01: the second replica receives the same entries one after the other (no overlap): same entries, same view
	heads := []ipfslog.Entry{}
	for _, h := range r.ref.S.OpLog().Heads().Slice() {
		heads = append(heads, copyEntry(h))
	}
	if err := r.rref.S.Sync(context.Background(), heads); err == nil {
		if err := sim.Settle(settleTimeout, r.remote); err == nil && r.rref.S.OpLog().Len() == r.ref.S.OpLog().Len() {
			r.res.Comparisons++
			other := map[string]string{}
			saved := r.ref
			r.ref = r.rref
			for _, k := range keys {
				other[k] = r.shownNow(k)
			}
			r.ref = saved
			if !eqStrMap(other, got) {
				r.violate("convergence", fmt.Sprintf("two replicas hold the same %d entries; the one that received them while its own writes overlapped shows a different view than the one that received them one after the other", r.ref.S.OpLog().Len()), other, got)
			}
		}
	}
	if len(r.res.Samples) < 3 {
		r.res.Samples = append(r.res.Samples, map[string]interface{}{"behaviour": b.ID, "actions": briefSteps(b.Steps), "final_view": got})
	}
}

func indexRaceCmd(args []string) int {
	in := &IRInput{}
	if len(args) < 2 || readJSON(args[0], in) != nil {
		fmt.Fprintln(os.Stderr, "usage: vh indexrace <in.json> <out.json>")
		return 2
	}
	if err := sim.Install(); err != nil {
		fmt.Fprintln(os.Stderr, err)
		return 2
	}
	res := newResult("indexrace")
	for i, b := range in.Behaviours {
		r := &irRun{in: in, res: res, bid: b.ID}
		r.run(b, i)
	}
	return res.write(args[1])
}
