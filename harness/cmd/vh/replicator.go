package main

import (
	"berty.tech/go-orbit-db/stores"
	"berty.tech/go-orbit-db/stores/operation"
	"bytes"
	"context"
	"fmt"
	"github.com/libp2p/go-libp2p/core/event"
	"github.com/libp2p/go-libp2p/p2p/host/eventbus"
	"os"
	"sort"
	"sync/atomic"
	"time"

	ipfslog "berty.tech/go-ipfs-log"
	"berty.tech/go-ipfs-log/entry"
	orbitdb "berty.tech/go-orbit-db"
	"berty.tech/go-orbit-db/stores/replicator"
	cid "github.com/ipfs/go-cid"
	mh "github.com/multiformats/go-multihash"
	"verif/harness/sim"
)

func init() { commands["replicator"] = replicatorCmd }

// ReplInput: behaviours of spec/SimReplicator.tla forced on a real store.
type ReplInput struct {
	Property   string           `json:"property"`
	Seed       int64            `json:"seed"`
	Dag        string           `json:"dag"` // "A" (chain + fork, C11) | "B" (refused entries, C10)
	ReqHeads   map[string][]int `json:"req_heads"`
	NReq       int              `json:"nreq"`
	Bad        []int            `json:"bad"`
	Abort      []int            `json:"abort"` // heads announced with a hash that does not match their contents
	Links      map[string][]int `json:"links"`
	Ghost      []int            `json:"ghost"` // hashes whose block nobody provides
	Behaviours []Behaviour      `json:"behaviours"`
	Mutant     []string         `json:"mutant"`        // ids of behaviours of the Pinned specification
	LongOutage int              `json:"long_outage_s"` // thorough: one run in which nobody provides the blocks for this many seconds
}

type reqKey struct{}

type rpRun struct {
	in   *ReplInput
	res  *Result
	bid  string
	step int
	// the step as the observer of replicated events reads it (it runs beside the driver)
	stepSeen atomic.Int64

	w       *sim.World
	nodes   map[string]*sim.Node
	a       *sim.StoreRef
	entries map[int]ipfslog.Entry
	ids     map[string]int
	cancels map[int]context.CancelFunc
	ctxs    map[int]context.Context
	// requests end either by an explicit cancel or (every second behaviour) by a deadline that
	// expires at the moment the specification cancels them
	byDeadline bool
	deadlines  map[int]time.Time
	cancelRank map[int]int // order in which the behaviour cancels its requests
}

func (r *rpRun) violate(kind, detail string, exp, got interface{}) {
	r.res.violate(Violation{Property: r.in.Property, Kind: kind, Behaviour: r.bid, Step: r.step, Detail: detail, Expected: exp, Got: got})
}

func (r *rpRun) rec(id int, e ipfslog.Entry) {
	r.entries[id] = copyEntry(e)
	r.ids[e.GetHash().String()] = id
}

func kvOp(key string) []byte {
	return []byte(fmt.Sprintf(`{"key":%q,"op":"PUT","value":"eA=="}`, key))
}

// foreignLog: a log object for the database id whose access controller allows
// everything: the way a peer outside the write list (or a colluding writer)
// produces entries that name this database.
func foreignLog(n *sim.Node, addr string) (ipfslog.Log, error) {
	return ipfslog.NewLog(n.P.IPFS(), n.DB.Identity(), &ipfslog.LogOptions{ID: addr})
}

func (r *rpRun) setup(tag string) error {
	r.w = sim.NewWorld()
	r.nodes = map[string]*sim.Node{}
	r.entries, r.ids = map[int]ipfslog.Entry{}, map[string]int{}
	r.cancels, r.ctxs = map[int]context.CancelFunc{}, map[int]context.Context{}
	r.deadlines = map[int]time.Time{}
	// roles are assigned in the byte order of the identities' public keys, so that the
	// tie-break order of concurrent entries (and with it the order of links) is fixed
	type cand struct {
		n  *sim.Node
		pk []byte
	}
	cands := []cand{}
	for i := 0; i < 4; i++ {
		nd, err := r.w.AddPeer(fmt.Sprintf("%s-%d", tag, i)).Start("")
		if err != nil {
			return err
		}
		cands = append(cands, cand{nd, nd.DB.Identity().PublicKey})
	}
	sort.Slice(cands, func(i, j int) bool { return bytes.Compare(cands[i].pk, cands[j].pk) < 0 })
	for i, n := range []string{"a", "b", "c", "m"} {
		r.nodes[n] = cands[i].n
	}
	ctx := context.Background()
	ac := sim.AccessFor([]string{r.nodes["a"].DB.Identity().ID, r.nodes["b"].DB.Identity().ID, r.nodes["c"].DB.Identity().ID})
	rb, err := r.nodes["b"].Open("rp-"+tag, "keyvalue", &orbitdb.CreateDBOptions{AccessController: ac})
	if err != nil {
		return err
	}
	addr := rb.Addr
	if r.a, err = r.nodes["a"].Open(addr, "keyvalue", nil); err != nil {
		return err
	}
	put := func(ref *sim.StoreRef, key string) (ipfslog.Entry, error) {
		op, err := ref.S.(orbitdb.KeyValueStore).Put(ctx, key, []byte("x"))
		if err != nil {
			return nil, err
		}
		return op.GetEntry(), nil
	}
	switch r.in.Dag {
	case "A", "F", "G", "H", "I":
		rc, err := r.nodes["c"].Open(addr, "keyvalue", nil)
		if err != nil {
			return err
		}
		e1, err := put(rb, "k1")
		if err != nil {
			return err
		}
		e2, err := put(rb, "k2")
		if err != nil {
			return err
		}
		if err := rc.S.Sync(ctx, []ipfslog.Entry{copyEntry(e2)}); err != nil {
			return err
		}
		if err := sim.Settle(settleTimeout, r.nodes["a"], r.nodes["b"], r.nodes["c"]); err != nil {
			return err
		}
		e4, err := put(rc, "k4")
		if r.in.Dag == "I" {
			// entry 4 is written by c on top of entry 2 and of a block nobody provides (5)
			sum, _ := mh.Sum([]byte("block nobody provides "+tag), mh.SHA2_256, -1)
			ghost := cid.NewCidV1(cid.DagCBOR, sum)
			r.ids[ghost.String()] = 5
			e4, err = mkEntry(ctx, r.nodes["c"], r.nodes["c"].DB.Identity(), addr, kvOp("k4"), []cid.Cid{e2.GetHash(), ghost}, 3)
		}
		if err != nil {
			return err
		}
		e3, err := put(rb, "k3")
		if err != nil {
			return err
		}
		r.rec(1, e1)
		r.rec(2, e2)
		r.rec(3, e3)
		r.rec(4, e4)
		if r.in.Dag == "F" {
			// the replica has replicated 1, 2, 3 before and has been stopped and started: they are in its cache, not in its log
			if err := r.a.S.Sync(ctx, []ipfslog.Entry{copyEntry(e3)}); err != nil {
				return err
			}
			if err := sim.Settle(settleTimeout, r.nodes["a"]); err != nil {
				return err
			}
			if r.a.S.OpLog().Len() != 3 {
				return fmt.Errorf("setup: the replica holds %d entries instead of 3", r.a.S.OpLog().Len())
			}
			pa := r.nodes["a"].P
			if err := r.nodes["a"].Close(); err != nil {
				return err
			}
			na, err := pa.Start("")
			if err != nil {
				return err
			}
			r.nodes["a"] = na
			if r.a, err = na.Open(addr, "keyvalue", nil); err != nil {
				return err
			}
		}
	case "B", "C", "D", "E":
		e1, err := put(rb, "k1")
		if err != nil {
			return err
		}
		// entry 5: written by m, who is not in the write list
		lm, err := foreignLog(r.nodes["m"], addr)
		if err != nil {
			return err
		}
		e5, err := lm.Append(ctx, kvOp("k5"), nil)
		if err != nil {
			return err
		}
		// entry 4: signed by the authorised writer b, but on top of {e5, e1} (collusion)
		lb, err := foreignLog(r.nodes["b"], addr)
		if err != nil {
			return err
		}
		if _, err := lb.Join(lm, -1); err != nil {
			return err
		}
		if _, err := lb.Join(rb.S.OpLog(), -1); err != nil {
			return err
		}
		// lb fetches nothing itself, but the entry of m must be available to whoever follows the link
		r.nodes["b"].P.PutBlock(e5.GetHash(), mustRaw(r.nodes["m"].P, e5.GetHash()))
		e4, err := lb.Append(ctx, kvOp("k4"), &ipfslog.AppendOptions{PointerCount: 64})
		if err != nil {
			return err
		}
		e3, err := put(rb, "k3")
		if err != nil {
			return err
		}
		// entry 2: a head written by m
		lm2, err := foreignLog(r.nodes["m"], addr)
		if err != nil {
			return err
		}
		e2, err := lm2.Append(ctx, kvOp("k2"), nil)
		if err != nil {
			return err
		}
		if r.in.Dag == "E" {
			// ... or (same request tables) a head that names the authorised writer b as its author but is signed by m
			fid, err := forgedIdentity(ctx, r.nodes["m"], r.nodes["b"].DB.Identity().ID, "orbitdb")
			if err != nil {
				return err
			}
			if e2, err = mkEntry(ctx, r.nodes["m"], fid, addr, kvOp("k2"), []cid.Cid{}, 1); err != nil {
				return err
			}
		}
		r.rec(1, e1)
		r.rec(2, e2)
		r.rec(3, e3)
		r.rec(4, e4)
		r.rec(5, e5)
		if r.in.Dag == "D" {
			// head 7: written by the authorised writer b, correctly signed and addressed, but for another database
			other, err := r.nodes["b"].Open("rp-other-"+tag, "keyvalue", &orbitdb.CreateDBOptions{AccessController: ac})
			if err != nil {
				return err
			}
			e7, err := put(other, "k7")
			if err != nil {
				return err
			}
			r.rec(7, e7)
		}
		if r.in.Dag == "C" {
			// head 6: a well-formed entry of the authorised writer b announced under a hash that is not the hash of its contents
			lb6, err := foreignLog(r.nodes["b"], addr)
			if err != nil {
				return err
			}
			e6, err := lb6.Append(ctx, kvOp("k6"), nil)
			if err != nil {
				return err
			}
			// a head announced under a hash that is not the address of its contents: its signature verifies (Sync checks
			// signatures first and merely discards a head whose signature does not), the address check then ends the request
			t := copyEntry(e6).(*entry.Entry)
			sum, err := mh.Sum([]byte("not-the-address-of-"+t.Hash.String()), mh.SHA2_256, -1)
			if err != nil {
				return err
			}
			t.Hash = cid.NewCidV1(cid.DagCBOR, sum)
			r.entries[6] = t
		}
	}
	if err := sim.Settle(settleTimeout, r.nodes["a"], r.nodes["b"]); err != nil {
		return err
	}
	// check that the real DAG is the one the specification was given
	for id, e := range r.entries {
		if contains(r.in.Abort, id) {
			continue
		}
		got := []int{}
		seen := map[int]bool{}
		for _, c := range append(append([]cid.Cid{}, e.GetNext()...), e.GetRefs()...) {
			if x, ok := r.ids[c.String()]; ok && !seen[x] {
				seen[x] = true
				got = append(got, x)
			}
		}
		sort.Ints(got)
		want := sortedInts(r.in.Links[fmt.Sprint(id)])
		if !eqInts(got, want) {
			return fmt.Errorf("entry %d links to %v, the specification's constant says %v", id, got, want)
		}
	}
	for _, m := range r.w.Bag() {
		r.w.Take(m.ID)
	}
	return nil
}

func mustRaw(p *sim.Peer, c cid.Cid) []byte {
	b, _ := p.RawBlock(c)
	return b
}

func (r *rpRun) hasAbort(q int) bool {
	for _, id := range r.in.ReqHeads[fmt.Sprint(q)] {
		if contains(r.in.Abort, id) {
			return true
		}
	}
	return false
}

func (r *rpRun) teardown() {
	sim.TheHub.ReleaseAll()
	sim.TheHub.ClearHandlers()
	for _, c := range r.cancels {
		c()
	}
	for _, n := range r.nodes {
		_ = n.Close()
	}
}

func (r *rpRun) isStore(args []interface{}, i int) bool {
	return len(args) > i && sim.K(args[i]) == sim.K(r.a.S)
}

func reqOf(ctx interface{}) int {
	c, ok := ctx.(context.Context)
	if !ok {
		return 0
	}
	q, _ := c.Value(reqKey{}).(int)
	return q
}

func (r *rpRun) logIDs() []int {
	out := []int{}
	for _, e := range r.a.S.OpLog().GetEntries().Slice() {
		if id, ok := r.ids[e.GetHash().String()]; ok {
			out = append(out, id)
		} else {
			out = append(out, -1)
		}
	}
	sort.Ints(out)
	return out
}

func (r *rpRun) parkedWorkerByItem(point string, item int, d time.Duration) *sim.Parked {
	return parkedFor(point, func(p *sim.Parked) bool {
		if !r.isStore(p.Args, 1) || len(p.Args) < 3 {
			return false
		}
		c, ok := p.Args[2].(cid.Cid)
		return ok && r.ids[c.String()] == item
	}, d)
}

func (r *rpRun) countSlotParked(q int) int {
	n := 0
	for _, p := range sim.TheHub.ParkedList() {
		if p.Point == "repl.slot.wait" && r.isStore(p.Args, 1) && (q == 0 || reqOf(p.Args[2]) == q) {
			n++
		}
	}
	return n
}

func specWorkers(st map[string]interface{}) []map[string]interface{} {
	out := []map[string]interface{}{}
	for _, w := range asList(st["workers"]) {
		out = append(out, asMap(w))
	}
	return out
}

var errDriftR = fmt.Errorf("drift")

func (r *rpRun) apply(st Step, prev map[string]interface{}) error {
	h := sim.TheHub
	const d = 4 * time.Second
	switch st.Action {
	case "Init":
	case "Request":
		q := asInt(st.Args[0])
		var ctx context.Context
		var cancel context.CancelFunc
		if r.byDeadline && q != r.in.NReq {
			dl := time.Now().Add(deadlineBudget * time.Duration(1+r.cancelRank[q]))
			ctx, cancel = context.WithDeadline(context.WithValue(context.Background(), reqKey{}, q), dl)
			r.deadlines[q] = dl
		} else {
			ctx, cancel = context.WithCancel(context.WithValue(context.Background(), reqKey{}, q))
		}
		if c, ok := r.ctxs[q]; ok { // cancelled before it was issued
			ctx = c
			cancel()
		} else {
			r.ctxs[q], r.cancels[q] = ctx, cancel
		}
		heads := []ipfslog.Entry{}
		for _, id := range r.in.ReqHeads[fmt.Sprint(q)] {
			heads = append(heads, copyEntry(r.entries[id]))
		}
		before := r.countSlotParked(q)
		spawnsBefore := h.Count("sync.spawn", r.a.S)
		if err := r.a.S.Sync(ctx, heads); err != nil && !r.hasAbort(q) {
			return fmt.Errorf("sync: %w", err)
		}
		nnew := len(specWorkers(st.State)) - len(specWorkers(prev))
		deadline := time.Now().Add(d)
		for r.countSlotParked(q)-before != nnew {
			if time.Now().After(deadline) {
				r.res.note("%s step %d: request %d spawned %d workers, specification %d", r.bid, r.step, q, r.countSlotParked(q)-before, nnew)
				return errDriftR
			}
			time.Sleep(300 * time.Microsecond)
		}
		if nnew == 0 && h.Count("sync.spawn", r.a.S) == spawnsBefore {
			r.res.note("%s step %d: Sync did not start a load", r.bid, r.step)
		}
	case "Acquire", "AcquireFail":
		w := asInt(st.Args[0])
		sw := specWorkers(prev)[w-1]
		q := asInt(sw["req"])
		p := parkedFor("repl.slot.wait", func(p *sim.Parked) bool { return r.isStore(p.Args, 1) && reqOf(p.Args[2]) == q }, d)
		if p == nil {
			return fmt.Errorf("no worker of request %d parked before the semaphore", q)
		}
		if st.Action == "Acquire" {
			item := asInt(specWorkers(st.State)[w-1]["item"])
			h.Release(p)
			if r.parkedWorkerByItem("repl.fetch", item, d) == nil {
				// which item did it take?
				for _, pp := range h.ParkedList() {
					if pp.Point == "repl.fetch" && r.isStore(pp.Args, 1) {
						r.res.note("%s step %d: a worker holds item %d", r.bid, r.step, r.ids[pp.Args[2].(cid.Cid).String()])
					}
				}
				r.res.note("%s step %d: worker did not dequeue item %d", r.bid, r.step, item)
				return errDriftR
			}
		} else {
			before := h.Count("repl.slot.fail", r.a.S)
			h.Release(p)
			if !h.WaitFor(d, func() bool { return h.CountLocked("repl.slot.fail", r.a.S) == before+1 }) {
				r.res.note("%s step %d: worker of the cancelled request %d did get a slot", r.bid, r.step, q)
				return errDriftR
			}
		}
	case "SFetch":
		w := asInt(st.Args[0])
		item := asInt(specWorkers(prev)[w-1]["item"])
		p := r.parkedWorkerByItem("repl.fetch", item, d)
		if p == nil {
			return fmt.Errorf("worker of item %d not parked before its fetch", item)
		}
		h.Release(p)
		f := r.parkedWorkerByItem("repl.fetched", item, d)
		if f == nil {
			return fmt.Errorf("fetch of item %d did not return", item)
		}
		ok := false
		if len(f.Args) >= 5 && f.Args[4] == nil {
			if l, isLog := f.Args[3].(ipfslog.Log); isLog && l != nil && l.Len() > 0 {
				ok = true
			}
		}
		wantOK := asStr(specWorkers(st.State)[w-1]["pc"]) == "fetched"
		if wantOK && !ok && contains(r.logIDs(), item) {
			ok = true // the entry entered the log meanwhile (the store's own Load): the fetch leaves it out, nothing is lost
		}
		if ok != wantOK {
			r.res.note("%s step %d: fetch of item %d ok=%v, specification ok=%v", r.bid, r.step, item, ok, wantOK)
			return errDriftR
		}
	case "SFetchTimeout":
		// nobody answers the fetch: it returns when its bound expires, with nothing
		w := asInt(st.Args[0])
		item := asInt(specWorkers(prev)[w-1]["item"])
		p := r.parkedWorkerByItem("repl.fetch", item, d)
		if p == nil {
			return fmt.Errorf("worker of item %d not parked before its fetch", item)
		}
		h.Release(p)
		f := r.parkedWorkerByItem("repl.fetched", item, d+replFetchTimeout)
		if f == nil {
			r.violate("wedged", fmt.Sprintf("the fetch of a block nobody provides (item %d) does not end: it keeps its slot and, with it, what was fetched meanwhile", item), nil, r.a.ReplStats())
			return errDriftR
		}
		if len(f.Args) >= 5 && f.Args[4] == nil {
			if l, isLog := f.Args[3].(ipfslog.Log); isLog && l != nil && l.Len() > 0 {
				r.res.note("%s step %d: the fetch of item %d brought entries although nobody provides its block", r.bid, r.step, item)
				return errDriftR
			}
		}
	case "SFetchErr":
		// the read of the block fails: it is denied on the replica for the time of this fetch
		w := asInt(st.Args[0])
		item := asInt(specWorkers(prev)[w-1]["item"])
		p := r.parkedWorkerByItem("repl.fetch", item, d)
		if p == nil {
			return fmt.Errorf("worker of item %d not parked before its fetch", item)
		}
		pa := r.nodes["a"].P
		pa.Deny(r.entries[item].GetHash())
		h.Release(p)
		f := r.parkedWorkerByItem("repl.fetched", item, d)
		pa.Allow(r.entries[item].GetHash())
		if f == nil {
			return fmt.Errorf("fetch of item %d did not return", item)
		}
		if len(f.Args) >= 5 && f.Args[4] == nil {
			if l, isLog := f.Args[3].(ipfslog.Log); isLog && l != nil && l.Len() > 0 {
				r.res.note("%s step %d: the fetch of item %d brought entries although its block was denied", r.bid, r.step, item)
				return errDriftR
			}
		}
	case "Finish":
		w := asInt(st.Args[0])
		item := asInt(specWorkers(prev)[w-1]["item"])
		p := r.parkedWorkerByItem("repl.fetched", item, d)
		if p == nil {
			return fmt.Errorf("worker of item %d not parked after its fetch", item)
		}
		before := h.Count("repl.done", r.a.S)
		nnew := len(specWorkers(st.State)) - len(specWorkers(prev))
		pb := r.countSlotParked(0)
		h.Release(p)
		if !h.WaitFor(d, func() bool { return h.CountLocked("repl.done", r.a.S) == before+1 }) {
			return fmt.Errorf("worker of item %d did not finish", item)
		}
		deadline := time.Now().Add(d)
		for r.countSlotParked(0)-pb != nnew {
			if time.Now().After(deadline) {
				r.res.note("%s step %d: item %d queued %d links, specification %d", r.bid, r.step, item, r.countSlotParked(0)-pb, nnew)
				return errDriftR
			}
			time.Sleep(300 * time.Microsecond)
		}
	case "Cancel":
		q := asInt(st.Args[0])
		if dl, ok := r.deadlines[q]; ok {
			// the request's own deadline passes now
			if time.Now().After(dl) {
				r.res.note("%s step %d: the deadline of request %d passed before the specification's Cancel", r.bid, r.step, q)
				return errDriftR
			}
			time.Sleep(time.Until(dl) + 2*time.Millisecond)
		} else if c, ok := r.cancels[q]; ok {
			c()
		} else if r.byDeadline {
			ctx, cancel := context.WithDeadline(context.WithValue(context.Background(), reqKey{}, q), time.Now().Add(-time.Second))
			r.ctxs[q], r.cancels[q] = ctx, cancel
		} else {
			ctx, cancel := context.WithCancel(context.WithValue(context.Background(), reqKey{}, q))
			cancel()
			r.ctxs[q], r.cancels[q] = ctx, cancel
		}
		time.Sleep(time.Millisecond) // let the context watcher goroutines run
	case "Return":
		// observed, not forced: Load returns by itself
		time.Sleep(200 * time.Microsecond)
	case "StoreLoad", "SStoreLoad":
		if err := r.a.S.Load(context.Background(), -1); err != nil {
			return fmt.Errorf("load: %w", err)
		}
		if want, got := sortedInts(asInts(st.State["log"])), r.logIDs(); !eqInts(want, got) {
			r.res.note("%s step %d: log after the store's own Load %v, specification %v", r.bid, r.step, got, want)
		}
	case "JoinBatch":
		p := parkedFor("join.begin", func(p *sim.Parked) bool { return r.isStore(p.Args, 0) }, d)
		if p == nil {
			r.res.note("%s step %d: no LoadEnd reached the main loop", r.bid, r.step)
			return errDriftR
		}
		before := h.Count("join.end", r.a.S)
		h.Release(p)
		if !h.WaitFor(d, func() bool { return h.CountLocked("join.end", r.a.S) == before+1 }) {
			return fmt.Errorf("batch did not complete")
		}
		if want, got := sortedInts(asInts(st.State["log"])), r.logIDs(); !eqInts(want, got) {
			r.res.note("%s step %d: log after batch %v, specification %v", r.bid, r.step, got, want)
		}
	default:
		return fmt.Errorf("unknown action %s", st.Action)
	}
	return nil
}

func (r *rpRun) reach(heads []int) []int {
	bad := map[int]bool{}
	for _, b := range r.in.Bad {
		bad[b] = true
	}
	for _, b := range r.in.Ghost {
		bad[b] = true
	}
	seen := map[int]bool{}
	stack := append([]int{}, heads...)
	for len(stack) > 0 {
		x := stack[len(stack)-1]
		stack = stack[:len(stack)-1]
		if seen[x] {
			continue
		}
		seen[x] = true
		stack = append(stack, r.in.Links[fmt.Sprint(x)]...)
	}
	out := []int{}
	for x := range seen {
		if !bad[x] {
			out = append(out, x)
		}
	}
	sort.Ints(out)
	return out
}

const deadlineBudget = 600 * time.Millisecond

// replFetchTimeout: what the harness shortens the replicator's fetch timeout to (0: left as it is)
var replFetchTimeout time.Duration

func (r *rpRun) run(b Behaviour, idx int) {
	r.byDeadline = idx%2 == 1
	r.cancelRank = map[int]int{}
	for _, st := range b.Steps {
		if st.Action == "Cancel" {
			r.cancelRank[asInt(st.Args[0])] = len(r.cancelRank)
		}
	}
	mutant := false
	for _, m := range r.in.Mutant {
		mutant = mutant || m == b.ID
	}
	if err := r.setup(fmt.Sprintf("r%d", idx)); err != nil {
		r.res.Inconclusive = append(r.res.Inconclusive, b.ID+": setup: "+err.Error())
		return
	}
	defer r.teardown()
	if r.in.Dag == "I" {
		replFetchTimeout = 400 * time.Millisecond
		defer replicator.VerifSetFetchTimeout(replicator.VerifSetFetchTimeout(replFetchTimeout))
	}
	h := sim.TheHub
	mine := func(i int) func(args []interface{}) bool {
		return func(args []interface{}) bool { return r.isStore(args, i) }
	}
	defer r.observeReplicated()()
	h.ParkAt("repl.slot.wait", mine(1))
	h.ParkAt("repl.fetch", mine(1))
	h.ParkAt("repl.fetched", mine(1))
	h.ParkAt("join.begin", mine(0))
	r.res.Behaviours++
	var prev map[string]interface{}
	for si, st := range b.Steps {
		r.step = si
		r.stepSeen.Store(int64(si))
		if err := r.apply(st, prev); err != nil {
			if err == errDriftR || mutant {
				r.res.Stats["drift"]++
				if err != errDriftR {
					r.res.note("%s step %d %s: not realisable on this tree (%v)", b.ID, si, st.Action, err)
				}
			} else {
				r.res.Inconclusive = append(r.res.Inconclusive, fmt.Sprintf("%s step %d %s: %v", b.ID, si, st.Action, err))
			}
			break
		}
		prev = st.State
		r.res.Steps++
		r.res.Stats["action_"+st.Action]++
	}
	// run to rest: no gates, every request issued, then the final uncancelled request once more
	h.ReleaseAll()
	ctx := context.Background()
	final := r.in.ReqHeads[fmt.Sprint(r.in.NReq)]
	issue := func(q int, c context.Context) {
		heads := []ipfslog.Entry{}
		for _, id := range r.in.ReqHeads[fmt.Sprint(q)] {
			heads = append(heads, copyEntry(r.entries[id]))
		}
		_ = r.a.S.Sync(c, heads)
	}
	for q := 1; q <= r.in.NReq; q++ {
		if _, ok := r.ctxs[q]; !ok {
			issue(q, ctx)
		}
	}
	rest := func(what string) bool {
		if err := sim.Settle(6*time.Second, r.nodes["a"]); err != nil {
			// a request that never returns / a main loop that never drains is a wedge
			r.violate("wedged", what+": the replica does not come to rest: "+err.Error(), nil, r.a.ReplStats())
			return false
		}
		return true
	}
	if !rest("after the replayed requests") {
		return
	}
	issue(r.in.NReq, ctx)
	if !rest("after the final request") {
		return
	}
	r.step = -1
	r.stepSeen.Store(-1)
	r.res.Comparisons++
	want, got := r.reach(final), r.logIDs()
	for _, id := range want {
		if !contains(got, id) {
			r.violate("missing", fmt.Sprintf("entry %d, reachable from the heads of the final uncancelled request, never becomes visible", id), want, got)
			break
		}
	}
	for _, id := range r.in.Bad {
		if contains(got, id) {
			r.violate("bad-merged", fmt.Sprintf("refused entry %d is in the log", id), nil, got)
		}
	}
	// the view must show what the log holds
	view := []int{}
	all := r.a.S.(orbitdb.KeyValueStore).All()
	for id := range r.entries {
		if _, ok := all[fmt.Sprintf("k%d", id)]; ok {
			view = append(view, id)
		}
	}
	sort.Ints(view)
	if !eqInts(view, got) {
		r.violate("view-stale", "entries in the log are not reflected by the view", got, view)
	}
	if len(r.res.Samples) < 3 {
		r.res.Samples = append(r.res.Samples, map[string]interface{}{"behaviour": b.ID, "actions": briefSteps(b.Steps), "final_log": got})
	}
	if r.in.Dag == "I" {
		return // the store's own Load would wait a minute for the block nobody provides
	}
	// stop the replica and start it again from its directory: the valid entries are still there, the refused ones still absent
	pa := r.nodes["a"].P
	addr := r.a.Addr
	if err := r.nodes["a"].Close(); err != nil {
		r.res.Inconclusive = append(r.res.Inconclusive, b.ID+": close: "+err.Error())
		return
	}
	na, err := pa.Start("")
	if err != nil {
		r.res.Inconclusive = append(r.res.Inconclusive, b.ID+": restart: "+err.Error())
		return
	}
	r.nodes["a"] = na
	ref, err := na.Open(addr, "keyvalue", nil)
	if err != nil {
		r.res.Inconclusive = append(r.res.Inconclusive, b.ID+": reopen: "+err.Error())
		return
	}
	r.a = ref
	if err := ref.S.Load(ctx, -1); err != nil {
		r.res.Inconclusive = append(r.res.Inconclusive, b.ID+": load: "+err.Error())
		return
	}
	if !rest("after the restart") {
		return
	}
	r.res.Comparisons++
	r.res.Stats["restarts"]++
	got2 := r.logIDs()
	for _, id := range got {
		if !contains(got2, id) && !contains(r.in.Bad, id) {
			r.violate("missing", fmt.Sprintf("entry %d was in the log before the replica was stopped and is not after it was started and loaded", id), got, got2)
			break
		}
	}
	for _, id := range r.in.Bad {
		if contains(got2, id) {
			r.violate("bad-merged", fmt.Sprintf("refused entry %d is in the log after the replica was restarted and loaded", id), nil, got2)
		}
	}
	r.loadCancelled(b, idx, got2)
}

// observeReplicated (C16): a replicated event announces only entries the store holds, and shows, when the event is
// received. It returns the function that stops the observer and hands its findings to the result.
//
// The observer looks at the store that emits the events (the replica as it is when the observer is started: the driver
// replaces r.a when it stops and starts the replica, and the started one has an empty log until its Load is done), and it
// looks while the emitter is still inside Emit: two unbuffered subscriptions, the second of which is read only after the
// check, so the store's main loop cannot go on - and the driver cannot see the replica at rest and stop it - before the
// check is done. Findings are kept by the observer and merged by the stop function, which waits for the observer to end.
func (r *rpRun) observeReplicated() func() {
	a, bid := r.a, r.bid
	ids := map[string]int{}
	for h, id := range r.ids {
		ids[h] = id
	}
	bus := r.nodes["a"].Bus()
	s1, err := bus.Subscribe(new(stores.EventReplicated), eventbus.BufSize(0))
	if err != nil {
		return func() {}
	}
	s2, err := bus.Subscribe(new(stores.EventReplicated), eventbus.BufSize(0))
	if err != nil {
		s1.Close()
		return func() {}
	}
	octx, ocancel := context.WithCancel(context.Background())
	done := make(chan struct{})
	var found []Violation
	comparisons := 0
	go func() {
		defer close(done)
		defer s1.Close()
		defer s2.Close()
		for {
			var e interface{}
			var other event.Subscription
			select {
			case <-octx.Done():
				return
			case e = <-s1.Out():
				other = s2
			case e = <-s2.Out():
				other = s1
			}
			if evt, ok := e.(stores.EventReplicated); ok && evt.Address.String() == a.Addr {
				all := a.S.(orbitdb.KeyValueStore).All()
				oplog := a.S.OpLog()
				for _, en := range evt.Entries {
					comparisons++
					_, inLog := oplog.Get(en.GetHash())
					key := ""
					if op, err := operation.ParseOperation(en); err == nil && op.GetKey() != nil {
						key = *op.GetKey()
					}
					if _, inView := all[key]; !inLog || !inView {
						found = append(found, Violation{Property: r.in.Property, Kind: "replicated-event", Behaviour: bid, Step: int(r.stepSeen.Load()),
							Detail: fmt.Sprintf("a replicated event announces entry %d (key %s) which the store does not hold when the event is received (in log: %v, in view: %v)", ids[en.GetHash().String()], key, inLog, inView)})
					}
				}
			}
			select {
			case <-octx.Done():
				return
			case <-other.Out():
			}
		}
	}()
	return func() {
		ocancel()
		<-done
		r.res.Comparisons += comparisons
		for _, v := range found {
			r.res.violate(v)
		}
	}
}

// viewShowsLog: the view shows what the log holds (every entry of these DAGs writes its own key)
func (r *rpRun) viewShowsLog(when string) {
	got := r.logIDs()
	view := []int{}
	all := r.a.S.(orbitdb.KeyValueStore).All()
	for id := range r.entries {
		if _, ok := all[fmt.Sprintf("k%d", id)]; ok {
			view = append(view, id)
		}
	}
	sort.Ints(view)
	r.res.Comparisons++
	if !eqInts(view, got) {
		r.violate("view-stale", when+": entries in the log are not reflected by the view", got, view)
	}
}

// loadCancelled (C11, load requests): the replica is started once more; a first Load is given up by its caller
// after k block reads, a second one is not: it must make everything visible that a single Load makes visible.
func (r *rpRun) loadCancelled(b Behaviour, idx int, want []int) {
	if len(want) < 2 {
		return
	}
	h := sim.TheHub
	pa := r.nodes["a"].P
	addr := r.a.Addr
	// the replica writes a chain of its own on top of what it holds: below the newest entry there is one path only
	want = append([]int{}, want...)
	var newest ipfslog.Entry
	for i := 1; i <= 5; i++ {
		op, err := r.a.S.(orbitdb.KeyValueStore).Put(context.Background(), fmt.Sprintf("c%d", i), []byte("x"))
		if err != nil {
			r.res.Inconclusive = append(r.res.Inconclusive, b.ID+": write: "+err.Error())
			return
		}
		r.ids[op.GetEntry().GetHash().String()] = 100 + i
		want = append(want, 100+i)
		newest = op.GetEntry()
	}
	if err := sim.Settle(6*time.Second, r.nodes["a"]); err != nil {
		r.res.Inconclusive = append(r.res.Inconclusive, b.ID+": "+err.Error())
		return
	}
	if err := r.nodes["a"].Close(); err != nil {
		return
	}
	na, err := pa.Start("")
	if err != nil {
		r.res.Inconclusive = append(r.res.Inconclusive, b.ID+": restart: "+err.Error())
		return
	}
	r.nodes["a"] = na
	ref, err := na.Open(addr, "keyvalue", nil)
	if err != nil {
		r.res.Inconclusive = append(r.res.Inconclusive, b.ID+": reopen: "+err.Error())
		return
	}
	r.a = ref
	k := 1 + idx%(2*len(want)+2)
	h.ParkAt("sim.get", func(args []interface{}) bool { return len(args) > 0 && args[0] == interface{}(pa) })
	ctx1, cancel1 := context.WithCancel(context.Background())
	done := make(chan error, 1)
	go func() { done <- ref.S.Load(ctx1, -1) }()
	passed := 0
	for passed < k {
		p := parkedFor("sim.get", nil, 300*time.Millisecond)
		if p == nil {
			break // the load needs fewer reads than k: it completes
		}
		h.Release(p)
		passed++
	}
	cancel1()
	h.Unpark("sim.get")
	h.ReleaseAll()
	select {
	case <-done:
	case <-time.After(6 * time.Second):
		r.violate("wedged", fmt.Sprintf("a Load whose caller gave up after %d block reads never returns", passed), nil, nil)
		return
	}
	r.res.note("%s: Load given up after %d of the block reads: log %v", b.ID, passed, r.logIDs())
	// whatever the load that was given up did merge, the view shows it (the view is the replay of the log at all times)
	{
		all := ref.S.(orbitdb.KeyValueStore).All()
		r.res.Comparisons++
		for _, id := range r.logIDs() {
			key := fmt.Sprintf("k%d", id)
			if id > 100 {
				key = fmt.Sprintf("c%d", id-100)
			}
			if _, ok := all[key]; !ok {
				r.violate("view-stale", fmt.Sprintf("after a Load that was given up after %d block reads the log holds entry %d and the view does not show its key %s", passed, id, key), r.logIDs(), len(all))
				break
			}
		}
	}
	viaSync := idx%2 == 1
	if viaSync {
		// the later request is a sync of the same head (announced again by a peer that holds the log): exactly as if the
		// load that was given up had never been made, it brings everything below that head
		for _, nd := range []*sim.Node{r.nodes["b"], r.nodes["c"]} {
			if nd != nil {
				for _, c := range pa.BlockCids() {
					if raw, ok := pa.RawBlock(c); ok {
						nd.P.PutBlock(c, raw)
					}
				}
			}
		}
		if err := ref.S.Sync(context.Background(), []ipfslog.Entry{copyEntry(newest)}); err != nil {
			r.violate("wedged", "a Sync after a Load that was given up fails: "+err.Error(), nil, nil)
			return
		}
		r.res.Stats["loads_given_up_then_sync"]++
	} else if err := ref.S.Load(context.Background(), -1); err != nil {
		r.violate("wedged", "a Load after a Load that was given up fails: "+err.Error(), nil, nil)
		return
	}
	if err := sim.Settle(6*time.Second, na); err != nil {
		r.violate("wedged", "after a Load that was given up the replica does not come to rest: "+err.Error(), nil, r.a.ReplStats())
		return
	}
	r.res.Comparisons++
	r.res.Stats["loads_given_up"]++
	got := r.logIDs()
	for _, id := range want {
		if !contains(got, id) {
			r.violate("missing", fmt.Sprintf("entry %d is not visible after a Load that was given up after %d block reads followed by a complete %s", id, passed, map[bool]string{false: "Load", true: "Sync of the same head"}[viaSync]), want, got)
			break
		}
	}
}

// unavailableLink (C10): an announcement mixes a valid head with a head of an authorised writer that links to a
// block nobody provides (the fetch of that block never completes). The valid heads of that announcement, and of
// honest announcements made afterwards, still become visible.
func (r *rpRun) unavailableLink(forged bool, nghost int) {
	if err := r.setup(fmt.Sprintf("unavail%v%d", forged, nghost)); err != nil {
		r.res.Inconclusive = append(r.res.Inconclusive, r.bid+": setup: "+err.Error())
		return
	}
	defer r.teardown()
	// the replicator bounds the fetch of one entry (a minute); the bound is shortened for this phase so that it is observed
	replFetchTimeout = 400 * time.Millisecond
	defer replicator.VerifSetFetchTimeout(replicator.VerifSetFetchTimeout(replFetchTimeout))
	r.res.Behaviours++
	ctx := context.Background()
	ghosts := []cid.Cid{}
	for i := 0; i < nghost; i++ {
		sum, _ := mh.Sum([]byte(fmt.Sprintf("block nobody provides %d", i)), mh.SHA2_256, -1)
		ghosts = append(ghosts, cid.NewCidV1(cid.DagCBOR, sum))
	}
	author, id, who := r.nodes["b"], r.nodes["b"].DB.Identity(), "an authorised writer"
	if forged {
		// the head names the authorised writer b as its author and is signed by m, who may not write: Sync lets it through
		// (it does not check signatures), the log would refuse it at the join
		fid, err := forgedIdentity(ctx, r.nodes["m"], r.nodes["b"].DB.Identity().ID, "orbitdb")
		if err != nil {
			r.res.Inconclusive = append(r.res.Inconclusive, r.bid+": "+err.Error())
			return
		}
		author, id, who = r.nodes["m"], fid, "a non-writer under a forged author"
	}
	u, err := mkEntry(ctx, author, id, r.a.Addr, kvOp("k-unavailable"), ghosts, 9)
	if err != nil {
		r.res.Inconclusive = append(r.res.Inconclusive, r.bid+": "+err.Error())
		return
	}
	visible := func(ids []int, d time.Duration) (int, bool) {
		deadline := time.Now().Add(d)
		for {
			got := r.logIDs()
			missing := -1
			for _, id := range ids {
				if !contains(got, id) {
					missing = id
					break
				}
			}
			if missing < 0 {
				return 0, true
			}
			if time.Now().After(deadline) {
				return missing, false
			}
			time.Sleep(20 * time.Millisecond)
		}
	}
	final := r.in.ReqHeads[fmt.Sprint(r.in.NReq)]
	want := r.reach(final)
	hs := []ipfslog.Entry{u}
	for _, id := range final {
		hs = append(hs, copyEntry(r.entries[id]))
	}
	_ = r.a.S.Sync(ctx, hs) // mixed announcement: the head with the unobtainable links first
	time.Sleep(300 * time.Millisecond)
	hs = hs[1:]
	for i := 0; i < 2; i++ {
		_ = r.a.S.Sync(ctx, hs) // honest re-announcements
		time.Sleep(100 * time.Millisecond)
	}
	r.res.Comparisons++
	r.res.Stats["unavailable_link_runs"]++
	if id, ok := visible(want, 6*time.Second+3*replFetchTimeout); !ok {
		r.violate("missing", fmt.Sprintf("a head by %s linking to %d block(s) nobody provides was announced together with valid heads %v; they were announced again, honestly, twice: entry %d never becomes visible (replicator: %+v)", who, nghost, final, id, r.a.ReplStats()), want, r.logIDs())
	}
}

// fetchErrors: while a request is being served the reads of some blocks fail (a transient error of the block
// store or of the provider); the reads work again and the request is made again, then a request for a newer head.
func (r *rpRun) fetchErrors(deny []int) {
	if err := r.setup(fmt.Sprintf("ferr%d", len(deny)*10+deny[0])); err != nil {
		r.res.Inconclusive = append(r.res.Inconclusive, r.bid+": setup: "+err.Error())
		return
	}
	defer r.teardown()
	defer r.observeReplicated()()
	r.res.Behaviours++
	pa := r.nodes["a"].P
	for _, id := range deny {
		pa.Deny(r.entries[id].GetHash())
	}
	heads := func(ids []int) []ipfslog.Entry {
		hs := []ipfslog.Entry{}
		for _, id := range ids {
			hs = append(hs, copyEntry(r.entries[id]))
		}
		return hs
	}
	first := r.in.ReqHeads["1"]
	final := r.in.ReqHeads[fmt.Sprint(r.in.NReq)]
	_ = r.a.S.Sync(context.Background(), heads(first))
	if err := sim.Settle(8*time.Second, r.nodes["a"]); err != nil {
		r.violate("wedged", fmt.Sprintf("after block reads failed (%v) the replica does not come to rest: %v", deny, err), nil, r.a.ReplStats())
		return
	}
	for _, id := range deny {
		pa.Allow(r.entries[id].GetHash())
	}
	_ = r.a.S.Sync(context.Background(), heads(first))
	if err := sim.Settle(8*time.Second, r.nodes["a"]); err != nil {
		r.violate("wedged", fmt.Sprintf("after the request was made again the replica does not come to rest: %v", err), nil, r.a.ReplStats())
		return
	}
	r.res.Comparisons++
	want, got := r.reach(first), r.logIDs()
	for _, id := range want {
		if !contains(got, id) {
			r.violate("missing", fmt.Sprintf("the reads of blocks %v failed while the request for heads %v was served; they work again and the request was made again: entry %d never becomes visible", deny, first, id), want, got)
			return
		}
	}
	r.viewShowsLog(fmt.Sprintf("after the reads of blocks %v failed and the request was made again", deny))
	_ = r.a.S.Sync(context.Background(), heads(final))
	if err := sim.Settle(8*time.Second, r.nodes["a"]); err != nil {
		r.violate("wedged", fmt.Sprintf("after a request for newer heads the replica does not come to rest: %v", err), nil, r.a.ReplStats())
		return
	}
	r.res.Comparisons++
	want, got = r.reach(final), r.logIDs()
	for _, id := range want {
		if !contains(got, id) {
			r.violate("missing", fmt.Sprintf("after failed block reads (%v) and a request for newer heads %v entry %d never becomes visible", deny, final, id), want, got)
			return
		}
	}
	r.viewShowsLog(fmt.Sprintf("after failed block reads (%v) and a request for newer heads", deny))
}

// longOutage: a request is made while nobody provides the blocks; the outage lasts long (fetches that give up
// after a while must not count as done); then the provider is back and the request is made again.
func (r *rpRun) longOutage(d time.Duration) {
	if err := r.setup("outage"); err != nil {
		r.res.Inconclusive = append(r.res.Inconclusive, r.bid+": setup: "+err.Error())
		return
	}
	defer r.teardown()
	r.res.Behaviours++
	a := r.nodes["a"].P.Name
	for _, n := range []string{"b", "c", "m"} {
		r.w.Cut(a, r.nodes[n].P.Name)
	}
	final := r.in.ReqHeads[fmt.Sprint(r.in.NReq)]
	heads := func() []ipfslog.Entry {
		hs := []ipfslog.Entry{}
		for _, id := range final {
			hs = append(hs, copyEntry(r.entries[id]))
		}
		return hs
	}
	ctx1, cancel1 := context.WithCancel(context.Background())
	_ = r.a.S.Sync(ctx1, heads())
	time.Sleep(500 * time.Millisecond)
	cancel1() // the caller gives up; the outage goes on
	time.Sleep(d)
	for _, n := range []string{"b", "c", "m"} {
		r.w.Heal(a, r.nodes[n].P.Name)
	}
	for _, m := range r.w.Bag() {
		r.w.Take(m.ID)
	}
	_ = r.a.S.Sync(context.Background(), heads())
	if err := sim.Settle(8*time.Second, r.nodes["a"]); err != nil {
		r.violate("wedged", fmt.Sprintf("after an outage of %s the replica does not come to rest: %v", d, err), nil, r.a.ReplStats())
		return
	}
	r.res.Comparisons++
	want, got := r.reach(final), r.logIDs()
	for _, id := range want {
		if !contains(got, id) {
			r.violate("missing", fmt.Sprintf("entry %d never becomes visible after the blocks had been unobtainable for %s and the request was made again", id, d), want, got)
			break
		}
	}
}

func replicatorCmd(args []string) int {
	in := &ReplInput{}
	if len(args) < 2 || readJSON(args[0], in) != nil {
		fmt.Fprintln(os.Stderr, "usage: vh replicator <in.json> <out.json>")
		return 2
	}
	if err := sim.Install(); err != nil {
		fmt.Fprintln(os.Stderr, err)
		return 2
	}
	res := newResult("replicator")
	for i, b := range in.Behaviours {
		r := &rpRun{in: in, res: res, bid: b.ID}
		r.run(b, i)
	}
	if in.Dag == "B" || in.Dag == "A" {
		for _, c := range []struct {
			forged bool
			n      int
		}{{false, 1}, {false, 40}, {true, 1}, {true, 40}} {
			r := &rpRun{in: in, res: res, bid: fmt.Sprintf("unavailable-link-forged=%v-n=%d", c.forged, c.n)}
			r.unavailableLink(c.forged, c.n)
		}
	}
	if in.Dag == "A" || in.Dag == "G" || in.Dag == "H" {
		for _, deny := range [][]int{{2}, {1}, {1, 2}, {3}} {
			r := &rpRun{in: in, res: res, bid: fmt.Sprintf("fetch-error-%v", deny)}
			r.fetchErrors(deny)
		}
	}
	if in.LongOutage > 0 && in.Dag == "A" {
		r := &rpRun{in: in, res: res, bid: "long-outage"}
		r.longOutage(time.Duration(in.LongOutage) * time.Second)
	}
	return res.write(args[1])
}
