package main

import (
	"context"
	"encoding/json"
	"fmt"
	"math/rand"
	"os"
	"sync"
	"time"

	p2ppubsub "github.com/libp2p/go-libp2p-pubsub"
	pspb "github.com/libp2p/go-libp2p-pubsub/pb"
	"github.com/libp2p/go-libp2p/core/host"
	"github.com/libp2p/go-libp2p/core/peer"
	mocknet "github.com/libp2p/go-libp2p/p2p/net/mock"

	"berty.tech/go-orbit-db/iface"
	"berty.tech/go-orbit-db/pubsub/pubsubraw"
)

func init() { commands["pubsubraw"] = pubsubRawCmd }

// RawInput: free-running executions of the pubsubraw adapter over real libp2p pubsub (gossipsub on a mock
// network); what the adapter of the observing peer reports is written as a trace that TLC validates against
// spec/TransportTrace.tla.
type RawInput struct {
	Property string `json:"property"`
	Seed     int64  `json:"seed"`
	Runs     int    `json:"runs"`
	Steps    int    `json:"steps"`
	TraceOut string `json:"trace_out"`
}

type rawPeer struct {
	name  string
	h     host.Host
	ps    iface.PubSubInterface
	topic iface.PubSubTopic
	// subscription state of the remote peers (driver's ground truth)
	joined bool
	cancel context.CancelFunc
}

// rawTruth records what the local peer's libp2p pubsub itself did (its event tracer): which payloads it handed to
// local subscriptions and which subscription announcements it received. The adapter is judged against this, not
// against what gossipsub should ideally have delivered.
type rawTruth struct {
	mu        sync.Mutex
	delivered map[string]bool         // message id (= payload) -> handed to local subscribers
	subs      map[string]map[bool]int // peer id -> subscribe? -> announcements received for the topic
}

func (t *rawTruth) Trace(evt *pspb.TraceEvent) {
	t.mu.Lock()
	defer t.mu.Unlock()
	switch evt.GetType() {
	case pspb.TraceEvent_DELIVER_MESSAGE:
		t.delivered[string(evt.GetDeliverMessage().GetMessageID())] = true
	case pspb.TraceEvent_RECV_RPC:
		r := evt.GetRecvRPC()
		for _, sm := range r.GetMeta().GetSubscription() {
			if sm.GetTopic() == "t" {
				from := string(r.GetReceivedFrom())
				if t.subs[from] == nil {
					t.subs[from] = map[bool]int{}
				}
				t.subs[from][sm.GetSubscribe()]++
			}
		}
	}
}

func (t *rawTruth) sawDelivery(payload string) bool {
	t.mu.Lock()
	defer t.mu.Unlock()
	return t.delivered[payload]
}

func (t *rawTruth) announcements(p peer.ID, subscribe bool) int {
	t.mu.Lock()
	defer t.mu.Unlock()
	return t.subs[string(p)][subscribe]
}

func pubsubRawCmd(args []string) int {
	in := &RawInput{}
	if len(args) < 2 || readJSON(args[0], in) != nil {
		fmt.Fprintln(os.Stderr, "usage: vh pubsubraw <in.json> <out.json>")
		return 2
	}
	res := newResult("pubsubraw")
	var enc *json.Encoder
	if in.TraceOut != "" {
		f, err := os.Create(in.TraceOut)
		if err != nil {
			fmt.Fprintln(os.Stderr, err)
			return 2
		}
		defer f.Close()
		enc = json.NewEncoder(f)
		res.TraceFile = in.TraceOut
	}
	for run := 0; run < in.Runs; run++ {
		rawRun(in, res, enc, run)
	}
	return res.write(args[1])
}

func rawRun(in *RawInput, res *Result, enc *json.Encoder, run int) {
	bid := fmt.Sprintf("raw-%d", run)
	rng := rand.New(rand.NewSource(in.Seed*7717 + int64(run)))
	ctx, cancel := context.WithCancel(context.Background())
	defer cancel()
	viol := func(step int, kind, detail string, exp, got interface{}) {
		res.violate(Violation{Property: in.Property, Kind: kind, Behaviour: bid, Step: step, Detail: detail, Expected: exp, Got: got})
	}
	mn, err := mocknet.FullMeshConnected(3)
	if err != nil {
		res.Inconclusive = append(res.Inconclusive, bid+": mocknet: "+err.Error())
		return
	}
	defer mn.Close()
	truth := &rawTruth{delivered: map[string]bool{}, subs: map[string]map[bool]int{}}
	names := []string{"me", "p1", "p2"}
	peers := map[string]*rawPeer{}
	byID := map[peer.ID]string{}
	for i, h := range mn.Hosts() {
		opts := []p2ppubsub.Option{p2ppubsub.WithMessageIdFn(func(m *pspb.Message) string { return string(m.GetData()) })}
		if run%2 == 1 {
			// anonymous pubsub: messages carry no author and no signature, the author field does not tell whose they are
			opts = append(opts, p2ppubsub.WithMessageSignaturePolicy(p2ppubsub.StrictNoSign), p2ppubsub.WithNoAuthor())
		}
		if i == 0 {
			opts = append(opts, p2ppubsub.WithEventTracer(truth))
		}
		g, err := p2ppubsub.NewGossipSub(ctx, h, opts...)
		if err != nil {
			res.Inconclusive = append(res.Inconclusive, bid+": gossipsub: "+err.Error())
			return
		}
		peers[names[i]] = &rawPeer{name: names[i], h: h, ps: pubsubraw.NewPubSub(g, h.ID(), nil, nil)}
		byID[h.ID()] = names[i]
	}
	emit := func(ev map[string]interface{}) {
		if enc != nil {
			_ = enc.Encode(ev)
		}
	}
	emit(map[string]interface{}{"ev": "Reset"})
	me := peers["me"]
	if me.topic, err = me.ps.TopicSubscribe(ctx, "t"); err != nil {
		res.Inconclusive = append(res.Inconclusive, bid+": "+err.Error())
		return
	}
	peersCh, err := me.topic.WatchPeers(ctx)
	if err != nil {
		res.Inconclusive = append(res.Inconclusive, bid+": "+err.Error())
		return
	}
	msgCh, err := me.topic.WatchMessages(ctx)
	if err != nil {
		res.Inconclusive = append(res.Inconclusive, bid+": "+err.Error())
		return
	}
	res.Behaviours++
	// observer: what the adapter reports, in the order it reports it
	var mu sync.Mutex
	type obs struct {
		kind, who string
	}
	var seen []obs
	go func() {
		for {
			select {
			case e, ok := <-peersCh:
				if !ok {
					return
				}
				mu.Lock()
				switch evt := e.(type) {
				case *iface.EventPubSubJoin:
					seen = append(seen, obs{"join", byID[evt.Peer]})
				case *iface.EventPubSubLeave:
					seen = append(seen, obs{"leave", byID[evt.Peer]})
				}
				mu.Unlock()
			case m, ok := <-msgCh:
				if !ok {
					return
				}
				mu.Lock()
				seen = append(seen, obs{"msg", string(m.Content)})
				mu.Unlock()
			case <-ctx.Done():
				return
			}
		}
	}()
	taken := 0
	// waitFor waits until the adapter has reported an observation of that kind and value; everything it reported
	// up to there is written to the trace in the order it was reported
	flush := func() {
		mu.Lock()
		defer mu.Unlock()
		for ; taken < len(seen); taken++ {
			o := seen[taken]
			if o.kind == "msg" {
				emit(map[string]interface{}{"ev": "Deliver", "payload": o.who})
			} else {
				emit(map[string]interface{}{"ev": "Report", "kind": o.kind, "peer": o.who})
			}
		}
	}
	waitFor := func(kind, who string, d time.Duration) bool {
		deadline := time.Now().Add(d)
		for time.Now().Before(deadline) {
			mu.Lock()
			found := false
			for _, o := range seen[taken:] {
				if o.kind == kind && o.who == who {
					found = true
				}
			}
			mu.Unlock()
			if found {
				flush()
				return true
			}
			time.Sleep(5 * time.Millisecond)
		}
		flush()
		return false
	}
	nmsg := 0
	for step := 0; step < in.Steps; step++ {
		p := peers[[]string{"p1", "p2"}[rng.Intn(2)]]
		switch c := rng.Intn(10); {
		case c < 3 && !p.joined:
			// the remote peer joins the topic and reads it
			pctx, pcancel := context.WithCancel(ctx)
			t, err := p.ps.TopicSubscribe(pctx, "t")
			if err != nil {
				pcancel()
				res.Inconclusive = append(res.Inconclusive, bid+": "+err.Error())
				return
			}
			p.topic, p.cancel, p.joined = t, pcancel, true
			ch, err := t.WatchMessages(pctx)
			if err != nil {
				res.Inconclusive = append(res.Inconclusive, bid+": "+err.Error())
				return
			}
			go func() {
				for range ch {
				}
			}()
			emit(map[string]interface{}{"ev": "Join", "peer": p.name})
			res.Comparisons++
			before := truth.announcements(p.h.ID(), true)
			_ = before
			if !waitFor("join", p.name, 6*time.Second) {
				if truth.announcements(p.h.ID(), true) == 0 {
					res.note("%s step %d: the subscription of %s never reached the local peer's pubsub; run abandoned", bid, step, p.name)
					emit(map[string]interface{}{"ev": "Abandon"})
					return
				}
				viol(step, "membership", fmt.Sprintf("peer %s joined the topic (its subscription reached the local pubsub) and the adapter never reported it", p.name), nil, nil)
				return
			}
		case c < 5 && p.joined:
			// the remote peer stops reading: its subscription ends
			p.cancel()
			p.joined = false
			emit(map[string]interface{}{"ev": "Leave", "peer": p.name})
			res.Comparisons++
			if !waitFor("leave", p.name, 6*time.Second) {
				if truth.announcements(p.h.ID(), false) == 0 {
					res.note("%s step %d: the unsubscription of %s never reached the local peer's pubsub; run abandoned", bid, step, p.name)
					emit(map[string]interface{}{"ev": "Abandon"})
					return
				}
				viol(step, "membership", fmt.Sprintf("peer %s left the topic (its unsubscription reached the local pubsub) and the adapter never reported it", p.name), nil, nil)
				return
			}
		case c < 9 && p.joined:
			nmsg++
			payload := fmt.Sprintf("%s-%04d", p.name, nmsg)
			if err := p.topic.Publish(ctx, []byte(payload)); err != nil {
				res.note("%s step %d: publish: %v", bid, step, err)
				continue
			}
			res.Comparisons++
			// gossipsub is best effort: the adapter answers for what the local pubsub handed to its subscribers
			deadline := time.Now().Add(3 * time.Second)
			for !truth.sawDelivery(payload) && time.Now().Before(deadline) {
				time.Sleep(2 * time.Millisecond)
			}
			if !truth.sawDelivery(payload) {
				res.Stats["not_delivered_by_pubsub"]++
				continue
			}
			emit(map[string]interface{}{"ev": "Publish", "peer": p.name, "payload": payload})
			if !waitFor("msg", payload, 4*time.Second) {
				viol(step, "message", fmt.Sprintf("payload %q published by %s was handed to the local subscribers by libp2p pubsub and never delivered by the adapter", payload, p.name), nil, nil)
				return
			}
		default:
			// the local peer publishes: nothing may come back
			nmsg++
			payload := fmt.Sprintf("me-%04d", nmsg)
			emit(map[string]interface{}{"ev": "Publish", "peer": "me", "payload": payload})
			if err := me.topic.Publish(ctx, []byte(payload)); err != nil {
				res.note("%s step %d: publish: %v", bid, step, err)
			}
			time.Sleep(30 * time.Millisecond)
			flush()
		}
		res.Steps++
	}
	time.Sleep(100 * time.Millisecond)
	flush()
	res.Traces++
}
