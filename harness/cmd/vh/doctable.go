package main

import (
	"context"
	"fmt"
	"math/rand"
	"os"
	"sort"
	"strings"

	orbitdb "berty.tech/go-orbit-db"
	"berty.tech/go-orbit-db/iface"
	"verif/harness/sim"
)

func init() { commands["doctable"] = docTableCmd }

// DocRow is one row of the table TLC evaluated from spec/DocTable.tla.
type DocRow struct {
	State   [][]string `json:"state"`
	Search  []string   `json:"search"`
	CI      bool       `json:"ci"`
	Partial bool       `json:"partial"`
	Res     [][]string `json:"res"`
}

type DocTableInput struct {
	Property string   `json:"property"`
	Seed     int64    `json:"seed"`
	Rows     []DocRow `json:"rows"`
	AllKeys  []string `json:"all_keys"`
}

func joinKeys(ks [][]string) []string {
	out := []string{}
	for _, k := range ks {
		out = append(out, strings.Join(k, ""))
	}
	sort.Strings(out)
	return out
}

func docTableCmd(args []string) int {
	in := &DocTableInput{}
	if len(args) < 2 || readJSON(args[0], in) != nil {
		fmt.Fprintln(os.Stderr, "usage: vh doctable <in.json> <out.json>")
		return 2
	}
	if err := sim.Install(); err != nil {
		fmt.Fprintln(os.Stderr, err)
		return 2
	}
	res := newResult("doctable")
	ctx := context.Background()
	byState := map[string][]DocRow{}
	order := []string{}
	for _, row := range in.Rows {
		k := strings.Join(joinKeys(row.State), "|")
		if _, ok := byState[k]; !ok {
			order = append(order, k)
		}
		byState[k] = append(byState[k], row)
	}
	w := sim.NewWorld()
	node, err := w.AddPeer("doctable").Start("")
	if err != nil {
		fmt.Fprintln(os.Stderr, err)
		return 2
	}
	defer node.Close()
	rng := rand.New(rand.NewSource(in.Seed))
	for si, sk := range order {
		rows := byState[sk]
		state := joinKeys(rows[0].State)
		bid := "state{" + strings.Join(state, ",") + "}"
		viol := func(kind, detail string, exp, got interface{}) {
			res.violate(Violation{Property: in.Property, Kind: kind, Behaviour: bid, Step: si, Detail: detail, Expected: exp, Got: got})
		}
		ref, err := node.Open(fmt.Sprintf("docs-%d", si), "docstore", nil)
		if err != nil {
			res.Inconclusive = append(res.Inconclusive, bid+": "+err.Error())
			continue
		}
		ds := ref.S.(orbitdb.DocumentStore)
		res.Behaviours++
		// reach the state through a seeded mix of Put, PutAll, PutBatch and Delete
		doc := func(k string, v int) map[string]interface{} { return map[string]interface{}{"_id": k, "v": v} }
		extra := []string{}
		for _, k := range in.AllKeys {
			present := false
			for _, s := range state {
				present = present || s == k
			}
			if !present && rng.Intn(3) == 0 {
				extra = append(extra, k) // written, then deleted again
			}
		}
		all := append(append([]string{}, state...), extra...)
		rng.Shuffle(len(all), func(i, j int) { all[i], all[j] = all[j], all[i] })
		for i := 0; i < len(all); {
			var err error
			switch rng.Intn(3) {
			case 0:
				_, err = ds.Put(ctx, doc(all[i], 1))
				i++
			case 1:
				j := i + 1 + rng.Intn(2)
				if j > len(all) {
					j = len(all)
				}
				batch := []interface{}{}
				for _, k := range all[i:j] {
					batch = append(batch, doc(k, 1))
				}
				_, err = ds.PutAll(ctx, batch)
				i = j
			default:
				j := i + 1 + rng.Intn(2)
				if j > len(all) {
					j = len(all)
				}
				batch := []interface{}{}
				for _, k := range all[i:j] {
					batch = append(batch, doc(k, 1))
				}
				_, err = ds.PutBatch(ctx, batch)
				i = j
			}
			if err != nil {
				viol("write-error", "document write failed: "+err.Error(), nil, nil)
			}
		}
		for _, k := range extra {
			if _, err := ds.Delete(ctx, k); err != nil {
				viol("write-error", "Delete of a present key failed: "+err.Error(), nil, nil)
			}
		}
		// the values of half of the keys are overwritten (latest operation wins)
		val := map[string]int{}
		for _, k := range state {
			val[k] = 1
			if rng.Intn(2) == 0 {
				val[k] = 2
				if rng.Intn(2) == 0 {
					_, err = ds.Put(ctx, doc(k, 2))
				} else {
					_, err = ds.PutAll(ctx, []interface{}{doc(k, 2)})
				}
				if err != nil {
					viol("write-error", err.Error(), nil, nil)
				}
			}
		}
		// deleting an absent key is refused and changes nothing
		for _, k := range in.AllKeys {
			present := false
			for _, s := range state {
				present = present || s == k
			}
			if present {
				continue
			}
			n := ref.S.OpLog().Len()
			res.Comparisons++
			if _, err := ds.Delete(ctx, k); err == nil {
				viol("delete-absent", fmt.Sprintf("Delete of the absent key %q succeeded", k), nil, nil)
			} else if ref.S.OpLog().Len() != n {
				viol("delete-absent", "a refused Delete changed the log", n, ref.S.OpLog().Len())
			}
		}
		keysOfDocs := func(docs []interface{}) []string {
			out := []string{}
			for _, d := range docs {
				m, _ := d.(map[string]interface{})
				out = append(out, asStr(m["_id"]))
			}
			sort.Strings(out)
			return out
		}
		for _, row := range rows {
			search := strings.Join(row.Search, "")
			want := joinKeys(row.Res)
			docs, err := ds.Get(ctx, search, &iface.DocumentStoreGetOptions{CaseInsensitive: row.CI, PartialMatches: row.Partial})
			res.Comparisons++
			res.Stats["docget_queries"]++
			what := fmt.Sprintf("Get(%q, caseInsensitive=%v, partial=%v) on %s", search, row.CI, row.Partial, bid)
			if err != nil {
				viol("docget", what+" failed: "+err.Error(), want, nil)
				continue
			}
			got := keysOfDocs(docs)
			if fmt.Sprint(got) != fmt.Sprint(want) {
				viol("docget", what+" returns other documents", want, got)
			}
			for _, d := range docs {
				m, _ := d.(map[string]interface{})
				if asInt(m["v"]) != val[asStr(m["_id"])] {
					viol("docget", what+" returns a stale document value", val[asStr(m["_id"])], m["v"])
				}
			}
		}
		// Query with a small family of predicates
		preds := map[string]func(k string, v int) bool{
			"always":   func(string, int) bool { return true },
			"never":    func(string, int) bool { return false },
			"value=2":  func(_ string, v int) bool { return v == 2 },
			"key-in-S": func(k string, _ int) bool { return strings.ContainsAny(k, "aA") },
		}
		for pn, p := range preds {
			want := []string{}
			for _, k := range state {
				if p(k, val[k]) {
					want = append(want, k)
				}
			}
			sort.Strings(want)
			docs, err := ds.Query(ctx, func(d interface{}) (bool, error) {
				m, _ := d.(map[string]interface{})
				return p(asStr(m["_id"]), asInt(m["v"])), nil
			})
			res.Comparisons++
			if err != nil {
				viol("docquery", "Query("+pn+") failed: "+err.Error(), want, nil)
				continue
			}
			if got := keysOfDocs(docs); fmt.Sprint(got) != fmt.Sprint(want) {
				viol("docquery", "Query("+pn+") on "+bid+" returns other documents", want, got)
			}
		}
		if len(res.Samples) < 3 && len(state) > 2 {
			res.Samples = append(res.Samples, map[string]interface{}{"state": state, "written_then_deleted": extra, "rows": len(rows)})
		}
		res.Steps += len(rows)
		_ = ref.S.Close()
	}
	return res.write(args[1])
}
