package main

import (
	"context"
	"fmt"
	"time"

	ipfslog "berty.tech/go-ipfs-log"
	"berty.tech/go-ipfs-log/identityprovider"
	orbitdb "berty.tech/go-orbit-db"
	"berty.tech/go-orbit-db/address"
	"berty.tech/go-orbit-db/iface"
	"berty.tech/go-orbit-db/stores/basestore"
	"berty.tech/go-orbit-db/stores/documentstore"
	"berty.tech/go-orbit-db/stores/eventlogstore"
	"berty.tech/go-orbit-db/stores/kvstore"
	"berty.tech/go-orbit-db/stores/operation"
	coreiface "github.com/ipfs/kubo/core/coreiface"
	"verif/harness/sim"
)

// C15: load with a limit. For one replica of a finished behaviour, a fresh
// instance is started on a copy of its durable state and Load(n) is called,
// per call or through the MaxHistory store option.

func baseCtor(stype string) iface.StoreConstructor {
	switch stype {
	case "kv":
		return kvstore.NewOrbitDBKeyValue
	case "doc":
		return documentstore.NewOrbitDBDocumentStore
	}
	return eventlogstore.NewOrbitDBEventLogStore
}

// limitedLoad returns the listing (spec ids) after Load on a clone of the peer's durable state.
func (r *coreRun) limitedLoad(name string, n int, viaMaxHistory bool) ([]int, error) {
	p := r.c.nodes[name].P
	q := p.CloneDurable(p.EffectCount())
	node, err := q.Start("")
	if err != nil {
		return nil, fmt.Errorf("start: %w", err)
	}
	defer node.Close()
	amount := n
	if viaMaxHistory {
		mh := n
		ctor := baseCtor(r.in.Type)
		node.DB.RegisterStoreType(realType(r.in.Type), func(ipfs coreiface.CoreAPI, id *identityprovider.Identity, addr address.Address, o *iface.NewStoreOptions) (iface.Store, error) {
			o.MaxHistory = &mh
			return ctor(ipfs, id, addr, o)
		})
		amount = 0
	}
	ref, err := node.Open(r.c.addr, realType(r.in.Type), &orbitdb.CreateDBOptions{Timeout: 3 * time.Second})
	if err != nil {
		return nil, fmt.Errorf("open: %w", err)
	}
	full := r.c.listing(name)
	mark("%s: replica %s Load(%d) maxHistory=%v on a log of %d entries", r.bid, name, n, viaMaxHistory, len(full))
	ctx, cancel := context.WithTimeout(context.Background(), 10*time.Second)
	defer cancel()
	if err := ref.S.Load(ctx, amount); err != nil {
		return nil, fmt.Errorf("load: %w", err)
	}
	out := []int{}
	for _, e := range ref.S.OpLog().Values().Slice() {
		id, ok := r.c.ids[e.GetHash().String()]
		if !ok {
			id = -1
		}
		out = append(out, id)
	}
	if r.in.Type == "log" {
		all := -1
		ops, err := ref.S.(orbitdb.EventLogStore).List(ctx, &iface.StreamOptions{Amount: &all})
		if err != nil {
			return nil, fmt.Errorf("list: %w", err)
		}
		l := []int{}
		for _, op := range ops {
			l = append(l, r.c.ids[op.GetEntry().GetHash().String()])
		}
		if !eqInts(l, out) {
			return nil, fmt.Errorf("List(-1) %v differs from the log listing %v after a limited load", l, out)
		}
		// the same instance then loads without a limit: everything is there
		extras := n == 1 || n == len(full)/2 || n == len(full)-1 || n == len(full)+1
		if extras && !viaMaxHistory && len(out) > 0 && r.bid[len(r.bid)-1]%2 == 0 {
			if err := ref.S.Load(ctx, -1); err != nil {
				return nil, fmt.Errorf("unlimited load after a limited one: %w", err)
			}
			r.res.Stats["limited_then_full"]++
			if got := ref.S.OpLog().Len(); got != len(full) {
				return nil, fmt.Errorf("after Load(%d) and then Load(-1) on the same instance the log holds %d of %d entries", n, got, len(full))
			}
			return out, nil
		}
		// the same instance writes once more and loads with the same limit again: the window moves with the log
		if extras && !viaMaxHistory && len(out) > 0 {
			op, err := ref.S.(orbitdb.EventLogStore).Add(ctx, []byte("after-limited-load"))
			if err != nil {
				return nil, fmt.Errorf("write after a limited load: %w", err)
			}
			if err := ref.S.Load(ctx, amount); err != nil {
				return nil, fmt.Errorf("second load: %w", err)
			}
			ops, err := ref.S.(orbitdb.EventLogStore).List(ctx, &iface.StreamOptions{Amount: &all})
			if err != nil {
				return nil, fmt.Errorf("list: %w", err)
			}
			want := n
			if len(full)+1 < want {
				want = len(full) + 1
			}
			r.res.Stats["limited_reloads"]++
			if len(ops) != want || !ops[len(ops)-1].GetEntry().GetHash().Equals(op.GetEntry().GetHash()) {
				got := []string{}
				for _, o := range ops {
					got = append(got, string(o.GetValue()))
				}
				return nil, fmt.Errorf("after one more write and a second Load(%d) on the same instance the listing has %d entries (expected %d) and must end with the entry just written: %v", n, len(ops), want, got)
			}
		}
	}
	return out, nil
}

func (r *coreRun) loadLimits() {
	for _, name := range r.c.names {
		full := r.c.listing(name)
		tot := len(full)
		if tot == 0 {
			continue
		}
		single := true
		for _, id := range full {
			if e, ok := r.c.entries[id]; ok && string(e.GetClock().GetID()) != string(r.c.entries[full[0]].GetClock().GetID()) {
				single = false
			}
		}
		pos := map[int]int{}
		for i, id := range full {
			pos[id] = i
		}
		for n := -2; n <= tot+2; n++ {
			for _, mh := range []bool{false, true} {

				r.step = n
				got, err := r.limitedLoad(name, n, mh)
				r.res.Comparisons++
				r.res.Stats["limited_loads"]++
				what := fmt.Sprintf("replica %s, %d entries, Load(%d) maxHistory=%v", name, tot, n, mh)
				if err != nil {
					r.violate("limit-error", what+": "+err.Error(), nil, nil)
					continue
				}
				if n <= 0 {
					if !eqInts(got, full) {
						r.violate("limit-all", what+": a non-positive limit must load everything", full, got)
					}
					continue
				}
				k := n
				if k > tot {
					k = tot
				}
				if len(got) != k {
					r.violate("limit-count", fmt.Sprintf("%s: %d entries visible, expected min(n, total) = %d", what, len(got), k), k, got)
					continue
				}
				last := -1
				ordered, known := true, true
				for _, id := range got {
					p, ok := pos[id]
					if !ok {
						known = false
						break
					}
					if p <= last {
						ordered = false
					}
					last = p
				}
				if !known {
					r.violate("limit-phantom", what+": an entry that is not in the persisted log is listed", full, got)
				} else if !ordered {
					r.violate("limit-order", what+": entries listed out of log order", full, got)
				} else if got[len(got)-1] != full[tot-1] {
					r.violate("limit-newest", what+": the newest entry is not included", full[tot-1], got)
				} else if single && !eqInts(got, full[tot-k:]) {
					r.violate("limit-recent", what+": single-writer log, expected the n most recent entries", full[tot-k:], got)
				}
			}
		}
	}
}

// loadThenSync (C01/C06): a fresh instance on a copy of the replica's durable state loads only the n most
// recent entries, then receives an older entry as a head (Sync): once it holds the same entries as the
// replica it was copied from, its listing and view must be the same.
func (r *coreRun) loadThenSync() {
	for _, name := range r.c.names {
		full := r.c.listing(name)
		tot := len(full)
		if tot < 2 {
			continue
		}
		var wantView map[string]string
		if r.in.Type != "log" {
			v, err := r.view(name)
			if err != nil {
				continue
			}
			wantView = v
		}
		kind := "convergence"
		if r.in.Property == "C06" {
			kind = "view" // the replica copied from has just been compared with the replay of its log
		}
		tried := map[int]bool{}
		for _, n := range []int{1, tot / 2, tot - 1} {
			if n < 1 || n >= tot || tried[n] {
				continue
			}
			tried[n] = true
			r.step = -100 - n
			func() {
				p := r.c.nodes[name].P
				q := p.CloneDurable(p.EffectCount())
				node, err := q.Start("")
				if err != nil {
					r.res.Inconclusive = append(r.res.Inconclusive, r.bid+": load-then-sync start: "+err.Error())
					return
				}
				defer node.Close()
				ref, err := node.Open(r.c.addr, realType(r.in.Type), &orbitdb.CreateDBOptions{Timeout: 3 * time.Second})
				if err != nil {
					r.res.Inconclusive = append(r.res.Inconclusive, r.bid+": load-then-sync open: "+err.Error())
					return
				}
				mark("%s: copy of replica %s Load(%d) of %d entries, then Sync of the older entries", r.bid, name, n, tot)
				ctx, cancel := context.WithTimeout(context.Background(), 10*time.Second)
				defer cancel()
				if err := ref.S.Load(ctx, n); err != nil {
					r.res.Inconclusive = append(r.res.Inconclusive, fmt.Sprintf("%s: load-then-sync: replica %s Load(%d): %v", r.bid, name, n, err))
					return
				}
				held := map[int]bool{}
				for _, e := range ref.S.OpLog().Values().Slice() {
					held[r.c.ids[e.GetHash().String()]] = true
				}
				// every entry it does not hold is handed over as a head, most recent first, in one Sync
				heads := []ipfslog.Entry{}
				for i := tot - 1; i >= 0; i-- {
					if !held[full[i]] {
						heads = append(heads, copyEntry(r.c.entries[full[i]]))
					}
				}
				if len(heads) == 0 {
					return
				}
				if err := ref.S.Sync(ctx, heads); err != nil {
					r.violate("sync-error", "Sync of valid older entries failed: "+err.Error(), nil, nil)
					return
				}
				if err := sim.Settle(settleTimeout, node); err != nil {
					r.res.Inconclusive = append(r.res.Inconclusive, r.bid+": load-then-sync: "+err.Error())
					return
				}
				r.res.Comparisons++
				r.res.Stats["load_then_sync"]++
				got := []int{}
				for _, e := range ref.S.OpLog().Values().Slice() {
					got = append(got, r.c.ids[e.GetHash().String()])
				}
				what := fmt.Sprintf("copy of replica %s after Load(%d) and Sync of the %d older entries", name, n, len(heads))
				if !eqInts(got, full) {
					r.violate("convergence", what+": does not list the log of the replica it was copied from", full, got)
					return
				}
				if r.in.Type == "log" {
					return
				}
				saved := r.c.refs[name]
				r.c.refs[name] = ref
				v, err := r.view(name)
				r.c.refs[name] = saved
				if err != nil {
					r.violate("view-error", what+": "+err.Error(), nil, nil)
					return
				}
				if !eqStrMap(v, wantView) {
					r.violate(kind, what+": holds the same entries as the replica it was copied from but shows a different view", wantView, v)
				}
			}()
		}
	}
}

// ---------------------------------------------------------------------------
// C13: snapshots

type snapState struct {
	listing []int
	heads   []int
	view    map[string]string
}

func (r *coreRun) stateOf(ref *sim.StoreRef, c *cluster) snapState {
	st := snapState{listing: []int{}, heads: []int{}}
	for _, e := range ref.S.OpLog().Values().Slice() {
		id, ok := c.ids[e.GetHash().String()]
		if !ok {
			id = -1
		}
		st.listing = append(st.listing, id)
	}
	for _, e := range ref.S.OpLog().Heads().Slice() {
		st.heads = append(st.heads, c.ids[e.GetHash().String()])
	}
	st.heads = sortedInts(st.heads)
	return st
}

// snapshotOf saves a snapshot of the replica and loads it into a fresh store
// object running on a copy of the replica's durable state.
func (r *coreRun) snapshotOf(name string, what string, allowExtra []int) {
	ctx, cancel := context.WithTimeout(context.Background(), 20*time.Second)
	defer cancel()
	ref := r.c.refs[name]
	saved := r.stateOf(ref, r.c)
	var savedView map[string]string
	if r.in.Type != "log" {
		savedView, _ = r.view(name)
	}
	r.res.Comparisons++
	r.res.Stats["snapshots"]++
	mark("%s: %s: SaveSnapshot on replica %s (%d entries)", r.bid, what, name, len(saved.listing))
	_, err := basestore.SaveSnapshot(ctx, ref.S)
	if err != nil {
		r.res.Stats["snapshot_save_errors"]++
		return // "or saving fails"
	}
	p := r.c.nodes[name].P
	q := p.CloneDurable(p.EffectCount())
	node, err := q.Start("")
	if err != nil {
		r.res.Inconclusive = append(r.res.Inconclusive, r.bid+": snapshot: "+err.Error())
		return
	}
	defer node.Close()
	ref2, err := node.Open(r.c.addr, realType(r.in.Type), &orbitdb.CreateDBOptions{Timeout: 3 * time.Second})
	if err != nil {
		r.violate("snapshot-silent", what+": database cannot be reopened after saving a snapshot: "+err.Error(), nil, nil)
		return
	}
	mark("%s: %s: LoadFromSnapshot of replica %s (%d entries)", r.bid, what, name, len(saved.listing))
	loaded := make(chan error, 1)
	go func() { loaded <- ref2.S.LoadFromSnapshot(ctx) }()
	select {
	case err = <-loaded:
	case <-time.After(10 * time.Second):
		r.violate("snapshot-silent", fmt.Sprintf("%s: SaveSnapshot of replica %s (%d entries) succeeded but LoadFromSnapshot on a fresh instance never returns", what, name, len(saved.listing)), nil, nil)
		return
	}
	if err != nil {
		r.violate("snapshot-silent", fmt.Sprintf("%s: SaveSnapshot of replica %s (%d entries) succeeded but the snapshot cannot be loaded: %v", what, name, len(saved.listing), err), nil, nil)
		return
	}
	if err := sim.Settle(5*time.Second, node); err != nil {
		r.res.note("%s: %s: settle after LoadFromSnapshot: %v", r.bid, what, err)
	}
	got := r.stateOf(ref2, r.c)
	// entries queued for replication at save time may legitimately have arrived as well
	strip := func(l []int) []int {
		out := []int{}
		for _, id := range l {
			if !contains(allowExtra, id) {
				out = append(out, id)
			}
		}
		return out
	}
	if !eqInts(strip(got.listing), saved.listing) {
		r.violate("snapshot-mismatch", fmt.Sprintf("%s: log loaded from the snapshot of replica %s differs from the saved log", what, name), saved.listing, got.listing)
		return
	}
	if len(allowExtra) == 0 && !eqInts(got.heads, saved.heads) {
		r.violate("snapshot-mismatch", what+": heads after loading the snapshot differ", saved.heads, got.heads)
	}
	if r.in.Type != "log" && len(allowExtra) == 0 {
		// read the view of the fresh store through the same API
		old := r.c.refs[name]
		r.c.refs[name] = ref2
		v, err := r.view(name)
		r.c.refs[name] = old
		if err != nil || !eqStrMap(v, savedView) {
			r.violate("snapshot-mismatch", what+": view after loading the snapshot differs", savedView, v)
		}
	}
	if len(allowExtra) == 0 {
		r.staleSnapshot(name, what, len(saved.listing))
		r.growingSnapshot(name, what, len(saved.listing))
	}
}

// growingSnapshot: the log grows while a snapshot of it is being saved (a local write lands between two of the
// reads SaveSnapshot makes of the log). Saving then either fails or writes a snapshot that a fresh instance loads:
// everything held before the save began is in it, nothing that was never written.
func (r *coreRun) growingSnapshot(name, what string, nsaved int) {
	ctx := context.Background()
	h := sim.TheHub
	p := r.c.nodes[name].P
	q := p.CloneDurable(p.EffectCount())
	node, err := q.Start("")
	if err != nil {
		return
	}
	defer node.Close()
	ref, err := node.Open(r.c.addr, realType(r.in.Type), &orbitdb.CreateDBOptions{Timeout: 3 * time.Second})
	if err != nil {
		return
	}
	if err := ref.S.Load(ctx, -1); err != nil || ref.S.OpLog().Len() != nsaved {
		return
	}
	write := func(tag string) error {
		switch r.in.Type {
		case "kv":
			_, err := ref.S.(orbitdb.KeyValueStore).Put(ctx, tag, []byte(tag))
			return err
		case "doc":
			_, err := ref.S.(orbitdb.DocumentStore).Put(ctx, map[string]interface{}{"_id": tag, "abs": tag})
			return err
		}
		_, err := ref.S.(orbitdb.EventLogStore).Add(ctx, []byte(tag))
		return err
	}
	if write("before-the-snapshot") != nil {
		return // not a writer
	}
	mineS := func(args []interface{}) bool { return len(args) > 0 && sim.K(args[0]) == sim.K(ref.S) }
	h.ParkAt("snapshot.header", mineS)
	h.ParkAt("snapshot.entries", mineS)
	defer func() {
		h.Unpark("snapshot.header")
		h.Unpark("snapshot.entries")
	}()
	saved := make(chan error, 1)
	go func() {
		_, err := basestore.SaveSnapshot(ctx, ref.S)
		saved <- err
	}()
	// at the first of the two points SaveSnapshot reaches, one more entry is written
	var first *sim.Parked
	var early error
	returned := false
	deadline := time.Now().Add(3 * time.Second)
	for first == nil && !returned && time.Now().Before(deadline) {
		for _, pk := range h.ParkedList() {
			if (pk.Point == "snapshot.header" || pk.Point == "snapshot.entries") && mineS(pk.Args) {
				first = pk
			}
		}
		select {
		case early = <-saved:
			returned = true
		case <-time.After(500 * time.Microsecond):
		}
	}
	if first == nil {
		_ = early // saving failed before it read the log twice ("or saving fails"), or never got there
		return
	}
	werr := write("during-the-snapshot")
	h.Unpark("snapshot.header")
	h.Unpark("snapshot.entries")
	for _, pk := range h.ParkedList() {
		if (pk.Point == "snapshot.header" || pk.Point == "snapshot.entries") && mineS(pk.Args) {
			h.Release(pk)
		}
	}
	var serr error
	select {
	case serr = <-saved:
	case <-time.After(8 * time.Second):
		r.violate("snapshot-silent", what+": SaveSnapshot does not return when the log grows while it runs", nil, nil)
		return
	}
	r.res.Comparisons++
	r.res.Stats["growing_snapshots"]++
	if serr != nil || werr != nil {
		return // "or saving fails"
	}
	if err := sim.Settle(5*time.Second, node); err != nil {
		r.res.note("%s: %s: stale snapshot: %v", r.bid, what, err)
	}
	q2 := q.CloneDurable(q.EffectCount())
	node2, err := q2.Start("")
	if err != nil {
		return
	}
	defer node2.Close()
	ref2, err := node2.Open(r.c.addr, realType(r.in.Type), &orbitdb.CreateDBOptions{Timeout: 3 * time.Second})
	if err != nil {
		return
	}
	loaded := make(chan error, 1)
	go func() { loaded <- ref2.S.LoadFromSnapshot(ctx) }()
	select {
	case err = <-loaded:
	case <-time.After(10 * time.Second):
		r.violate("snapshot-silent", what+": a snapshot saved while the log was growing is never loaded (LoadFromSnapshot does not return)", nil, nil)
		return
	}
	if err != nil {
		r.violate("snapshot-silent", fmt.Sprintf("%s: SaveSnapshot succeeded while a write landed between its reads of the log (first point reached: %s); the snapshot cannot be loaded: %v", what, first.Point, err), nil, nil)
		return
	}
	if got := ref2.S.OpLog().Len(); got < nsaved+1 || got > nsaved+2 {
		r.violate("snapshot-mismatch", fmt.Sprintf("%s: a snapshot saved while the log grew from %d to %d entries loads %d", what, nsaved+1, nsaved+2, got), nil, got)
	}
}

// staleSnapshot: the snapshot route when the store already holds more than the snapshot. A second fresh instance
// loads its log from the cache, writes one more entry, and only then loads the (now older) snapshot: the entries
// it holds are the saved ones plus its write, and what it shows must be their replay - the write included.
func (r *coreRun) staleSnapshot(name, what string, nsaved int) {
	ctx := context.Background()
	p := r.c.nodes[name].P
	q := p.CloneDurable(p.EffectCount())
	node, err := q.Start("")
	if err != nil {
		return
	}
	defer node.Close()
	ref, err := node.Open(r.c.addr, realType(r.in.Type), &orbitdb.CreateDBOptions{Timeout: 3 * time.Second})
	if err != nil {
		return
	}
	if err := ref.S.Load(ctx, -1); err != nil || ref.S.OpLog().Len() != nsaved {
		return
	}
	const mark2 = "after-the-snapshot"
	var werr error
	switch r.in.Type {
	case "kv":
		_, werr = ref.S.(orbitdb.KeyValueStore).Put(ctx, mark2, []byte(mark2))
	case "doc":
		_, werr = ref.S.(orbitdb.DocumentStore).Put(ctx, map[string]interface{}{"_id": mark2, "abs": mark2})
	default:
		_, werr = ref.S.(orbitdb.EventLogStore).Add(ctx, []byte(mark2))
	}
	if werr != nil {
		return // this replica's identity is not a writer
	}
	loaded := make(chan error, 1)
	go func() { loaded <- ref.S.LoadFromSnapshot(ctx) }()
	select {
	case err = <-loaded:
	case <-time.After(10 * time.Second):
		r.violate("snapshot-silent", what+": LoadFromSnapshot on a store that already holds the log never returns", nil, nil)
		return
	}
	if err != nil {
		r.res.note("%s: %s: LoadFromSnapshot on a loaded store: %v", r.bid, what, err)
		return
	}
	if err := sim.Settle(5*time.Second, node); err != nil {
		r.res.note("%s: %s: stale snapshot: %v", r.bid, what, err)
	}
	r.res.Comparisons++
	r.res.Stats["stale_snapshots"]++
	kind := "snapshot-mismatch"
	if r.in.Property == "C01" {
		kind = "convergence"
	}
	if got := ref.S.OpLog().Len(); got != nsaved+1 {
		r.violate(kind, fmt.Sprintf("%s: a store holding %d entries loaded a snapshot of %d of them and now holds %d", what, nsaved+1, nsaved, got), nsaved+1, got)
		return
	}
	shown := false
	switch r.in.Type {
	case "kv":
		v, _ := ref.S.(orbitdb.KeyValueStore).Get(ctx, mark2)
		shown = string(v) == mark2
	case "doc":
		d, _ := ref.S.(orbitdb.DocumentStore).Get(ctx, mark2, nil)
		shown = len(d) == 1
	default:
		all := -1
		ops, _ := ref.S.(orbitdb.EventLogStore).List(ctx, &iface.StreamOptions{Amount: &all})
		shown = len(ops) == nsaved+1 && string(ops[len(ops)-1].GetValue()) == mark2
	}
	if !shown {
		r.violate(kind, what+": a store that held the whole log and one more write loaded an older snapshot; it holds the same entries as before and no longer shows the write (state depends on the route, not on the entries)", nil, nil)
	}
}

func (r *coreRun) snapshots() {
	r.step = -2
	for _, name := range r.c.names {
		r.snapshotOf(name, "at rest", nil)
	}
	// with replication in progress: a head announced to the first replica whose fetch has not completed
	if len(r.c.names) < 2 {
		return
	}
	a, w := r.c.names[0], r.c.names[1]
	e, err := r.doWrite(w, map[string]interface{}{"kind": map[string]string{"log": "ADD", "kv": "PUT", "doc": "PUT"}[r.in.Type], "k": r.in.Keys[0], "v": r.in.Vals[0], "docs": []interface{}{}})
	if err != nil {
		return
	}
	id := len(r.c.entries) + 1
	r.c.record(id, copyEntry(e))
	if err := r.c.settle(); err != nil {
		r.res.note("%s: snapshots: settle after extra write: %v", r.bid, err)
	}
	h := sim.TheHub
	store := r.c.refs[a].S
	h.ParkAt("repl.fetch", func(args []interface{}) bool { return sim.K(args[1]) == sim.K(store) })
	if err := store.Sync(context.Background(), []ipfslog.Entry{copyEntry(e)}); err == nil {
		if parkedFor("repl.fetch", nil, 3*time.Second) != nil {
			r.snapshotOf(a, "replication in progress", []int{id})
		}
	}
	h.ReleaseAll()
	if err := r.c.settle(); err != nil {
		r.res.note("%s: snapshots: settle after release: %v", r.bid, err)
	}
}

// ---------------------------------------------------------------------------
// C08: range queries. Every row of the window table TLC evaluated from
// spec/Windows.tla (listing length, bound kind and position, amount -> positions)
// is put to the real List and Stream of every replica whose listing has that length.

type WindowRow struct {
	N    int    `json:"n"`
	Kind string `json:"kind"`
	Pos  int    `json:"pos"`
	Amt  int    `json:"amt"`
	Res  []int  `json:"res"`
}

func (r *coreRun) windows() {
	ctx := context.Background()
	r.step = -3
	for _, name := range r.c.names {
		store := r.c.refs[name].S.(orbitdb.EventLogStore)
		entries := r.c.refs[name].S.OpLog().Values().Slice()
		full := r.c.listing(name)
		n := len(full)
		for _, row := range r.in.Windows {
			if row.N != n {
				continue
			}
			opts := &iface.StreamOptions{}
			if row.Amt != -100 {
				a := row.Amt
				opts.Amount = &a
			}
			if row.Kind != "none" {
				h := entries[row.Pos-1].GetHash()
				switch row.Kind {
				case "gt":
					opts.GT = &h
				case "gte":
					opts.GTE = &h
				case "lt":
					opts.LT = &h
				case "lte":
					opts.LTE = &h
				}
			}
			want := []int{}
			for _, p := range row.Res {
				want = append(want, full[p-1])
			}
			ops, err := store.List(ctx, opts)
			r.res.Comparisons++
			r.res.Stats["window_queries"]++
			what := fmt.Sprintf("replica %s, listing of %d, %s position %d, amount %d", name, n, row.Kind, row.Pos, row.Amt)
			if err != nil {
				r.violate("window", what+": List failed: "+err.Error(), want, nil)
				continue
			}
			got := []int{}
			for _, op := range ops {
				id, ok := r.c.ids[op.GetEntry().GetHash().String()]
				if !ok {
					id = -1
				}
				got = append(got, id)
			}
			if !eqInts(got, want) {
				r.violate("window", what+": List returns a different window", want, got)
			}
			// Stream must deliver the same window
			ch := make(chan operation.Operation, n+4)
			if err := store.Stream(ctx, ch, opts); err != nil {
				r.violate("window", what+": Stream failed: "+err.Error(), want, nil)
				continue
			}
			sg := []int{}
			for op := range ch {
				sg = append(sg, r.c.ids[op.GetEntry().GetHash().String()])
			}
			if !eqInts(sg, want) {
				r.violate("window", what+": Stream returns a different window", want, sg)
			}
		}
		// Get by address returns that entry
		for i, e := range entries {
			op, err := store.Get(ctx, e.GetHash())
			r.res.Comparisons++
			if err != nil || op == nil || !op.GetEntry().GetHash().Equals(e.GetHash()) {
				r.violate("get", fmt.Sprintf("replica %s: Get of the entry at position %d does not return it (%v)", name, i+1, err), full[i], nil)
			}
		}
		// the listing must not have been disturbed by the queries
		if after := r.c.listing(name); !eqInts(after, full) {
			r.violate("window", "the listing changed while it was being queried", full, after)
		}
	}
}
