package main

import (
	"context"
	"encoding/json"
	"fmt"
	"os"
	"path/filepath"
	"sort"
	"sync"
	"time"

	ipfslog "berty.tech/go-ipfs-log"
	"berty.tech/go-ipfs-log/entry"
	orbitdb "berty.tech/go-orbit-db"
	"berty.tech/go-orbit-db/stores"
	"berty.tech/go-orbit-db/stores/operation"
	datastore "github.com/ipfs/go-datastore"
	"github.com/libp2p/go-libp2p/core/event"
	"github.com/libp2p/go-libp2p/p2p/host/eventbus"
	"verif/harness/sim"
)

func init() { commands["writepath"] = writepathCmd }

// WPInput: behaviours of spec/SimWritePath.tla forced on a real store.
type WPInput struct {
	Property    string      `json:"property"`
	Seed        int64       `json:"seed"`
	Remote      int         `json:"remote"` // length of the remote chain
	Behaviours  []Behaviour `json:"behaviours"`
	CrashPoints bool        `json:"crash_points"` // enumerate every prefix of the effect log (C05)
	DiskDir     string      `json:"disk_dir"`     // when set, the replica's cache and keystore are kept in a real directory below it (no crash points then)
	Restart     bool        `json:"restart"`      // clean close / reopen / load at the end (C17, C05)
	Adversarial []string    `json:"adversarial"`  // behaviours of a mutant specification: non-realisable = drift
}

type wpRun struct {
	localDir string // "": simulated cache and in-memory keystore; otherwise a real directory (leveldb cache, keystore on disk)
	in       *WPInput
	res      *Result
	bid      string
	step     int

	w       *sim.World
	local   *sim.Node
	ref     *sim.StoreRef
	remote  *sim.Node
	remote2 *sim.Node
	rref    *sim.StoreRef
	addr    string

	rEntries     []ipfslog.Entry // remote chain
	ids          map[string]int  // hash -> spec id (remote: 1.., local: 100+g)
	keyOf        map[int]string  // spec id -> kv key
	mu           sync.Mutex
	retErr       map[int]error
	returned     map[int]bool
	acks         []ack
	evObs        []string
	base         int // effects issued by database creation (crash points start here)
	slowObs      []string
	nWriteEvents int
	fastObs      []string
}

type ack struct {
	id      int
	effects int
}

func (r *wpRun) violate(kind, detail string, exp, got interface{}) {
	r.res.violate(Violation{Property: r.in.Property, Kind: kind, Behaviour: r.bid, Step: r.step, Detail: detail, Expected: exp, Got: got})
}

func (r *wpRun) setup(tag string) error {
	r.w = sim.NewWorld()
	lp, rp := r.w.AddPeer(tag+"-local"), r.w.AddPeer(tag+"-remote")
	var err error
	if r.local, err = lp.Start(r.localDir); err != nil {
		return err
	}
	if r.remote, err = rp.Start(""); err != nil {
		return err
	}
	ac := sim.AccessFor([]string{"*"})
	if r.ref, err = r.local.Open("wp-"+tag, "keyvalue", &orbitdb.CreateDBOptions{AccessController: ac}); err != nil {
		return err
	}
	r.addr = r.ref.Addr
	if r.rref, err = r.remote.Open(r.addr, "keyvalue", nil); err != nil {
		return err
	}
	r.ids, r.keyOf = map[string]int{}, map[int]string{}
	r.retErr, r.returned = map[int]error{}, map[int]bool{}
	// two remote writers: entry 2 is written by the second one without having seen entry 1;
	// every other entry by the first one (spec constant RemotePar: 1:{} 2:{} 3:{1})
	rp2 := r.w.AddPeer(tag + "-remote2")
	if r.remote2, err = rp2.Start(""); err != nil {
		return err
	}
	rref2, err := r.remote2.Open(r.addr, "keyvalue", nil)
	if err != nil {
		return err
	}
	for i := 1; i <= r.in.Remote; i++ {
		key := fmt.Sprintf("r%d", i)
		kv := r.rref.S.(orbitdb.KeyValueStore)
		if i == 2 {
			kv = rref2.S.(orbitdb.KeyValueStore)
		}
		op, err := kv.Put(context.Background(), key, []byte(key))
		if err != nil {
			return err
		}
		e := copyEntry(op.GetEntry())
		r.rEntries = append(r.rEntries, e)
		r.ids[e.GetHash().String()] = i
		r.keyOf[i] = key
	}
	if err := sim.Settle(settleTimeout, r.local, r.remote); err != nil {
		return err
	}
	// nothing of the remote's announcements is delivered: batches are driven by Sync
	for _, m := range r.w.Bag() {
		r.w.Take(m.ID)
	}
	r.base = r.local.P.EffectCount()
	return nil
}

func (r *wpRun) teardown() {
	sim.TheHub.ReleaseAll()
	sim.TheHub.ClearHandlers()
	if r.local != nil {
		_ = r.local.Close()
	}
	if r.remote != nil {
		_ = r.remote.Close()
	}
	if r.remote2 != nil {
		_ = r.remote2.Close()
	}
}

// observer: two unbuffered subscriptions; the emitter stays blocked in Emit
// until both have received, so the first receipt sees the state at emission.
func (r *wpRun) observe(ctx context.Context, bus event.Bus) error {
	types := []interface{}{new(stores.EventWrite), new(stores.EventReplicated)}
	s1, err := bus.Subscribe(types, eventbus.BufSize(0))
	if err != nil {
		return err
	}
	s2, err := bus.Subscribe(types, eventbus.BufSize(0))
	if err != nil {
		return err
	}
	// a third, slow subscriber with a one-slot buffer: must see the same sequence
	s3, err := bus.Subscribe(types, eventbus.BufSize(1))
	if err != nil {
		return err
	}
	go func() {
		defer s3.Close()
		for {
			select {
			case <-ctx.Done():
				return
			case e := <-s3.Out():
				time.Sleep(300 * time.Microsecond)
				if d := r.describe(e); d != "" {
					r.mu.Lock()
					r.slowObs = append(r.slowObs, d)
					r.mu.Unlock()
					sim.TheHub.Poke()
				}
			}
		}
	}()
	go func() {
		defer s1.Close()
		defer s2.Close()
		for {
			var e interface{}
			var other event.Subscription
			select {
			case <-ctx.Done():
				return
			case e = <-s1.Out():
				other = s2
			case e = <-s2.Out():
				other = s1
			}
			r.atEmission(e)
			select {
			case <-ctx.Done():
				return
			case <-other.Out():
			}
		}
	}()
	return nil
}

// describe names a store event of this database (for sequence comparison).
func (r *wpRun) describe(e interface{}) string {
	switch evt := e.(type) {
	case stores.EventWrite:
		if evt.Address.String() != r.addr {
			return ""
		}
		return "write:" + evt.Entry.GetHash().String()
	case stores.EventReplicated:
		if evt.Address.String() != r.addr {
			return ""
		}
		hs := []string{}
		for _, en := range evt.Entries {
			hs = append(hs, en.GetHash().String())
		}
		sort.Strings(hs)
		return "replicated:" + fmt.Sprint(hs)
	}
	return ""
}

func (r *wpRun) viewIDs(s orbitdb.Store) []int {
	out := []int{}
	all := s.(orbitdb.KeyValueStore).All()
	for id, k := range r.keyOf {
		if _, ok := all[k]; ok {
			out = append(out, id)
		}
	}
	sort.Ints(out)
	return out
}

func (r *wpRun) logIDs(s orbitdb.Store) []int {
	out := []int{}
	for _, e := range s.OpLog().GetEntries().Slice() {
		if id, ok := r.ids[e.GetHash().String()]; ok {
			out = append(out, id)
		} else {
			out = append(out, -1)
		}
	}
	sort.Ints(out)
	return out
}

func (r *wpRun) cacheIDs(s orbitdb.Store, key string) []int {
	raw, err := s.Cache().Get(context.Background(), datastore.NewKey(key))
	if err != nil {
		return []int{}
	}
	var hs []*entry.Entry
	if json.Unmarshal(raw, &hs) != nil {
		return []int{-2}
	}
	out := []int{}
	for _, h := range hs {
		if id, ok := r.ids[h.GetHash().String()]; ok {
			out = append(out, id)
		} else {
			out = append(out, -1)
		}
	}
	sort.Ints(out)
	return out
}

func contains(s []int, x int) bool {
	for _, y := range s {
		if x == y {
			return true
		}
	}
	return false
}

// ancestors of the given ids within the real log (through next links)
func (r *wpRun) ancestry(s orbitdb.Store, from []int) map[int]bool {
	byID := map[int]ipfslog.Entry{}
	for _, e := range s.OpLog().GetEntries().Slice() {
		if id, ok := r.ids[e.GetHash().String()]; ok {
			byID[id] = e
		}
	}
	seen := map[int]bool{}
	stack := append([]int{}, from...)
	for len(stack) > 0 {
		id := stack[len(stack)-1]
		stack = stack[:len(stack)-1]
		if seen[id] {
			continue
		}
		seen[id] = true
		if e, ok := byID[id]; ok {
			for _, n := range e.GetNext() {
				if nid, ok := r.ids[n.String()]; ok {
					stack = append(stack, nid)
				}
			}
		}
	}
	return seen
}

func (r *wpRun) atEmission(e interface{}) {
	s := r.ref.S
	if d := r.describe(e); d != "" {
		r.mu.Lock()
		r.fastObs = append(r.fastObs, d)
		r.mu.Unlock()
	}
	switch evt := e.(type) {
	case stores.EventWrite:
		if evt.Address.String() != r.addr {
			return
		}
		r.mu.Lock()
		id, known := r.ids[evt.Entry.GetHash().String()]
		r.mu.Unlock()
		if !known {
			// the writer has not reported its entry yet: identify it by key
			if op, err := operation.ParseOperation(evt.Entry); err == nil && op.GetKey() != nil {
				for i, k := range r.keyOf {
					if k == *op.GetKey() {
						id = i
					}
				}
			}
		}
		r.mu.Lock()
		r.evObs = append(r.evObs, fmt.Sprintf("write:%d", id))
		r.mu.Unlock()
		r.res.Comparisons++
		if _, ok := s.OpLog().Get(evt.Entry.GetHash()); !ok {
			r.violate("event-ahead", fmt.Sprintf("write event for entry %d emitted before the entry is in the log", id), nil, nil)
		}
		if k, ok := r.keyOf[id]; ok {
			if v, _ := s.(orbitdb.KeyValueStore).Get(context.Background(), k); v == nil {
				r.violate("event-ahead", fmt.Sprintf("write event for entry %d received while Get(%q) does not show it", id, k), nil, nil)
			}
		}
	case stores.EventReplicated:
		if evt.Address.String() != r.addr {
			return
		}
		ids := []int{}
		for _, en := range evt.Entries {
			ids = append(ids, r.ids[en.GetHash().String()])
		}
		sort.Ints(ids)
		r.mu.Lock()
		r.evObs = append(r.evObs, fmt.Sprintf("replicated:%v", ids))
		r.mu.Unlock()
		r.res.Comparisons++
		view := r.viewIDs(s)
		cached := r.ancestry(s, append(r.cacheIDs(s, "_remoteHeads"), r.cacheIDs(s, "_localHeads")...))
		for _, id := range ids {
			if !contains(view, id) {
				r.violate("event-ahead", fmt.Sprintf("replicated event received while the view does not show entry %d", id), ids, view)
			}
			if !cached[id] {
				r.violate("event-ahead", fmt.Sprintf("replicated event received while the cached heads do not cover entry %d", id), ids, nil)
			}
		}
		r.mu.Lock()
		n := r.local.P.EffectCount()
		for _, id := range ids {
			r.acks = append(r.acks, ack{id, n})
		}
		r.mu.Unlock()
	}
}

func parkedFor(point string, match func(p *sim.Parked) bool, d time.Duration) *sim.Parked {
	var got *sim.Parked
	sim.TheHub.WaitFor(d, func() bool {
		for _, p := range sim.TheHub.ParkedLocked() {
			if p.Point == point && (match == nil || match(p)) {
				got = p
				return true
			}
		}
		return false
	})
	return got
}

func (r *wpRun) writerPark(point string, g int, d time.Duration) *sim.Parked {
	key := fmt.Sprintf("w%d", g)
	return parkedFor(point, func(p *sim.Parked) bool {
		if len(p.Args) < 2 || sim.K(p.Args[0]) != sim.K(r.ref.S) {
			return false
		}
		e, ok := p.Args[1].(ipfslog.Entry)
		if !ok {
			return false
		}
		op, err := operation.ParseOperation(e)
		return err == nil && op.GetKey() != nil && *op.GetKey() == key
	}, d)
}

func (r *wpRun) storePark(point string, d time.Duration) *sim.Parked {
	return parkedFor(point, func(p *sim.Parked) bool { return len(p.Args) > 0 && sim.K(p.Args[0]) == sim.K(r.ref.S) }, d)
}

var errNotRealisable = fmt.Errorf("step not realisable on this tree")

func (r *wpRun) apply(st Step) error {
	h := sim.TheHub
	const d = 4 * time.Second
	g := 0
	if len(st.Args) > 0 {
		g = asInt(st.Args[0])
	}
	next := map[string]string{"WPersist": "write.persisted", "WIndex": "write.indexed", "WEmit": "write.emitted"}
	prev := map[string]string{"WPersist": "write.appended", "WIndex": "write.persisted", "WEmit": "write.indexed", "WReturn": "write.emitted"}
	switch st.Action {
	case "Init":
	case "WAppend":
		id := 100 + g
		key := fmt.Sprintf("w%d", g)
		r.keyOf[id] = key
		go func() {
			op, err := r.ref.S.(orbitdb.KeyValueStore).Put(context.Background(), key, []byte(key))
			r.mu.Lock()
			r.retErr[id] = err
			r.returned[id] = true
			if err == nil {
				r.ids[op.GetEntry().GetHash().String()] = id
				r.acks = append(r.acks, ack{id, r.local.P.EffectCount()})
			}
			r.mu.Unlock()
			h.Poke()
		}()
		p := r.writerPark("write.appended", g, d)
		if p == nil {
			return errNotRealisable
		}
		r.mu.Lock()
		r.ids[p.Args[1].(ipfslog.Entry).GetHash().String()] = id
		r.mu.Unlock()
	case "WPersist", "WIndex", "WEmit":
		p := r.writerPark(prev[st.Action], g, d)
		if p == nil {
			return fmt.Errorf("writer %d not parked at %s", g, prev[st.Action])
		}
		h.Release(p)
		if r.writerPark(next[st.Action], g, d) == nil {
			return fmt.Errorf("writer %d did not reach %s", g, next[st.Action])
		}
	case "WReturn":
		p := r.writerPark(prev[st.Action], g, d)
		if p == nil {
			return fmt.Errorf("writer %d not parked at write.emitted", g)
		}
		h.Release(p)
		id := 100 + g
		if !h.WaitFor(d, func() bool { r.mu.Lock(); defer r.mu.Unlock(); return r.returned[id] }) {
			return fmt.Errorf("writer %d did not return", g)
		}
		r.mu.Lock()
		err := r.retErr[id]
		r.mu.Unlock()
		if err != nil {
			r.violate("write-error", fmt.Sprintf("authorised concurrent write %d failed: %v", g, err), nil, nil)
		}
	case "BStart":
		k := asInt(st.Args[0])
		have := 0
		for _, e := range r.rEntries {
			if _, ok := r.ref.S.OpLog().Get(e.GetHash()); ok {
				have++
			}
		}
		batch := []ipfslog.Entry{}
		for _, e := range r.rEntries[have : have+k] {
			batch = append(batch, copyEntry(e))
		}
		if err := r.ref.S.Sync(context.Background(), batch); err != nil {
			return err
		}
		if r.storePark("join.begin", d) == nil {
			return fmt.Errorf("replication batch did not reach the main loop")
		}
	case "BJoin":
		p := r.storePark("join.begin", d)
		if p == nil {
			return fmt.Errorf("no batch parked at join.begin")
		}
		h.Release(p)
		if r.storePark("join.indexed", d) == nil {
			return fmt.Errorf("batch did not reach join.indexed")
		}
	case "BPersist":
		p := r.storePark("join.indexed", d)
		if p == nil {
			return fmt.Errorf("no batch parked at join.indexed")
		}
		h.Release(p)
		if r.storePark("join.persisted", d) == nil {
			return fmt.Errorf("batch did not reach join.persisted")
		}
	case "BEmit":
		p := r.storePark("join.persisted", d)
		if p == nil {
			return fmt.Errorf("no batch parked at join.persisted")
		}
		before := h.Count("join.end", r.ref.S)
		h.Release(p)
		if !h.WaitFor(d, func() bool { return h.CountLocked("join.end", r.ref.S) == before+1 }) {
			return fmt.Errorf("batch did not complete")
		}
	default:
		return fmt.Errorf("unknown action %s", st.Action)
	}
	return nil
}

func (r *wpRun) compare(st map[string]interface{}) {
	s := r.ref.S
	r.res.Comparisons++
	if want, got := sortedInts(asInts(st["log"])), r.logIDs(s); !eqInts(want, got) {
		r.res.note("%s step %d: log %v, specification %v", r.bid, r.step, got, want)
	}
	if want, got := sortedInts(asInts(st["cacheL"])), r.cacheIDs(s, "_localHeads"); !eqInts(want, got) {
		r.res.note("%s step %d: _localHeads %v, specification %v", r.bid, r.step, got, want)
	}
	if want, got := sortedInts(asInts(st["cacheR"])), r.cacheIDs(s, "_remoteHeads"); !eqInts(want, got) {
		r.res.note("%s step %d: _remoteHeads %v, specification %v", r.bid, r.step, got, want)
	}
	if want, got := sortedInts(asInts(st["idx"])), r.viewIDs(s); !eqInts(want, got) {
		r.res.note("%s step %d: view %v, specification %v", r.bid, r.step, got, want)
	}
}

// recoverAndCheck opens the database on a peer holding some durable state,
// loads it and checks the C05 oracle against the acknowledgements must[].
func (r *wpRun) recoverAndCheck(p *sim.Peer, must []int, what string) {
	n, err := p.Start(r.localDir)
	if err != nil {
		r.res.Inconclusive = append(r.res.Inconclusive, what+": "+err.Error())
		return
	}
	defer n.Close()
	ref, err := n.Open(r.addr, "keyvalue", &orbitdb.CreateDBOptions{Timeout: 3 * time.Second})
	if err != nil {
		// the manifest and access controller blocks are written before any entry
		r.violate("recover-open", what+": database cannot be reopened: "+err.Error(), nil, nil)
		return
	}
	ctx, cancel := context.WithTimeout(context.Background(), 3*time.Second)
	defer cancel()
	done := make(chan error, 1)
	go func() { done <- ref.S.Load(ctx, -1) }()
	select {
	case err = <-done:
	case <-time.After(6 * time.Second):
		r.violate("recover-hang", what+": Load does not return (a cached head references a block that was never written)", nil, nil)
		return
	}
	if err != nil {
		r.violate("recover-error", what+": Load failed: "+err.Error(), nil, nil)
		return
	}
	r.res.Comparisons++
	got := r.logIDs(ref.S)
	for _, id := range must {
		if !contains(got, id) {
			r.violate("lost-ack", fmt.Sprintf("%s: acknowledged entry %d is not recovered", what, id), must, got)
		}
	}
	if contains(got, -1) {
		r.violate("phantom", what+": recovered log contains an entry that was never written", nil, got)
	}
	// closed under ancestry
	for _, e := range ref.S.OpLog().GetEntries().Slice() {
		for _, nx := range e.GetNext() {
			if _, ok := ref.S.OpLog().Get(nx); !ok {
				r.violate("not-closed", fmt.Sprintf("%s: recovered entry %d lacks its ancestor", what, r.ids[e.GetHash().String()]), nil, got)
			}
		}
	}
	// same state as the pre-crash replica restricted to the recovered entries: every
	// entry puts its own key, so the view must show exactly the recovered entries
	if view := r.viewIDs(ref.S); !eqInts(view, got) {
		r.violate("recover-view", what+": view after recovery differs from the replay of the recovered log", got, view)
	}
}

func (r *wpRun) run(b Behaviour, idx int) {
	adversarial := false
	for _, a := range r.in.Adversarial {
		adversarial = adversarial || a == b.ID
	}
	r.localDir = ""
	if r.in.DiskDir != "" {
		d, err := os.MkdirTemp(r.in.DiskDir, "wp-")
		if err != nil {
			r.res.Inconclusive = append(r.res.Inconclusive, b.ID+": "+err.Error())
			return
		}
		defer os.RemoveAll(d)
		r.localDir = filepath.Join(d, "orbitdb")
		r.res.Stats["on_disk"]++
	}
	if err := r.setup(fmt.Sprintf("b%d", idx)); err != nil {
		r.res.Inconclusive = append(r.res.Inconclusive, b.ID+": setup: "+err.Error())
		return
	}
	defer r.teardown()
	h := sim.TheHub
	for _, pt := range []string{"write.appended", "write.persisted", "write.indexed", "write.emitted", "join.begin", "join.indexed", "join.persisted"} {
		h.ParkAt(pt, func(args []interface{}) bool { return len(args) > 0 && sim.K(args[0]) == sim.K(r.ref.S) })
	}
	octx, ocancel := context.WithCancel(context.Background())
	defer ocancel()
	if err := r.observe(octx, r.local.Bus()); err != nil {
		r.res.Inconclusive = append(r.res.Inconclusive, b.ID+": observer: "+err.Error())
		return
	}
	r.res.Behaviours++
	for si, st := range b.Steps {
		r.step = si
		if err := r.apply(st); err != nil {
			if err == errNotRealisable || adversarial {
				r.res.note("%s step %d %s: not realisable on this tree (%v)", b.ID, si, st.Action, err)
				r.res.Stats["drift"]++
			} else {
				r.res.Inconclusive = append(r.res.Inconclusive, fmt.Sprintf("%s step %d %s: %v", b.ID, si, st.Action, err))
			}
			break
		}
		r.res.Steps++
		r.res.Stats["action_"+st.Action]++
		r.compare(st.State)
	}
	// run to completion: every started call returns, every batch completes
	h.ReleaseAll()
	started := 0
	for range r.keyOf {
		started++
	}
	if !h.WaitFor(settleTimeout, func() bool {
		r.mu.Lock()
		defer r.mu.Unlock()
		n := 0
		for id := range r.keyOf {
			if id >= 100 && !r.returned[id] {
				n++
			}
		}
		return n == 0
	}) {
		r.res.Inconclusive = append(r.res.Inconclusive, b.ID+": writers did not return")
		return
	}
	if err := sim.Settle(settleTimeout, r.local); err != nil {
		r.res.Inconclusive = append(r.res.Inconclusive, b.ID+": "+err.Error())
		return
	}
	// (the observers are goroutines of the harness: on a busy machine they may be behind the store; they are given time to
	// have seen one write event per call that returned successfully before anything is counted)
	expectWrites := 0
	for id, ok := range r.returned {
		if ok && r.retErr[id] == nil {
			expectWrites++
		}
	}
	h.WaitFor(8*time.Second, func() bool {
		r.mu.Lock()
		defer r.mu.Unlock()
		n := 0
		for _, d := range r.fastObs {
			if len(d) > 6 && d[:6] == "write:" {
				n++
			}
		}
		return n >= expectWrites
	})
	// the slow subscriber must have received exactly the emitted sequence
	r.mu.Lock()
	nfast := len(r.fastObs)
	r.mu.Unlock()
	h.WaitFor(12*time.Second, func() bool { r.mu.Lock(); defer r.mu.Unlock(); return len(r.slowObs) >= nfast })
	time.Sleep(2 * time.Millisecond)
	r.mu.Lock()
	if fmt.Sprint(r.slowObs) != fmt.Sprint(r.fastObs) {
		r.res.violate(Violation{Property: r.in.Property, Kind: "bus-order", Behaviour: r.bid, Step: -1,
			Detail: "a slow bus subscriber did not receive the emitted events once each, in emission order", Expected: r.fastObs, Got: r.slowObs})
	}
	nw := 0
	for _, d := range r.fastObs {
		if len(d) > 6 && d[:6] == "write:" {
			nw++
		}
	}
	r.mu.Unlock()
	ocancel()
	r.step = -1
	r.res.Stats["events_observed"] += nfast
	r.nWriteEvents = nw
	// C17: each successful call appended exactly one distinct entry, all visible
	r.mu.Lock()
	acks := append([]ack{}, r.acks...)
	r.mu.Unlock()
	ackedIDs := []int{}
	for _, a := range acks {
		ackedIDs = append(ackedIDs, a.id)
	}
	sort.Ints(ackedIDs)
	logNow, viewNow := r.logIDs(r.ref.S), r.viewIDs(r.ref.S)
	for _, id := range ackedIDs {
		if !contains(logNow, id) || !contains(viewNow, id) {
			r.violate("ack-invisible", fmt.Sprintf("acknowledged entry %d is not visible in the store", id), ackedIDs, viewNow)
		}
	}
	locals := 0
	for _, id := range logNow {
		if id >= 100 {
			locals++
		}
	}
	nret := 0
	for id, ok := range r.returned {
		if ok && r.retErr[id] == nil {
			nret++
		}
	}
	if r.nWriteEvents != nret {
		r.violate("event-count", fmt.Sprintf("%d successful writes but %d write events", nret, r.nWriteEvents), nret, r.nWriteEvents)
	}
	if locals != nret {
		r.violate("append-count", fmt.Sprintf("%d successful calls but %d local entries in the log", nret, locals), nret, locals)
	}
	if len(r.res.Samples) < 3 {
		r.res.Samples = append(r.res.Samples, map[string]interface{}{"behaviour": b.ID, "actions": briefSteps(b.Steps),
			"effects": r.local.P.EffectKinds(), "acks": fmt.Sprint(acks), "events": r.evObs})
	}
	p := r.local.P
	total := p.EffectCount()
	// crash points: every prefix of the effect log
	if r.in.CrashPoints && r.localDir == "" {
		for n := r.base; n <= total; n++ {
			must := []int{}
			for _, a := range acks {
				if a.effects <= n {
					must = append(must, a.id)
				}
			}
			q := p.CloneDurable(n)
			r.recoverAndCheck(q, must, fmt.Sprintf("crash after effect %d/%d", n, total))
			r.res.Stats["crash_points"]++
		}
	}
	if r.in.Restart {
		idBefore := r.local.DB.Identity().ID
		_ = r.local.Close()
		r.local = nil
		r.recoverAndCheck(p, ackedIDs, "clean restart")
		n, err := p.Start(r.localDir)
		if err == nil {
			if n.DB.Identity().ID != idBefore {
				r.violate("identity", "the peer's identity changed across the restart", idBefore, n.DB.Identity().ID)
			}
			if ref, err := n.Open(r.addr, "keyvalue", nil); err == nil {
				if err := ref.S.Load(context.Background(), -1); err == nil {
					if _, err := ref.S.(orbitdb.KeyValueStore).Put(context.Background(), "post-restart", []byte("x")); err != nil {
						r.violate("identity", "write after restart failed: "+err.Error(), nil, nil)
					}
				}
			}
			_ = n.Close()
		}
		r.res.Stats["restarts"]++
	}
}

func writepathCmd(args []string) int {
	in := &WPInput{}
	if len(args) < 2 || readJSON(args[0], in) != nil {
		fmt.Fprintln(os.Stderr, "usage: vh writepath <in.json> <out.json>")
		return 2
	}
	if err := sim.Install(); err != nil {
		fmt.Fprintln(os.Stderr, err)
		return 2
	}
	res := newResult("writepath")
	for i, b := range in.Behaviours {
		r := &wpRun{in: in, res: res, bid: b.ID}
		r.run(b, i)
	}
	return res.write(args[1])
}
