package main

import (
	"berty.tech/go-ipfs-log/entry"
	"berty.tech/go-orbit-db/iface"
	"berty.tech/go-orbit-db/stores/basestore"
	"context"
	"fmt"
	"os"
	"sync"
	"time"

	ipfslog "berty.tech/go-ipfs-log"
	orbitdb "berty.tech/go-orbit-db"
	cid "github.com/ipfs/go-cid"
	"verif/harness/sim"
)

func init() { commands["status"] = statusCmd }

// StatusInput: behaviours of spec/SimStatus.tla realised as real flows.
type StatusInput struct {
	Property   string      `json:"property"`
	Seed       int64       `json:"seed"`
	R          int         `json:"r"`
	Behaviours []Behaviour `json:"behaviours"`
}

type setEv struct {
	field    string
	old, new int
}

type stRun struct {
	in   *StatusInput
	res  *Result
	bid  string
	step int
	mu   sync.Mutex
	sets map[interface{}][]setEv // replication info object -> sets since open
}

func (r *stRun) violate(kind, detail string, exp, got interface{}) {
	r.res.violate(Violation{Property: r.in.Property, Kind: kind, Behaviour: r.bid, Step: r.step, Detail: detail, Expected: exp, Got: got})
}

// checkMonotone examines every individual SetMax/SetProgress since the store was opened.
func (r *stRun) checkMonotone(info interface{}, who string) {
	r.mu.Lock()
	defer r.mu.Unlock()
	evs := r.sets[sim.K(info)]
	for _, e := range evs {
		r.res.Comparisons++
		if e.new < e.old {
			r.violate("regress", fmt.Sprintf("%s: replication %s went from %d to %d while the store was open", who, e.field, e.old, e.new), e.old, e.new)
			return
		}
	}
}

func (r *stRun) run(b Behaviour, idx int) {
	h := sim.TheHub
	h.ReleaseAll()
	h.ClearHandlers()
	r.sets = map[interface{}][]setEv{}
	h.OnEvent(func(point string, args []interface{}) {
		switch point {
		case "status.set":
			r.mu.Lock()
			k := sim.K(args[0])
			r.sets[k] = append(r.sets[k], setEv{args[1].(string), args[2].(int), args[3].(int)})
			r.mu.Unlock()
		case "status.reset":
			r.mu.Lock()
			delete(r.sets, sim.K(args[0]))
			r.mu.Unlock()
		}
	})
	defer h.ClearHandlers()
	c, err := newCluster([]string{"a", "b", "c"}, "kv", fmt.Sprintf("s%d", idx))
	if err != nil {
		r.res.Inconclusive = append(r.res.Inconclusive, b.ID+": setup: "+err.Error())
		return
	}
	defer c.close()
	ctx := context.Background()
	// the remote single-writer chain
	rkv := c.refs["b"].S.(orbitdb.KeyValueStore)
	chain := []ipfslog.Entry{}
	for i := 1; i <= r.in.R; i++ {
		op, err := rkv.Put(ctx, fmt.Sprintf("r%d", i), []byte("x"))
		if err != nil {
			r.res.Inconclusive = append(r.res.Inconclusive, b.ID+": "+err.Error())
			return
		}
		chain = append(chain, copyEntry(op.GetEntry()))
	}
	if err := c.settle(); err != nil {
		r.res.Inconclusive = append(r.res.Inconclusive, b.ID+": "+err.Error())
		return
	}
	a := c.refs["a"]
	store := a.S
	pa := c.nodes["a"].P
	_ = pa
	// replicator workers of store a are held just before they fetch their task's entry
	h.ParkAt("repl.fetch", func(args []interface{}) bool { return sim.K(args[1]) == sim.K(store) })
	// In every second behaviour the worker is also held after its fetch until the main loop has handled
	// the LoadProgress event of that entry, so that all progress events precede the LoadEnd of the batch;
	// in the others the helper goroutine's event may arrive after LoadEnd (both orders occur in practice).
	progressFirst := idx%2 == 1
	if progressFirst {
		h.ParkAt("repl.fetched", func(args []interface{}) bool { return sim.K(args[1]) == sim.K(store) })
	}
	r.res.Behaviours++
	nw := 0
	var recalcPark *sim.Parked
	fetchPark := func(c0 cid.Cid) *sim.Parked {
		return parkedFor("repl.fetch", func(p *sim.Parked) bool { return p.Args[2].(cid.Cid).Equals(c0) }, 4*time.Second)
	}
	for si, st := range b.Steps {
		r.step = si
		switch st.Action {
		case "Init":
		case "Write":
			nw++
			if recalcPark != nil {
				// a write while the main loop is between the reads and the set of its recalculation: where the two share
				// a lock the write waits, which the specification of the repaired tree says too (the step is not enabled)
				done := make(chan error, 1)
				go func() {
					_, err := store.(orbitdb.KeyValueStore).Put(ctx, fmt.Sprintf("w%d", nw), []byte("y"))
					done <- err
				}()
				select {
				case err := <-done:
					if err != nil {
						r.violate("write-error", err.Error(), nil, nil)
						return
					}
				case <-time.After(400 * time.Millisecond):
					r.res.note("%s step %d: the write waits for the main loop's recalculation (not realisable on this tree)", b.ID, si)
					r.res.Stats["drift"]++
					h.Release(recalcPark)
					recalcPark = nil
					if err := <-done; err != nil {
						r.violate("write-error", err.Error(), nil, nil)
						return
					}
					goto done
				}
				r.res.Steps++
				r.res.Stats["action_"+st.Action]++
				continue
			}
			if _, err := store.(orbitdb.KeyValueStore).Put(ctx, fmt.Sprintf("w%d", nw), []byte("y")); err != nil {
				r.violate("write-error", err.Error(), nil, nil)
				return
			}
		case "Announce":
			if err := store.Sync(ctx, []ipfslog.Entry{copyEntry(chain[r.in.R-1])}); err != nil {
				r.res.Inconclusive = append(r.res.Inconclusive, b.ID+": sync: "+err.Error())
				return
			}
			if fetchPark(chain[r.in.R-1].GetHash()) == nil {
				r.res.Inconclusive = append(r.res.Inconclusive, fmt.Sprintf("%s step %d: head task did not start", b.ID, si))
				return
			}
		case "AnnRead":
			// the announcement reaches the main loop, which is held between the reads and the set of its recalculation
			h.ParkAt("status.recalc", func(args []interface{}) bool { return len(args) > 0 && sim.K(args[0]) == sim.K(store) })
			if err := store.Sync(ctx, []ipfslog.Entry{copyEntry(chain[r.in.R-1])}); err != nil {
				r.res.Inconclusive = append(r.res.Inconclusive, b.ID+": sync: "+err.Error())
				return
			}
			if recalcPark = parkedFor("status.recalc", nil, 4*time.Second); recalcPark == nil {
				r.res.Inconclusive = append(r.res.Inconclusive, fmt.Sprintf("%s step %d: the main loop did not reach its recalculation", b.ID, si))
				return
			}
			h.Unpark("status.recalc") // later recalculations (the writer's) are not held
			continue
		case "AnnSet":
			if recalcPark == nil {
				r.res.Inconclusive = append(r.res.Inconclusive, fmt.Sprintf("%s step %d: no recalculation is held", b.ID, si))
				return
			}
			h.Release(recalcPark)
			recalcPark = nil
			if fetchPark(chain[r.in.R-1].GetHash()) == nil {
				r.res.Inconclusive = append(r.res.Inconclusive, fmt.Sprintf("%s step %d: head task did not start", b.ID, si))
				return
			}
		case "Progress":
			e := asInt(st.Args[0])
			p := fetchPark(chain[e-1].GetHash())
			if p == nil {
				r.res.note("%s step %d: task of remote entry %d not pending", b.ID, si, e)
				r.res.Stats["drift"]++
				goto done
			}
			want := h.Count("mainloop.recv", store) + 1
			h.Release(p)
			var fp *sim.Parked
			if progressFirst {
				if fp = parkedFor("repl.fetched", func(p *sim.Parked) bool { return p.Args[2].(cid.Cid).Equals(chain[e-1].GetHash()) }, 4*time.Second); fp == nil {
					r.res.Inconclusive = append(r.res.Inconclusive, fmt.Sprintf("%s step %d: fetch of entry %d did not return", b.ID, si, e))
					return
				}
			}
			// wait until its LoadProgress has been handled
			if !h.WaitFor(4*time.Second, func() bool { return h.CountLocked("mainloop.recv", store) >= want }) {
				r.res.Inconclusive = append(r.res.Inconclusive, fmt.Sprintf("%s step %d: LoadProgress not handled", b.ID, si))
				return
			}
			if fp != nil {
				h.Release(fp)
			}
		case "JoinAll":
			// happens by itself once the last fetch has completed
		default:
			r.res.Inconclusive = append(r.res.Inconclusive, b.ID+": unknown action "+st.Action)
			return
		}
		// wait until the replicator is stable: every dequeued task is parked at its gate
		pending := false
		deadline := time.Now().Add(settleTimeout)
		for {
			stt := a.ReplStats()
			np := 0
			for _, q := range h.ParkedList() {
				if q.Point == "repl.fetch" || q.Point == "repl.fetched" {
					np++
				}
			}
			loads := h.Count("sync.spawn", store) - h.Count("repl.load.exit", store)
			if stt.Queue == 0 && int(stt.InProgress) == np && stt.Fetching == np && (np > 0 || loads == 0) {
				pending = np > 0
				break
			}
			if time.Now().After(deadline) {
				r.res.Inconclusive = append(r.res.Inconclusive, fmt.Sprintf("%s step %d: replicator not stable: %+v parked %d", b.ID, si, stt, np))
				return
			}
			time.Sleep(500 * time.Microsecond)
		}
		if !pending {
			if err := sim.Settle(settleTimeout, c.nodes["a"]); err != nil {
				r.res.Inconclusive = append(r.res.Inconclusive, fmt.Sprintf("%s step %d: %v", b.ID, si, err))
				return
			}
		} else {
			// the main loop must have handled every replicator event emitted so far
			time.Sleep(time.Millisecond)
		}
		r.res.Steps++
		r.res.Stats["action_"+st.Action]++
		r.checkMonotone(store.ReplicationStatus(), "store a")
		gm, gp := store.ReplicationStatus().GetMax(), store.ReplicationStatus().GetProgress()
		wm, wp := asInt(st.State["max"]), asInt(st.State["prog"])
		lastProgress := st.Action == "Progress" && len(asList(st.State["got"])) == r.in.R
		if !pending && !lastProgress && (gm != wm || gp != wp) {
			r.res.note("%s step %d %s: status (progress %d, max %d), specification (%d, %d)", b.ID, si, st.Action, gp, gm, wp, wm)
		}
		if !pending {
			// at rest with a complete log
			n := store.OpLog().Len()
			maxT := 0
			for _, e := range store.OpLog().GetEntries().Slice() {
				if t := e.GetClock().GetTime(); t > maxT {
					maxT = t
				}
			}
			r.res.Comparisons++
			if gp != gm || gm < maxT || gm > n {
				r.violate("rest", fmt.Sprintf("at rest with %d entries (largest time %d): progress %d, max %d", n, maxT, gp, gm), n, []int{gp, gm})
			}
		}
	}
done:
	h.Unpark("repl.fetch")
	h.Unpark("repl.fetched")
	for _, p := range h.ParkedList() {
		h.Release(p)
	}
	if err := sim.Settle(settleTimeout, c.nodes["a"]); err != nil {
		r.res.Inconclusive = append(r.res.Inconclusive, b.ID+": final: "+err.Error())
		return
	}
	r.step = -1
	r.checkMonotone(store.ReplicationStatus(), "store a")
	// a head nobody signed: the identity block and key of the remote writer (public: every entry carries them), another
	// payload, a far greater Lamport time, a signature that is not one, stored under the address of its contents. It is
	// never merged; the status of the store is that of its log
	if len(chain) > 0 {
		if f, ok := copyEntry(chain[len(chain)-1]).(*entry.Entry); ok {
			f.Payload = []byte(`{"op":"PUT","key":"forged","value":"eA=="}`)
			f.Clock = entry.NewLamportClock(f.Clock.GetID(), 1000)
			f.Next, f.Refs = []cid.Cid{}, []cid.Cid{}
			f.Sig = []byte("3045022100deadbeef")
			if err := rehash(ctx, c.nodes["b"], f); err == nil {
				_ = store.Sync(ctx, []ipfslog.Entry{f})
				if err := sim.Settle(settleTimeout, c.nodes["a"]); err == nil {
					r.checkMonotone(store.ReplicationStatus(), "store a after a head nobody signed")
					n, gm, gp := store.OpLog().Len(), store.ReplicationStatus().GetMax(), store.ReplicationStatus().GetProgress()
					r.res.Comparisons++
					r.res.Stats["unsigned_heads"]++
					if _, merged := store.OpLog().Get(f.GetHash()); merged {
						r.violate("rest", "a head with a signature that is not one was merged", nil, nil)
					} else if n > 0 && (gp != gm || gm > n) {
						r.violate("rest", fmt.Sprintf("after a head nobody signed (Lamport time 1000, refused) was announced, at rest with %d entries: progress %d, max %d", n, gp, gm), n, []int{gp, gm})
					}
				}
			}
		}
	}
	// a replica that only reads: it replicates the whole (multi-writer) log of a through a's heads, is stopped, started and
	// loaded from its cache (one or few cached heads leading to many entries of several writers)
	if rc, ok := c.refs["c"]; ok && store.OpLog().Len() > 0 {
		heads := []ipfslog.Entry{}
		for _, hh := range store.OpLog().Heads().Slice() {
			heads = append(heads, copyEntry(hh))
		}
		if err := rc.S.Sync(ctx, heads); err == nil && sim.Settle(settleTimeout, c.nodes["c"]) == nil {
			restRule := func(s3 iface.Store, when string) {
				n, gm, gp := s3.OpLog().Len(), s3.ReplicationStatus().GetMax(), s3.ReplicationStatus().GetProgress()
				maxT := 0
				for _, e := range s3.OpLog().GetEntries().Slice() {
					if t := e.GetClock().GetTime(); t > maxT {
						maxT = t
					}
				}
				r.res.Comparisons++
				if n != store.OpLog().Len() {
					return // not the complete log: the rule speaks of a complete one
				}
				if gp != gm || gm < maxT || gm > n {
					r.violate("rest", fmt.Sprintf("reading replica %s, at rest with %d entries (largest time %d): progress %d, max %d", when, n, maxT, gp, gm), n, []int{gp, gm})
				}
			}
			r.checkMonotone(rc.S.ReplicationStatus(), "reading replica c")
			restRule(rc.S, "after replicating a's log")
			if err := c.restart("c", -1); err == nil && c.settle() == nil {
				r.checkMonotone(c.refs["c"].S.ReplicationStatus(), "reading replica c after reload")
				restRule(c.refs["c"].S, "after a restart and Load from its cache")
				r.res.Stats["reader_reloads"]++
			}
		}
	}
	// reload from disk: a fresh store object, status must rise monotonically to the entry count
	if err := c.restart("a", -1); err == nil {
		if err := c.settle(); err == nil {
			s2 := c.refs["a"].S
			r.checkMonotone(s2.ReplicationStatus(), "store a after reload")
			n, gm, gp := s2.OpLog().Len(), s2.ReplicationStatus().GetMax(), s2.ReplicationStatus().GetProgress()
			r.res.Comparisons++
			if n > 0 && (gp != gm || gm > n) {
				r.violate("rest", fmt.Sprintf("after reload with %d entries: progress %d, max %d", n, gp, gm), n, []int{gp, gm})
			}
		}
	}
	// save a snapshot, then a fresh store object loads it: same rule at rest, and monotone while it loads
	if s2 := c.refs["a"].S; s2.OpLog().Len() > 0 {
		ctx := context.Background()
		if _, err := basestore.SaveSnapshot(ctx, s2); err != nil {
			r.res.note("%s: SaveSnapshot: %v", b.ID, err)
		} else {
			r.checkMonotone(s2.ReplicationStatus(), "store a after SaveSnapshot")
			// the store that saved the snapshot loads it itself (it holds every entry of it already): nothing moves
			if err := s2.LoadFromSnapshot(ctx); err != nil {
				r.res.note("%s: LoadFromSnapshot on the store that saved it: %v", b.ID, err)
			} else if err := c.settle(); err == nil {
				r.checkMonotone(s2.ReplicationStatus(), "store a loading its own snapshot")
				n, gm, gp := s2.OpLog().Len(), s2.ReplicationStatus().GetMax(), s2.ReplicationStatus().GetProgress()
				r.res.Comparisons++
				r.res.Stats["own_snapshot_loads"]++
				if gp != gm || gm > n {
					r.violate("rest", fmt.Sprintf("after a store of %d entries loaded the snapshot it had just saved: progress %d, max %d", n, gp, gm), n, []int{gp, gm})
				}
			}
			want := s2.OpLog().Len()
			n := c.nodes["a"]
			p := n.P
			if err := n.Close(); err == nil {
				if nn, err := p.Start(""); err == nil {
					c.nodes["a"] = nn
					if ref, err := nn.Open(c.addr, realType(c.stype), c.openOpts()); err == nil {
						c.refs["a"] = ref
						if err := ref.S.LoadFromSnapshot(ctx); err != nil {
							r.res.note("%s: LoadFromSnapshot: %v", b.ID, err)
						} else if err := c.settle(); err == nil {
							s3 := ref.S
							r.checkMonotone(s3.ReplicationStatus(), "store a loading a snapshot")
							cnt, gm, gp := s3.OpLog().Len(), s3.ReplicationStatus().GetMax(), s3.ReplicationStatus().GetProgress()
							maxT := 0
							for _, e := range s3.OpLog().GetEntries().Slice() {
								if t := e.GetClock().GetTime(); t > maxT {
									maxT = t
								}
							}
							r.res.Comparisons++
							r.res.Stats["snapshot_loads"]++
							if cnt == want && (gp != gm || gm < maxT || gm > cnt) {
								r.violate("rest", fmt.Sprintf("at rest after loading a snapshot of %d entries (largest time %d): progress %d, max %d", cnt, maxT, gp, gm), cnt, []int{gp, gm})
							}
						}
					}
				}
			}
		}
	}
	if len(r.res.Samples) < 3 {
		r.res.Samples = append(r.res.Samples, map[string]interface{}{"behaviour": b.ID, "actions": briefSteps(b.Steps)})
	}
}

func statusCmd(args []string) int {
	in := &StatusInput{}
	if len(args) < 2 || readJSON(args[0], in) != nil {
		fmt.Fprintln(os.Stderr, "usage: vh status <in.json> <out.json>")
		return 2
	}
	if err := sim.Install(); err != nil {
		fmt.Fprintln(os.Stderr, err)
		return 2
	}
	res := newResult("status")
	for i, b := range in.Behaviours {
		r := &stRun{in: in, res: res, bid: b.ID}
		r.run(b, i)
	}
	return res.write(args[1])
}
