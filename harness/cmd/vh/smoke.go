package main

import (
	"context"
	"fmt"
	"time"

	orbitdb "berty.tech/go-orbit-db"
	"verif/harness/sim"
)

func init() { commands["smoke"] = smoke }

func smoke(_ []string) int {
	if err := sim.Install(); err != nil {
		fmt.Println(err)
		return 2
	}
	ctx := context.Background()
	w := sim.NewWorld()
	a, b := w.AddPeer("a"), w.AddPeer("b")
	t0 := time.Now()
	na, err := a.Start("")
	if err != nil {
		fmt.Println(err)
		return 2
	}
	nb, _ := b.Start("")
	fmt.Println("start", time.Since(t0))
	ac := sim.AccessFor([]string{na.DB.Identity().ID, nb.DB.Identity().ID})
	ra, err := na.Open("db", "keyvalue", &orbitdb.CreateDBOptions{AccessController: ac})
	if err != nil {
		fmt.Println(err)
		return 2
	}
	rb, err := nb.Open(ra.Addr, "keyvalue", nil)
	if err != nil {
		fmt.Println(err)
		return 2
	}
	fmt.Println("bag after open", len(w.Bag()))
	for _, m := range w.Bag() {
		fmt.Println("  ", m.Kind, m.From, "->", m.To)
	}
	kva := ra.S.(orbitdb.KeyValueStore)
	for i := 0; i < 3; i++ {
		if _, err := kva.Put(ctx, fmt.Sprintf("k%d", i), []byte("v")); err != nil {
			fmt.Println(err)
			return 2
		}
	}
	if err := sim.Settle(5*time.Second, na, nb); err != nil {
		fmt.Println(err)
		return 2
	}
	fmt.Println("bag after writes", len(w.Bag()))
	bag := w.Bag()
	last := bag[len(bag)-1]
	w.Take(last.ID)
	fmt.Println("deliver", last.Kind, last.From, "->", last.To, w.Deliver(last))
	if err := sim.Settle(5*time.Second, na, nb); err != nil {
		fmt.Println(err)
		fmt.Println(sim.Goroutines())
		return 2
	}
	fmt.Println("b sees", rb.S.(orbitdb.KeyValueStore).All(), rb.S.OpLog().Len(), rb.ReplStats())
	fmt.Println("total", time.Since(t0))
	na.Close()
	nb.Close()
	return 0
}
