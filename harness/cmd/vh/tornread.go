package main

import (
	"context"
	"fmt"
	"os"
	"sort"
	"strings"
	"sync"
	"sync/atomic"
	"time"

	orbitdb "berty.tech/go-orbit-db"
	"berty.tech/go-orbit-db/iface"

	"verif/harness/sim"
)

func init() { commands["tornread"] = tornReadCmd }

// TornReadInput: behaviours of spec/ReadView.tla. The writer steps (PutAll, PutOne, Del) are made on a real document
// store in the order of the behaviour while readers call Get and Query without pause; where a reader's steps fall
// among the writer's is left to the scheduler (there is no gate between the two reads of the pinned tree), so every
// answer is judged against the views of all the moments its call overlapped.
type TornReadInput struct {
	Property   string      `json:"property"`
	Seed       int64       `json:"seed"`
	Keys       []string    `json:"keys"`
	Behaviours []Behaviour `json:"behaviours"`
	Repeat     int         `json:"repeat"` // each behaviour's writer steps are made this many times over (tags keep growing)
}

type trView map[string]int

func (v trView) String() string {
	ks := []string{}
	for k, t := range v {
		if t != 0 {
			ks = append(ks, fmt.Sprintf("%s:%d", k, t))
		}
	}
	sort.Strings(ks)
	return "{" + strings.Join(ks, " ") + "}"
}

func trAnswer(docs []interface{}) (trView, error) {
	out := trView{}
	for _, d := range docs {
		m, ok := d.(map[string]interface{})
		if !ok {
			return nil, fmt.Errorf("a document of type %T", d)
		}
		k, _ := m["_id"].(string)
		t, _ := m["tag"].(float64)
		if _, dup := out[k]; dup {
			return nil, fmt.Errorf("document %s twice in one answer", k)
		}
		out[k] = int(t)
	}
	return out, nil
}

func tornReadCmd(args []string) int {
	in := &TornReadInput{}
	if len(args) < 2 || readJSON(args[0], in) != nil {
		fmt.Fprintln(os.Stderr, "usage: vh tornread <in.json> <out.json>")
		return 2
	}
	if err := sim.Install(); err != nil {
		fmt.Fprintln(os.Stderr, err)
		return 2
	}
	res := newResult("tornread")
	ctx := context.Background()
	w := sim.NewWorld()
	node, err := w.AddPeer("tornread").Start("")
	if err != nil {
		fmt.Fprintln(os.Stderr, err)
		return 2
	}
	defer node.Close()
	if in.Repeat < 1 {
		in.Repeat = 1
	}
	pad := strings.Repeat("p", 4096) // the documents are decoded between the reads of the pinned tree: a wider window
	for bi, b := range in.Behaviours {
		ref, err := node.Open(fmt.Sprintf("torn-%d", bi), "docstore", nil)
		if err != nil {
			res.Inconclusive = append(res.Inconclusive, b.ID+": "+err.Error())
			continue
		}
		ds := ref.S.(orbitdb.DocumentStore)
		mark("%s: readers of a document store against the writes of the behaviour", b.ID)
		res.Behaviours++

		// hist[v] = the view once v writer steps have returned; written by the writer before the step begins
		var mu sync.Mutex
		hist := []trView{{}}
		var started, done int64
		var stop int32
		viol := func(step int, kind, detail string, exp, got interface{}) {
			mu.Lock()
			defer mu.Unlock()
			res.violate(Violation{Property: in.Property, Kind: kind, Behaviour: b.ID, Step: step, Detail: detail, Expected: exp, Got: got})
		}
		judge := func(what string, lo, hi int64, docs []interface{}, err error) bool {
			if err != nil {
				viol(int(lo), "read-error", what+" failed while the view was being rebuilt: "+err.Error(), nil, err.Error())
				return false
			}
			ans, err := trAnswer(docs)
			if err != nil {
				viol(int(lo), "torn-read", what+": "+err.Error(), nil, nil)
				return false
			}
			mu.Lock()
			cands := []string{}
			ok := false
			for v := lo; v <= hi && int(v) < len(hist); v++ {
				cands = append(cands, hist[v].String())
				ok = ok || hist[v].String() == ans.String()
			}
			mu.Unlock()
			if !ok {
				viol(int(lo), "torn-read", fmt.Sprintf("%s returned documents that are the view of no moment of the call (writer steps %d..%d)", what, lo, hi), cands, ans.String())
			}
			return ok
		}
		var wg sync.WaitGroup
		var reads int64
		reader := func(what string, call func() ([]interface{}, error)) {
			defer wg.Done()
			for atomic.LoadInt32(&stop) == 0 {
				lo := atomic.LoadInt64(&done)
				docs, err := call()
				hi := atomic.LoadInt64(&started)
				atomic.AddInt64(&reads, 1)
				if !judge(what, lo, hi, docs, err) {
					return
				}
			}
		}
		wg.Add(3)
		go reader("Get(\"\", partial)", func() ([]interface{}, error) {
			return ds.Get(ctx, "", &iface.DocumentStoreGetOptions{PartialMatches: true})
		})
		go reader("Query(all)", func() ([]interface{}, error) {
			return ds.Query(ctx, func(interface{}) (bool, error) { return true, nil })
		})
		go reader("Get(\"K\", partial, case-insensitive)", func() ([]interface{}, error) {
			return ds.Get(ctx, "K", &iface.DocumentStoreGetOptions{PartialMatches: true, CaseInsensitive: true})
		})

		cur := trView{}
		step := 0
		failed := false
		for rep := 0; rep < in.Repeat && !failed; rep++ {
			for _, st := range b.Steps {
				if st.Action != "PutAll" && st.Action != "PutOne" && st.Action != "Del" {
					continue // the reader's steps: not under the harness's control
				}
				step++
				next := trView{}
				for k, t := range cur {
					next[k] = t
				}
				key := ""
				if len(st.Args) > 0 {
					key = "k-" + fmt.Sprint(st.Args[0])
				}
				doc := func(k string) map[string]interface{} {
					return map[string]interface{}{"_id": k, "tag": step, "pad": pad}
				}
				switch st.Action {
				case "PutAll":
					for _, k := range in.Keys {
						next["k-"+k] = step
					}
				case "PutOne":
					next[key] = step
				case "Del":
					if cur[key] == 0 {
						step--
						continue // (a repeated behaviour: the key is absent this time round)
					}
					delete(next, key)
				}
				mu.Lock()
				hist = append(hist, next)
				mu.Unlock()
				atomic.AddInt64(&started, 1)
				var err error
				switch st.Action {
				case "PutAll":
					batch := []interface{}{}
					for _, k := range in.Keys {
						batch = append(batch, doc("k-"+k))
					}
					_, err = ds.PutAll(ctx, batch)
				case "PutOne":
					_, err = ds.Put(ctx, doc(key))
				case "Del":
					_, err = ds.Delete(ctx, key)
				}
				atomic.AddInt64(&done, 1)
				res.Steps++
				if err != nil {
					res.Inconclusive = append(res.Inconclusive, fmt.Sprintf("%s: %s: %v", b.ID, st.Action, err))
					failed = true
					break
				}
				cur = next
				time.Sleep(200 * time.Microsecond)
			}
		}
		atomic.StoreInt32(&stop, 1)
		wg.Wait()
		res.Stats["reads"] += int(atomic.LoadInt64(&reads))
		// at rest: the answer is the last view
		docs, err := ds.Query(ctx, func(interface{}) (bool, error) { return true, nil })
		n := int64(len(hist) - 1)
		judge("Query(all) at rest", n, n, docs, err)
		_ = ref.S.Close()
	}
	return res.write(args[1])
}
