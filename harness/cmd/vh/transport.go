package main

import (
	"bytes"
	"context"
	"encoding/binary"
	"fmt"
	"math/rand"
	"os"
	"sort"
	"sync"
	"time"

	"berty.tech/go-orbit-db/iface"
	"berty.tech/go-orbit-db/pubsub"
	"berty.tech/go-orbit-db/pubsub/directchannel"
	"berty.tech/go-orbit-db/pubsub/oneonone"
	"berty.tech/go-orbit-db/pubsub/pubsubcoreapi"
	"github.com/ipfs/boxo/path"
	coreiface "github.com/ipfs/kubo/core/coreiface"
	"github.com/ipfs/kubo/core/coreiface/options"
	"github.com/libp2p/go-libp2p/core/crypto"
	"github.com/libp2p/go-libp2p/core/peer"
	"github.com/libp2p/go-libp2p/p2p/host/eventbus"
	mocknet "github.com/libp2p/go-libp2p/p2p/net/mock"
	"go.uber.org/zap"
)

func init() { commands["transport"] = transportCmd }

// TransportInput: behaviours of spec/Transport.tla fed to the real adapters.
type TransportInput struct {
	Property   string      `json:"property"`
	Seed       int64       `json:"seed"`
	Behaviours []Behaviour `json:"behaviours"`
	Frames     bool        `json:"frames"` // run the frame cases (real libp2p streams over mocknet)
	FramesOnly bool        `json:"frames_only"`
	Names      int         `json:"names"`     // random peer id pairs for the channel-name check
	Flows      []Behaviour `json:"flows"`     // behaviours of spec/TransportFlow.tla (publishes against a reader that stalls)
	FlowUnit   int         `json:"flow_unit"` // messages of the real adapter per message of the model (real channel size / Cap)
}

// ---------------------------------------------------------------------------
// a scripted coreiface.PubSubAPI

type sMsg struct {
	from peer.ID
	data []byte
}

func (m *sMsg) From() peer.ID    { return m.from }
func (m *sMsg) Data() []byte     { return m.data }
func (m *sMsg) Seq() []byte      { return nil }
func (m *sMsg) Topics() []string { return nil }

type sSub struct {
	ch     chan *sMsg
	closed chan struct{}
	once   sync.Once
}

func (s *sSub) Close() error { s.once.Do(func() { close(s.closed) }); return nil }
func (s *sSub) Next(ctx context.Context) (coreiface.PubSubMessage, error) {
	select {
	case m := <-s.ch:
		return m, nil
	case <-ctx.Done():
		return nil, ctx.Err()
	case <-s.closed:
		return nil, context.Canceled
	}
}

// sNet is the underlying pubsub shared by all scripted nodes.
type sNet struct {
	mu     sync.Mutex
	subs   map[string][]*sNodeSub // topic -> subscriptions
	topics []string               // every topic ever subscribed (for the channel-name check)
}

type sNodeSub struct {
	node *sNode
	sub  *sSub
}

type sNode struct {
	net *sNet
	id  peer.ID
	// scripted membership polls: Peers() for pollTopic takes the next snapshot from polls
	pollTopic string
	polls     chan []peer.ID
	asked     chan struct{}
	slowSub   time.Duration
}

func (n *sNode) Ls(context.Context) ([]string, error) { return nil, nil }

func (n *sNode) Peers(ctx context.Context, opts ...options.PubSubPeersOption) ([]peer.ID, error) {
	s, _ := options.PubSubPeersOptions(opts...)
	if n.polls != nil && s.Topic == n.pollTopic {
		select {
		case n.asked <- struct{}{}:
		case <-ctx.Done():
			return nil, ctx.Err()
		}
		select {
		case snap := <-n.polls:
			return snap, nil
		case <-ctx.Done():
			return nil, ctx.Err()
		}
	}
	// everybody subscribed to the topic, except the caller
	n.net.mu.Lock()
	defer n.net.mu.Unlock()
	out := []peer.ID{}
	for _, s := range n.net.subs[s.Topic] {
		if s.node != n {
			out = append(out, s.node.id)
		}
	}
	return out, nil
}

func (n *sNode) Publish(_ context.Context, topic string, data []byte) error {
	n.net.mu.Lock()
	subs := append([]*sNodeSub{}, n.net.subs[topic]...)
	n.net.mu.Unlock()
	for _, s := range subs {
		// as real pubsub does, the publisher's own subscriptions receive the message too
		s.sub.ch <- &sMsg{from: n.id, data: append([]byte{}, data...)}
	}
	return nil
}

func (n *sNode) Subscribe(_ context.Context, topic string, _ ...options.PubSubSubscribeOption) (coreiface.PubSubSubscription, error) {
	if n.slowSub > 0 {
		time.Sleep(n.slowSub) // subscribing takes a while: calls made meanwhile overlap with this one
	}
	s := &sSub{ch: make(chan *sMsg, 1024), closed: make(chan struct{})}
	n.net.mu.Lock()
	n.net.subs[topic] = append(n.net.subs[topic], &sNodeSub{n, s})
	n.net.topics = append(n.net.topics, topic)
	n.net.mu.Unlock()
	return s, nil
}

type sSwarm struct{ coreiface.SwarmAPI }

func (sSwarm) Connect(context.Context, peer.AddrInfo) error { return fmt.Errorf("scripted: no swarm") }

type selfKey struct{ id peer.ID }

func (k *selfKey) Name() string    { return "self" }
func (k *selfKey) Path() path.Path { return nil }
func (k *selfKey) ID() peer.ID     { return k.id }

type sAPI struct {
	coreiface.CoreAPI
	n *sNode
}

func (a *sAPI) PubSub() coreiface.PubSubAPI { return a.n }
func (a *sAPI) Swarm() coreiface.SwarmAPI   { return sSwarm{} }

func newPeerID(seed string) peer.ID {
	priv, _, _ := crypto.GenerateEd25519Key(bytes.NewReader(bytes.Repeat([]byte(seed+"0123456789abcdef0123456789abcdef"), 4)))
	id, _ := peer.IDFromPrivateKey(priv)
	return id
}

// ---------------------------------------------------------------------------

type trRun struct {
	in  *TransportInput
	res *Result
	bid string
}

func (r *trRun) violate(step int, kind, detail string, exp, got interface{}) {
	r.res.violate(Violation{Property: r.in.Property, Kind: kind, Behaviour: r.bid, Step: step, Detail: detail, Expected: exp, Got: got})
}

func evKey(kind string, p string) string { return kind + ":" + p }

// membership + messages of one behaviour against pubsubcoreapi
func (r *trRun) behaviour(b Behaviour) {
	ctx, cancel := context.WithCancel(context.Background())
	defer cancel()
	net := &sNet{subs: map[string][]*sNodeSub{}}
	ids := map[string]peer.ID{"me": newPeerID("me"), "p1": newPeerID("p1"), "p2": newPeerID("p2"), "p3": newPeerID("p3")}
	name := map[peer.ID]string{}
	for n, id := range ids {
		name[id] = n
	}
	me := &sNode{net: net, id: ids["me"], pollTopic: "t", polls: make(chan []peer.ID), asked: make(chan struct{})}
	others := map[string]*sNode{}
	for _, p := range []string{"p1", "p2", "p3"} {
		others[p] = &sNode{net: net, id: ids[p]}
	}
	ps := pubsubcoreapi.NewPubSub(&sAPI{n: me}, me.id, time.Millisecond, zap.NewNop(), nil)
	topic, err := ps.TopicSubscribe(ctx, "t")
	if err != nil {
		r.res.Inconclusive = append(r.res.Inconclusive, b.ID+": "+err.Error())
		return
	}
	watchCtx, stopWatch := context.WithCancel(ctx)
	defer func() { stopWatch() }()
	peersCh, err := topic.WatchPeers(watchCtx)
	if err != nil {
		r.res.Inconclusive = append(r.res.Inconclusive, b.ID+": "+err.Error())
		return
	}
	msgCtx, stopMsgs := context.WithCancel(ctx)
	defer stopMsgs()
	msgCh, err := topic.WatchMessages(msgCtx)
	if err != nil {
		r.res.Inconclusive = append(r.res.Inconclusive, b.ID+": "+err.Error())
		return
	}
	defer func() {
		// the reader of the topic goes away (its store is closed): the adapter gives its subscription back, or the other
		// peers never see this peer leave the topic (and, when it comes back, never see it join)
		stopMsgs()
		r.res.Comparisons++
		deadline := time.Now().Add(2 * time.Second)
		for {
			open := 0
			net.mu.Lock()
			for _, s := range net.subs["t"] {
				if s.node == me {
					select {
					case <-s.sub.closed:
					default:
						open++
					}
				}
			}
			net.mu.Unlock()
			if open == 0 {
				return
			}
			if time.Now().After(deadline) {
				r.violate(len(b.Steps), "membership", fmt.Sprintf("%d subscription(s) of the adapter to the topic are still open 2 s after its reader's context ended: the peer never leaves the topic", open), 0, open)
				return
			}
			time.Sleep(10 * time.Millisecond)
		}
	}()
	waitAsked := func() bool {
		select {
		case <-me.asked:
			return true
		case <-time.After(3 * time.Second):
			return false
		}
	}
	if !waitAsked() {
		r.res.Inconclusive = append(r.res.Inconclusive, b.ID+": the adapter does not poll")
		return
	}
	r.res.Behaviours++
	gotEvents := 0
	sent := 0
	inbox := []string{}
	for si, st := range b.Steps {
		switch st.Action {
		case "Init":
			continue
		case "Poll":
			snap := []peer.ID{}
			for _, p := range asList(st.Args[0]) {
				snap = append(snap, ids[asStr(p)])
			}
			me.polls <- snap
			if !waitAsked() { // the adapter has emitted the difference and polls again
				r.res.Inconclusive = append(r.res.Inconclusive, b.ID+": the adapter stopped polling")
				return
			}
			want := []string{}
			all := asList(st.State["events"])
			for _, e := range all[gotEvents:] {
				l := asList(e)
				want = append(want, evKey(asStr(l[0]), asStr(l[1])))
			}
			gotEvents = len(all)
			got := []string{}
		drain:
			for {
				select {
				case e := <-peersCh:
					switch evt := e.(type) {
					case *iface.EventPubSubJoin:
						got = append(got, evKey("join", name[evt.Peer]))
					case *iface.EventPubSubLeave:
						got = append(got, evKey("leave", name[evt.Peer]))
					}
				default:
					break drain
				}
			}
			sort.Strings(want)
			sort.Strings(got)
			r.res.Comparisons++
			if fmt.Sprint(want) != fmt.Sprint(got) {
				r.violate(si, "membership", fmt.Sprintf("poll returned %v: reported %v, expected exactly one event per change", st.Args[0], got), want, got)
			}
			// Peers() of the adapter must be the last snapshot's set
			cur, _ := topic.Peers(ctx)
			set := map[string]bool{}
			for _, p := range cur {
				set[name[p]] = true
			}
			wantSet := map[string]bool{}
			for _, p := range asList(st.State["members"]) {
				wantSet[asStr(p)] = true
			}
			if len(set) != len(wantSet) {
				r.violate(si, "membership", "Peers() differs from the last membership snapshot", st.State["members"], cur)
			}
		case "Rewatch":
			// the reader of the membership goes away (its store is closed) and another one comes: same adapter, same topic name
			stopWatch()
			select {
			case _, ok := <-peersCh:
				for ok {
					_, ok = <-peersCh
				}
			case <-time.After(3 * time.Second):
				r.res.Inconclusive = append(r.res.Inconclusive, b.ID+": the stopped watcher does not end")
				return
			}
			watchCtx, stopWatch = context.WithCancel(ctx)
			t2, err := ps.TopicSubscribe(ctx, "t")
			if err != nil {
				r.res.Inconclusive = append(r.res.Inconclusive, b.ID+": "+err.Error())
				return
			}
			topic = t2
			if peersCh, err = topic.WatchPeers(watchCtx); err != nil {
				r.res.Inconclusive = append(r.res.Inconclusive, b.ID+": "+err.Error())
				return
			}
			if !waitAsked() {
				r.res.Inconclusive = append(r.res.Inconclusive, b.ID+": the new watcher does not poll")
				return
			}
			gotEvents = 0
		case "Publish":
			p := asStr(st.Args[0])
			sent++
			payload := []byte(fmt.Sprintf("%s-%d-%x", p, sent, rand.New(rand.NewSource(r.in.Seed+int64(sent))).Int63()))
			node := me
			if p != "me" {
				node = others[p]
			}
			_ = node.Publish(ctx, "t", payload)
			if p != "me" {
				select {
				case m := <-msgCh:
					inbox = append(inbox, string(m.Content))
					if string(m.Content) != string(payload) {
						r.violate(si, "message", "payload delivered differs from the payload sent", string(payload), string(m.Content))
					}
				case <-time.After(3 * time.Second):
					r.violate(si, "message", "a remote peer's message was not delivered", string(payload), nil)
				}
			}
			r.res.Comparisons++
			// nothing else may arrive (own messages, duplicates)
			select {
			case m := <-msgCh:
				r.violate(si, "message", "unexpected extra delivery (own message or duplicate)", nil, string(m.Content))
			case <-time.After(2 * time.Millisecond):
			}
			if want := len(asList(st.State["inbox"])); want != len(inbox) {
				r.violate(si, "message", "number of deliveries differs from the specification", want, len(inbox))
			}
		case "Frame":
			continue
		}
		r.res.Steps++
		r.res.Stats["action_"+st.Action]++
	}
	if len(r.res.Samples) < 3 {
		r.res.Samples = append(r.res.Samples, map[string]interface{}{"behaviour": b.ID, "actions": briefSteps(b.Steps)})
	}
}

// pairwise channel: name symmetry, attribution, no own messages, interleaved sends
func (r *trRun) oneOnOne() {
	r.bid = "oneonone"
	ctx, cancel := context.WithCancel(context.Background())
	defer cancel()
	rng := rand.New(rand.NewSource(r.in.Seed))
	for k := 0; k < r.in.Names; k++ {
		net := &sNet{subs: map[string][]*sNodeSub{}}
		a := &sNode{net: net, id: newPeerID(fmt.Sprintf("A%d-%d", k, rng.Int()))}
		b := &sNode{net: net, id: newPeerID(fmt.Sprintf("B%d-%d", k, rng.Int()))}
		type got struct {
			from peer.ID
			data string
		}
		c := &sNode{net: net, id: newPeerID(fmt.Sprintf("C3-%d-%d", k, rng.Int()))}
		recv := map[*sNode]chan got{a: make(chan got, 64), b: make(chan got, 64), c: make(chan got, 64)}
		chans := map[*sNode]iface.DirectChannel{}
		for _, n := range []*sNode{a, b, c} {
			n := n
			bus := eventbus.NewBus()
			em, _ := pubsub.NewPayloadEmitter(bus)
			sub, _ := bus.Subscribe(new(iface.EventPubSubPayload), eventbus.BufSize(64))
			go func() {
				for e := range sub.Out() {
					p := e.(iface.EventPubSubPayload)
					recv[n] <- got{p.Peer, string(p.Payload)}
				}
			}()
			api := &sAPI{n: n}
			f := oneonone.NewChannelFactory(&keyedAPI{sAPI: api, id: n.id})
			ch, err := f(ctx, em, nil)
			if err != nil {
				r.res.Inconclusive = append(r.res.Inconclusive, "oneonone: "+err.Error())
				return
			}
			chans[n] = ch
		}
		// A connects to B from two goroutines at once (two stores of one instance see the same peer join), B once
		a.slowSub = 20 * time.Millisecond
		errs := make(chan error, 3)
		// (each store connects under its own context, which ends when that store is closed)
		store1, close1 := context.WithCancel(ctx)
		store2, close2 := context.WithCancel(ctx)
		go func() { errs <- chans[a].Connect(store1, b.id) }()
		go func() { errs <- chans[a].Connect(store2, b.id) }()
		go func() { errs <- chans[b].Connect(ctx, a.id) }()
		connectBound := time.After(20 * time.Second)
		for i := 0; i < 3; i++ {
			select {
			case err := <-errs:
				if err != nil {
					r.res.Inconclusive = append(r.res.Inconclusive, "oneonone connect: "+err.Error())
					return
				}
			case <-connectBound:
				// Connect waits until the other end shows up on the pairwise topic: it waits for ever when the two ends
				// subscribe to different names
				net.mu.Lock()
				topics := append([]string{}, net.topics...)
				net.mu.Unlock()
				distinct := map[string]bool{}
				for _, t := range topics {
					distinct[t] = true
				}
				// both ends hold a subscription to one and the same topic: each is there for the other to see (Connect polls
				// once a second); a Connect that still has not returned 6 s later waits for its peer somewhere else
				onTopic := map[string]map[*sNode]bool{}
				net.mu.Lock()
				for t, subs := range net.subs {
					for _, sb := range subs {
						if onTopic[t] == nil {
							onTopic[t] = map[*sNode]bool{}
						}
						onTopic[t][sb.node] = true
					}
				}
				net.mu.Unlock()
				bothThere := false
				for _, ns := range onTopic {
					bothThere = bothThere || (ns[a] && ns[b])
				}
				stillWaiting := false
				if len(distinct) <= 1 && bothThere {
					select {
					case <-errs:
					case <-time.After(6 * time.Second):
						stillWaiting = true
					}
				}
				if len(distinct) > 1 {
					r.violate(k, "channel-name", "the two ends of a pairwise channel derived different channel names (Connect never returns)", nil, topics)
				} else if stillWaiting {
					r.violate(k, "channel-name", "both ends of a pairwise channel are subscribed to one topic and see each other there, yet a Connect call does not return: it waits for its peer under another name", nil, topics)
				} else {
					r.res.Inconclusive = append(r.res.Inconclusive, fmt.Sprintf("oneonone connect: no return within 20 s (topics subscribed: %v)", topics))
				}
				close1()
				close2()
				return
			}
		}
		r.res.Comparisons++
		net.mu.Lock()
		topics := append([]string{}, net.topics...)
		net.mu.Unlock()
		if len(topics) > 2 && topics[0] == topics[1] && topics[1] == topics[2] {
			r.violate(k, "message", "after overlapping Connect calls one end holds more than one subscription to the pairwise topic (each delivers every payload)", 2, len(topics))
		} else if len(topics) != 2 || topics[0] != topics[1] {
			r.violate(k, "channel-name", "the two ends of a pairwise channel derived different channel names", nil, topics)
			continue
		}
		// interleaved sends from both ends
		type sendT struct {
			from *sNode
			data string
		}
		sends := []sendT{}
		for i := 0; i < 6; i++ {
			from := a
			if rng.Intn(2) == 0 {
				from = b
			}
			sends = append(sends, sendT{from, fmt.Sprintf("m%d-%x", i, rng.Int63())})
		}
		for _, s := range sends {
			to := b
			if s.from == b {
				to = a
			}
			if err := chans[s.from].Send(ctx, to.id, []byte(s.data)); err != nil {
				r.violate(k, "pairwise", "Send failed: "+err.Error(), nil, nil)
			}
		}
		for _, n := range []*sNode{a, b} {
			want := []string{}
			other := a
			if n == a {
				other = b
			}
			for _, s := range sends {
				if s.from == other {
					want = append(want, s.data)
				}
			}
			gotL := []string{}
			timeout := time.After(2 * time.Second)
		loop:
			for len(gotL) < len(want) {
				select {
				case g := <-recv[n]:
					gotL = append(gotL, g.data)
					if g.from != other.id {
						r.violate(k, "pairwise", "payload attributed to the wrong peer", other.id.String(), g.from.String())
					}
				case <-timeout:
					break loop
				}
			}
			select {
			case g := <-recv[n]:
				gotL = append(gotL, "EXTRA:"+g.data)
			case <-time.After(3 * time.Millisecond):
			}
			r.res.Comparisons++
			if fmt.Sprint(gotL) != fmt.Sprint(want) {
				r.violate(k, "pairwise", "payloads received over the pairwise channel differ from those the other end sent (own messages must not come back)", want, gotL)
			}
		}
		// a third peer publishes on the pairwise topic (its name is derived from the two peer ids, anybody can compute it):
		// nothing may be delivered as coming from the other end of the pair
		third := &sNode{net: net, id: newPeerID(fmt.Sprintf("C%d-%d", k, rng.Int()))}
		_ = third.Publish(ctx, topics[0], []byte("third-party"))
		r.res.Comparisons++
		for _, n := range []*sNode{a, b} {
			select {
			case g := <-recv[n]:
				r.violate(k, "pairwise", fmt.Sprintf("a payload published on the pairwise topic by a third peer was delivered and attributed to the other end of the pair (%q)", g.data), nil, g.from.String())
			case <-time.After(30 * time.Millisecond):
			}
		}
		// a third store of A's instance has the same peer join (its Connect finds the channel there); the two stores that
		// connected first are closed: the instance is not, and the third store still relies on the channel
		store3, close3 := context.WithCancel(ctx)
		// (bounded: the store's context is ended after 20 s only if Connect has not returned by then)
		ctxS3, cancelS3 := context.WithCancel(store3)
		bound := time.AfterFunc(20*time.Second, cancelS3)
		err3 := chans[a].Connect(ctxS3, b.id)
		bound.Stop()
		if err3 != nil {
			// the channel to this peer exists: a Connect that waits can only be waiting on another name
			net.mu.Lock()
			now := append([]string{}, net.topics...)
			net.mu.Unlock()
			distinct := map[string]bool{}
			for _, t := range now {
				distinct[t] = true
			}
			// (the first Connect calls returned: both ends have been on the topic, seeing each other, ever since)
			r.violate(k, "channel-name", "a later Connect to a peer whose channel exists does not return within 20 s: it waits for the peer under another name than the one both ends are subscribed to", topics[0], now)
			close1()
			close2()
			close3()
			return
		}
		close1()
		close2()
		time.Sleep(20 * time.Millisecond)
		late := fmt.Sprintf("after-close-%x", rng.Int63())
		if err := chans[b].Send(ctx, a.id, []byte(late)); err != nil {
			r.violate(k, "pairwise", "Send failed: "+err.Error(), nil, nil)
		}
		r.res.Comparisons++
		select {
		case g := <-recv[a]:
			if g.data != late || g.from != b.id {
				r.violate(k, "pairwise", "after two of three connected stores were closed a payload arrived changed or misattributed", late, g.data)
			}
		case <-time.After(2 * time.Second):
			r.violate(k, "pairwise", "after the stores that connected first were closed (their contexts ended) a payload sent by the remote peer over the pairwise channel is never delivered, although the instance and a third store connected to the same peer are open", late, nil)
		}
		// a third peer with a channel of its own: every pair derives one name, whatever names were derived before
		pairs := [][2]*sNode{{a, c}, {c, a}, {b, c}, {c, b}}
		errs3 := make(chan error, len(pairs))
		ctx3, cancel3 := context.WithTimeout(ctx, 20*time.Second)
		for _, pr := range pairs {
			pr := pr
			go func() { errs3 <- chans[pr[0]].Connect(ctx3, pr[1].id) }()
		}
		failed := false
		for range pairs {
			if err := <-errs3; err != nil {
				failed = true
			}
		}
		if failed {
			net.mu.Lock()
			all := append([]string{}, net.topics...)
			net.mu.Unlock()
			distinct := map[string]bool{}
			for _, t := range all {
				distinct[t] = true
			}
			// every peer has subscribed to the channels of both its pairs (its Connect calls got that far), yet the names
			// are not three: some pair does not derive the same name at both ends. Otherwise the calls were merely slow.
			perNode := map[*sNode]map[string]bool{}
			net.mu.Lock()
			for t, subs := range net.subs {
				for _, sb := range subs {
					if perNode[sb.node] == nil {
						perNode[sb.node] = map[string]bool{}
					}
					perNode[sb.node][t] = true
				}
			}
			net.mu.Unlock()
			allSubscribed := len(perNode[a]) >= 2 && len(perNode[b]) >= 2 && len(perNode[c]) >= 2
			unshared := ""
			for _, pr := range [][2]*sNode{{a, b}, {a, c}, {b, c}} {
				common := false
				for t := range perNode[pr[0]] {
					common = common || perNode[pr[1]][t]
				}
				if !common {
					unshared = pr[0].id.String() + " / " + pr[1].id.String()
				}
			}
			if unshared == "" {
				// every pair is on a common topic by now: a Connect made again returns at once, unless it waits elsewhere
				again := make(chan error, len(pairs))
				ctx4, cancel4 := context.WithTimeout(ctx, 8*time.Second)
				for _, pr := range pairs {
					pr := pr
					go func() { again <- chans[pr[0]].Connect(ctx4, pr[1].id) }()
				}
				for range pairs {
					if err := <-again; err != nil {
						unshared = "a Connect made again, with both ends on a common topic, does not return within 8 s"
					}
				}
				cancel4()
				allSubscribed = unshared != ""
			}
			if allSubscribed && unshared != "" {
				r.violate(k, "channel-name", "three peers connected pairwise: every peer has subscribed to two channels, yet the two ends of a pair ("+unshared+") share none: they do not derive the same name", 3, all)
			} else {
				r.res.Inconclusive = append(r.res.Inconclusive, "oneonone connect (three peers): no return within 20 s")
			}
			cancel3()
			close3()
			for _, ch := range chans {
				_ = ch.Close()
			}
			continue
		}
		r.res.Comparisons++
		for _, pr := range pairs {
			data := fmt.Sprintf("three-%s-%x", pr[0].id.String()[len(pr[0].id.String())-4:], rng.Int63())
			if err := chans[pr[0]].Send(ctx, pr[1].id, []byte(data)); err != nil {
				r.violate(k, "pairwise", "Send failed: "+err.Error(), nil, nil)
				continue
			}
			select {
			case g := <-recv[pr[1]]:
				if g.data != data || g.from != pr[0].id {
					r.violate(k, "pairwise", "among three peers a payload reached a peer it was not sent to, or changed, or misattributed", data+" from "+pr[0].id.String(), g.data+" from "+g.from.String())
				}
			case <-time.After(2 * time.Second):
				r.violate(k, "pairwise", "among three peers a payload sent over a pairwise channel is never delivered to the peer it was sent to", data, nil)
			}
		}
		for _, n := range []*sNode{a, b, c} {
			select {
			case g := <-recv[n]:
				r.violate(k, "pairwise", fmt.Sprintf("among three peers a peer received a payload it was not sent (%q)", g.data), nil, g.from.String())
			case <-time.After(10 * time.Millisecond):
			}
		}
		cancel3()
		close3()
		for _, c := range chans {
			_ = c.Close()
		}
		r.res.Steps++
	}
}

type keyedAPI struct {
	*sAPI
	id peer.ID
}

func (k *keyedAPI) Key() coreiface.KeyAPI { return &simpleKeyAPI{id: k.id} }

type simpleKeyAPI struct {
	coreiface.KeyAPI
	id peer.ID
}

func (s *simpleKeyAPI) Self(context.Context) (coreiface.Key, error) { return &selfKey{s.id}, nil }

// ---------------------------------------------------------------------------
// frames over real libp2p streams (mocknet)

func (r *trRun) frames() {
	r.bid = "frames"
	ctx, cancel := context.WithCancel(context.Background())
	defer cancel()
	mn, err := mocknet.FullMeshConnected(2)
	if err != nil {
		r.res.Inconclusive = append(r.res.Inconclusive, "mocknet: "+err.Error())
		return
	}
	defer mn.Close()
	hs := mn.Hosts()
	recvHost, sendHost := hs[0], hs[1]
	bus := eventbus.NewBus()
	em, _ := pubsub.NewPayloadEmitter(bus)
	sub, _ := bus.Subscribe(new(iface.EventPubSubPayload), eventbus.BufSize(16))
	rc, err := directchannel.InitDirectChannelFactory(zap.NewNop(), recvHost)(ctx, em, nil)
	if err != nil {
		r.res.Inconclusive = append(r.res.Inconclusive, "directchannel: "+err.Error())
		return
	}
	defer rc.Close()
	bus2 := eventbus.NewBus()
	em2, _ := pubsub.NewPayloadEmitter(bus2)
	sc, err := directchannel.InitDirectChannelFactory(zap.NewNop(), sendHost)(ctx, em2, nil)
	if err != nil {
		r.res.Inconclusive = append(r.res.Inconclusive, "directchannel: "+err.Error())
		return
	}
	defer sc.Close()
	max := directchannel.DelimitedReadMaxSize
	next := func(d time.Duration) (*iface.EventPubSubPayload, bool) {
		select {
		case e := <-sub.Out():
			p := e.(iface.EventPubSubPayload)
			return &p, true
		case <-time.After(d):
			return nil, false
		}
	}
	rng := rand.New(rand.NewSource(r.in.Seed))
	payloadOf := func(n int) []byte {
		b := make([]byte, n)
		rng.Read(b)
		return b
	}
	raw := func(bs ...[]byte) error {
		s, err := sendHost.NewStream(ctx, recvHost.ID(), directchannel.PROTOCOL)
		if err != nil {
			return err
		}
		// a receiver that has stopped reading must not wedge the driver
		done := make(chan error, 1)
		go func() {
			for _, b := range bs {
				if _, err := s.Write(b); err != nil {
					break
				}
			}
			done <- s.Close()
		}()
		select {
		case err := <-done:
			return err
		case <-time.After(2 * time.Second):
			_ = s.Reset()
			return fmt.Errorf("the receiver does not read the stream")
		}
	}
	varint := func(v uint64) []byte {
		b := make([]byte, binary.MaxVarintLen64)
		return b[:binary.PutUvarint(b, v)]
	}
	type fc struct {
		name    string
		size    int      // payload through Send (>=0) ...
		rawData [][]byte // ... or raw bytes on a stream
		deliver bool
	}
	cases := []fc{
		{"empty", 0, nil, true}, {"one", 1, nil, true}, {"small", 300, nil, true},
		{"64KiB", 64 * 1024, nil, true}, {"100KiB-a", 100 * 1024, nil, true}, {"100KiB-b", 100 * 1024, nil, true}, {"1MiB", 1 << 20, nil, true},
		{"max+1", max + 1, nil, false}, {"max-1", max - 1, nil, true}, {"max", max, nil, true},
		{"truncated", -1, [][]byte{varint(100), payloadOf(10)}, false},
		{"length-only", -1, [][]byte{varint(50)}, false},
		{"overflow-2^31", -1, [][]byte{varint(1 << 31), payloadOf(8)}, false},
		{"overflow-2^63", -1, [][]byte{varint(1 << 63), payloadOf(8)}, false},
		{"overflow-2^64-1", -1, [][]byte{varint(^uint64(0)), payloadOf(8)}, false},
		{"bad-varint", -1, [][]byte{bytes.Repeat([]byte{0xff}, 11)}, false},
		{"no-bytes", -1, [][]byte{}, false},
		{"trailing-garbage", -1, [][]byte{varint(3), []byte("abc"), payloadOf(40)}, true},
	}
	type keptFrame struct {
		name      string
		sent, got []byte
	}
	kept := []keptFrame{}
	order := rng.Perm(len(cases))
	for i, ci := range order {
		c := cases[ci]
		mark("frames: case %s", c.name)
		var sent []byte
		if c.size >= 0 {
			sent = payloadOf(c.size)
			if err := sc.Send(ctx, recvHost.ID(), sent); err != nil && c.deliver {
				r.violate(i, "frame", "Send of a frame within the limit failed: "+err.Error(), nil, nil)
			}
		} else {
			if c.name == "trailing-garbage" {
				sent = []byte("abc")
			}
			if err := raw(c.rawData...); err != nil {
				r.res.note("frames: raw stream for %s: %v", c.name, err)
			}
		}
		r.res.Comparisons++
		r.res.Stats["frame_"+c.name]++
		p, ok := next(map[bool]time.Duration{true: 5 * time.Second, false: 150 * time.Millisecond}[c.deliver])
		if c.deliver {
			if !ok {
				r.violate(i, "frame", fmt.Sprintf("frame %s (%d bytes) was not delivered", c.name, len(sent)), len(sent), nil)
			} else {
				if !bytes.Equal(p.Payload, sent) {
					r.violate(i, "frame", fmt.Sprintf("frame %s delivered with different bytes (%d vs %d)", c.name, len(p.Payload), len(sent)), nil, nil)
				} else {
					// the application keeps what it was given (no copy) and looks at it again after the later frames
					kept = append(kept, keptFrame{c.name, sent, p.Payload})
				}
				if p.Peer != sendHost.ID() {
					r.violate(i, "frame", "frame attributed to the wrong peer", sendHost.ID().String(), p.Peer.String())
				}
			}
		} else if ok {
			r.violate(i, "frame", fmt.Sprintf("frame %s must be refused but %d bytes were delivered", c.name, len(p.Payload)), nil, nil)
		}
		// later traffic is unaffected: a small valid frame goes through after every case
		probe := payloadOf(17)
		if err := sc.Send(ctx, recvHost.ID(), probe); err != nil {
			r.violate(i, "frame", "Send after case "+c.name+" failed: "+err.Error(), nil, nil)
			continue
		}
		p, ok = next(5 * time.Second)
		if !ok || !bytes.Equal(p.Payload, probe) {
			r.violate(i, "frame", "a valid frame sent after case "+c.name+" was not delivered intact", nil, nil)
		}
		if _, extra := next(5 * time.Millisecond); extra {
			r.violate(i, "frame", "a frame was delivered twice after case "+c.name, nil, nil)
		}
		// the same bytes sent again are another payload (heads are announced again, unchanged, whenever a peer joins)
		if i%3 == 0 {
			if err := sc.Send(ctx, recvHost.ID(), probe); err != nil {
				r.violate(i, "frame", "second Send of the same payload failed: "+err.Error(), nil, nil)
			} else if p, ok = next(5 * time.Second); !ok || !bytes.Equal(p.Payload, probe) {
				r.violate(i, "frame", "a payload sent twice in a row was delivered once only: every payload sent is delivered", nil, nil)
			}
			r.res.Comparisons++
		}
		r.res.Steps++
	}
	// many malformed frames in a row (whatever a handler holds while it reads a frame must be given back when the
	// frame is bad): then a valid frame still goes through
	for _, burst := range []struct {
		name string
		data [][]byte
	}{{"truncated", [][]byte{varint(100), payloadOf(10)}}, {"length-only", [][]byte{varint(50)}}, {"max+1 announced", [][]byte{varint(uint64(max) + 1)}}} {
		for k := 0; k < 24; k++ {
			_ = raw(burst.data...)
		}
		mark("frames: valid frame after 24 frames of kind %s", burst.name)
		probe := payloadOf(33)
		r.res.Comparisons++
		sctx, scancel := context.WithTimeout(ctx, 5*time.Second)
		sent := make(chan error, 1)
		go func() { sent <- sc.Send(sctx, recvHost.ID(), probe) }()
		var serr error
		select {
		case serr = <-sent:
		case <-time.After(6 * time.Second):
			serr = fmt.Errorf("Send does not return")
		}
		scancel()
		if serr != nil {
			r.violate(len(cases), "frame", "a valid frame could not be sent after a series of "+burst.name+" frames: "+serr.Error(), nil, nil)
			continue
		}
		got := false
		deadline := time.Now().Add(5 * time.Second)
		for time.Now().Before(deadline) && !got {
			p, ok := next(time.Until(deadline))
			got = ok && bytes.Equal(p.Payload, probe)
		}
		if !got {
			r.violate(len(cases), "frame", "a valid frame sent after 24 "+burst.name+" frames was never delivered", nil, nil)
		}
	}
	for _, k := range kept {
		r.res.Comparisons++
		if !bytes.Equal(k.got, k.sent) {
			r.violate(len(cases), "frame", fmt.Sprintf("the payload of frame %s was delivered intact and changed while later frames were received", k.name), nil, nil)
		}
	}
}

// flow replays a behaviour of spec/TransportFlow.tla on the real pubsubcoreapi adapter: every Publish of the
// model is a burst of FlowUnit messages by that peer, every Read consumes FlowUnit messages; Forward is the
// adapter's own goroutine and is not gated (the Sim specification takes it as soon as it is enabled).
func (r *trRun) flow(b Behaviour) {
	ctx, cancel := context.WithCancel(context.Background())
	defer cancel()
	unit := r.in.FlowUnit
	net := &sNet{subs: map[string][]*sNodeSub{}}
	ids := map[string]peer.ID{"me": newPeerID("me"), "p1": newPeerID("p1"), "p2": newPeerID("p2"), "p3": newPeerID("p3")}
	me := &sNode{net: net, id: ids["me"]}
	others := map[string]*sNode{}
	for _, p := range []string{"p1", "p2", "p3"} {
		others[p] = &sNode{net: net, id: ids[p]}
	}
	ps := pubsubcoreapi.NewPubSub(&sAPI{n: me}, me.id, time.Hour, zap.NewNop(), nil)
	topic, err := ps.TopicSubscribe(ctx, "flow")
	if err != nil {
		r.res.Inconclusive = append(r.res.Inconclusive, b.ID+": "+err.Error())
		return
	}
	msgCh, err := topic.WatchMessages(ctx)
	if err != nil {
		r.res.Inconclusive = append(r.res.Inconclusive, b.ID+": "+err.Error())
		return
	}
	r.res.Behaviours++
	expected := []string{} // payloads of remote peers in publication order
	read := 0
	n := 0
	take := func(si int, k int) bool {
		for i := 0; i < k; i++ {
			select {
			case m, ok := <-msgCh:
				if !ok {
					r.violate(si, "message", "the adapter closed its message channel", nil, nil)
					return false
				}
				r.res.Comparisons++
				if read >= len(expected) {
					r.violate(si, "message", "unexpected extra delivery (own message or duplicate)", nil, string(m.Content))
					return false
				}
				if string(m.Content) != expected[read] {
					r.violate(si, "message", fmt.Sprintf("delivery %d is not the next payload published by a remote peer (lost, duplicated or reordered)", read+1), expected[read], string(m.Content))
					return false
				}
				read++
			case <-time.After(3 * time.Second):
				r.violate(si, "message", fmt.Sprintf("payload %d of %d published by remote peers was never delivered to a reader that had stalled", read+1, len(expected)), expected[read:min(read+3, len(expected))], nil)
				return false
			}
		}
		return true
	}
	for si, st := range b.Steps {
		switch st.Action {
		case "Init":
			continue
		case "Forward":
		case "Publish", "SPublish":
			p := asStr(st.Args[0])
			node := me
			if p != "me" {
				node = others[p]
			}
			for i := 0; i < unit; i++ {
				n++
				payload := fmt.Sprintf("%s-%06d", p, n)
				_ = node.Publish(ctx, "flow", []byte(payload))
				if p != "me" {
					expected = append(expected, payload)
				}
			}
		case "Read", "SRead":
			if !take(si, unit) {
				return
			}
		}
		r.res.Steps++
		r.res.Stats["action_"+st.Action]++
		if si+1 < len(b.Steps) && b.Steps[si+1].Action == "Forward" {
			continue // the model has not let the adapter's goroutine run yet
		}
		// let the adapter's goroutine forward what it can: the channel holds what the model says
		want := len(asList(st.State["chan"])) * unit
		deadline := time.Now().Add(2 * time.Second)
		for len(msgCh) != want && time.Now().Before(deadline) {
			time.Sleep(200 * time.Microsecond)
		}
		if len(msgCh) != want {
			r.res.note("%s step %d %s: %d messages wait in the adapter's channel, the model says %d", b.ID, si, st.Action, len(msgCh), want)
		}
	}
	// the reader drains: everything remote peers published, once, in order, and nothing else
	if !take(-1, len(expected)-read) {
		return
	}
	select {
	case m := <-msgCh:
		r.violate(-1, "message", "unexpected extra delivery (own message or duplicate)", nil, string(m.Content))
	case <-time.After(3 * time.Millisecond):
	}
	r.res.Stats["flow_messages"] += len(expected)
}

func transportCmd(args []string) int {
	in := &TransportInput{}
	if len(args) < 2 || readJSON(args[0], in) != nil {
		fmt.Fprintln(os.Stderr, "usage: vh transport <in.json> <out.json>")
		return 2
	}
	res := newResult("transport")
	r := &trRun{in: in, res: res}
	if !in.FramesOnly {
		for _, b := range in.Behaviours {
			r.bid = b.ID
			r.behaviour(b)
		}
		r.oneOnOne()
		for _, b := range in.Flows {
			r.bid = b.ID
			r.flow(b)
		}
	}
	if in.Frames || in.FramesOnly {
		r.frames()
	}
	return res.write(args[1])
}
