package main

import (
	"context"
	"fmt"
	"math/rand"
	"os"
	"sort"
	"strings"

	orbitdb "berty.tech/go-orbit-db"
	"berty.tech/go-orbit-db/accesscontroller"
	"berty.tech/go-orbit-db/address"
	"berty.tech/go-orbit-db/iface"
	"verif/harness/sim"
)

func init() { commands["registry"] = registryCmd }

// RegistryInput: behaviours of spec/Registry.tla on real instances, plus name classes.
type RegistryInput struct {
	Property   string      `json:"property"`
	Seed       int64       `json:"seed"`
	Behaviours []Behaviour `json:"behaviours"`
	NameCases  int         `json:"name_cases"`
}

var nameClasses = map[string][]string{
	"plain":        {"db", "orders", "x1", "a-b_c"},
	"unicode":      {"дневник", "データ", "café", "ключ-🔑"},
	"spaces":       {"my db", " lead", "trail ", "two  spaces"},
	"nested":       {"a/b", "a/b/c", "x/y"},
	"dotted":       {"./x", "x/.", "a/./b", ".hidden", "x."},
	"slashes":      {"x/", "a//b", "/x"},
	"inner-parent": {"a/../x", "a/b/../c"},
	"empty":        {""},
}

func typeOf(t string) string {
	switch t {
	case "kv":
		return "keyvalue"
	case "log":
		return "eventlog"
	}
	return "docstore"
}

type regRun struct {
	shared map[string]*orbitdb.CreateDBOptions // when set: one options value per instance, reused for every Create and Open
	in     *RegistryInput
	res    *Result
	bid    string
	step   int
	w      *sim.World
	nodes  map[string]*sim.Node
	names  map[string]string                 // abstract name -> concrete
	addrs  map[string]string                 // abstract address key -> real address
	real   map[string]string                 // real address -> abstract key
	open   map[string]map[string]iface.Store // instance -> abstract key -> store
}

func (r *regRun) violate(kind, detail string, exp, got interface{}) {
	r.res.violate(Violation{Property: r.in.Property, Kind: kind, Behaviour: r.bid, Step: r.step, Detail: detail, Expected: exp, Got: got})
}

func (r *regRun) writers(i string, l []interface{}) []string {
	if len(l) == 0 {
		return []string{r.nodes[i].DB.Identity().ID}
	}
	out := []string{}
	for _, x := range l {
		if asStr(x) == "*" {
			out = append(out, "*")
			continue
		}
		out = append(out, r.nodes[asStr(x)].DB.Identity().ID)
	}
	sort.Strings(out)
	return out
}

func absKey(a map[string]interface{}) string {
	w := []string{}
	for _, x := range asList(a["write"]) {
		w = append(w, asStr(x))
	}
	sort.Strings(w)
	return fmt.Sprintf("%s|%s|%s", asStr(a["name"]), asStr(a["type"]), strings.Join(w, ","))
}

func acList(s iface.Store) []string {
	l, _ := s.AccessController().GetAuthorizedByRole("write")
	out := append([]string{}, l...)
	sort.Strings(out)
	return out
}

// checkStore: the store opened for an abstract address has the recorded type and write list
func (r *regRun) checkStore(s iface.Store, a map[string]interface{}, what string) {
	r.res.Comparisons++
	if s.Type() != typeOf(asStr(a["type"])) {
		r.violate("open-type", what+": store type differs from the type recorded at creation", typeOf(asStr(a["type"])), s.Type())
	}
	want := []string{}
	for _, x := range asList(a["write"]) {
		if asStr(x) == "*" {
			want = append(want, "*")
			continue
		}
		want = append(want, r.nodes[asStr(x)].DB.Identity().ID)
	}
	sort.Strings(want)
	if got := acList(s); fmt.Sprint(got) != fmt.Sprint(want) {
		r.violate("open-writelist", what+": write list differs from the one given at creation", want, got)
	}
	// printed address parses back to the same root and path
	str := s.Address().String()
	p, err := address.Parse(str)
	if err != nil || !p.GetRoot().Equals(s.Address().GetRoot()) || p.GetPath() != s.Address().GetPath() || p.String() != str {
		r.violate("roundtrip", what+": printed address does not parse back to the same root and path", str, fmt.Sprint(p, err))
	}
}

func (r *regRun) bind(key, realAddr, what string) {
	r.res.Comparisons++
	if prev, ok := r.addrs[key]; ok && prev != realAddr {
		r.violate("deterministic", what+": the same name, type and write list gave two addresses", prev, realAddr)
	}
	if prevKey, ok := r.real[realAddr]; ok && prevKey != key {
		r.violate("injective", what+": different inputs gave the same address "+realAddr, prevKey, key)
	}
	r.addrs[key] = realAddr
	r.real[realAddr] = key
}

func (r *regRun) run(b Behaviour, idx int) {
	ctx := context.Background()
	rng := rand.New(rand.NewSource(r.in.Seed*977 + int64(idx)))
	r.w = sim.NewWorld()
	r.nodes = map[string]*sim.Node{}
	for _, i := range []string{"i1", "i2"} {
		n, err := r.w.AddPeer(fmt.Sprintf("g%d-%s", idx, i)).Start("")
		if err != nil {
			r.res.Inconclusive = append(r.res.Inconclusive, b.ID+": "+err.Error())
			return
		}
		r.nodes[i] = n
	}
	defer func() {
		for _, n := range r.nodes {
			_ = n.Close()
		}
	}()
	classes := []string{}
	for c := range nameClasses {
		classes = append(classes, c)
	}
	sort.Strings(classes)
	pick := func() string {
		c := nameClasses[classes[rng.Intn(len(classes))]]
		return c[rng.Intn(len(c))]
	}
	r.names = map[string]string{"n1": pick(), "n2": pick()}
	for r.names["n2"] == r.names["n1"] {
		r.names["n2"] = pick()
	}
	r.shared = nil
	if idx%2 == 1 {
		r.shared = map[string]*orbitdb.CreateDBOptions{"i1": {}, "i2": {}}
	}
	r.addrs, r.real = map[string]string{}, map[string]string{}
	r.open = map[string]map[string]iface.Store{"i1": {}, "i2": {}}
	r.res.Behaviours++
	for si, st := range b.Steps {
		r.step = si
		out := asMap(st.State["out"])
		res := asStr(out["res"])
		switch st.Action {
		case "Init":
			continue
		case "Create":
			i, n, t := asStr(st.Args[0]), asStr(st.Args[1]), asStr(st.Args[2])
			l := asList(st.Args[3])
			ow, _ := st.Args[4].(bool)
			a := asMap(out["addr"])
			key := absKey(a)
			if s, ok := r.open[i][key]; ok { // one handle per address at a time (double handles: C18)
				_ = s.Close()
				delete(r.open[i], key)
			}
			opts := &orbitdb.CreateDBOptions{}
			if r.shared != nil {
				// the caller keeps one options value per instance and sets the fields it cares about before every call
				opts = r.shared[i]
				opts.LocalOnly = nil
			}
			opts.Overwrite = &ow
			opts.AccessController = nil
			if len(l) > 0 {
				opts.AccessController = sim.AccessFor(r.writers(i, l))
			}
			what := fmt.Sprintf("Create(%s, %q, %s, %v, overwrite=%v)", i, r.names[n], t, l, ow)
			s, err := r.nodes[i].DB.Create(ctx, r.names[n], typeOf(t), opts)
			r.res.Comparisons++
			if res == "exists" {
				if err == nil {
					r.violate("create-existing", what+": creating over an existing local database without overwrite succeeded", nil, nil)
					_ = s.Close()
				}
				continue
			}
			if err != nil {
				r.violate("create-refused", what+": refused: "+err.Error(), nil, nil)
				return
			}
			r.open[i][key] = s
			r.bind(key, s.Address().String(), what)
			r.checkStore(s, a, what)
			// any other peer computes the same address from the same inputs
			for _, j := range []string{"i1", "i2"} {
				ac := sim.AccessFor(r.writers(i, l))
				da, err := r.nodes[j].DB.DetermineAddress(ctx, r.names[n], typeOf(t), &orbitdb.DetermineAddressOptions{AccessController: ac})
				r.res.Comparisons++
				if err != nil || da.String() != s.Address().String() {
					r.violate("deterministic", what+": instance "+j+" computes a different address from the same inputs", s.Address().String(), fmt.Sprint(da, err))
				}
			}
		case "Open":
			i := asStr(st.Args[0])
			a := asMap(st.Args[1])
			lo, _ := st.Args[2].(bool)
			key := absKey(a)
			realAddr, ok := r.addrs[key]
			if !ok {
				r.res.note("%s step %d: address %s not yet bound", b.ID, si, key)
				return
			}
			if s, ok := r.open[i][key]; ok {
				_ = s.Close()
				delete(r.open[i], key)
			}
			what := fmt.Sprintf("Open(%s, %s, localOnly=%v)", i, realAddr, lo)
			oopts := &orbitdb.CreateDBOptions{}
			if r.shared != nil {
				oopts = r.shared[i]
				oopts.Overwrite = nil
				oopts.AccessController = nil
			}
			oopts.LocalOnly = &lo
			s, err := r.nodes[i].DB.Open(ctx, realAddr, oopts)
			r.res.Comparisons++
			if res == "unknown" {
				if err == nil {
					r.violate("open-unknown", what+": a local-only open of a database unknown locally succeeded", nil, nil)
					_ = s.Close()
				}
				continue
			}
			if err != nil {
				r.violate("open-refused", what+": refused: "+err.Error(), nil, nil)
				return
			}
			r.open[i][key] = s
			if s.Address().String() != realAddr {
				r.violate("open-address", what+": the opened store has another address", realAddr, s.Address().String())
			}
			r.checkStore(s, a, what)
		case "Close", "Drop":
			i := asStr(st.Args[0])
			key := absKey(asMap(st.Args[1]))
			s, ok := r.open[i][key]
			if !ok {
				r.res.note("%s step %d: %s of a store the harness does not hold", b.ID, si, st.Action)
				return
			}
			var err error
			if st.Action == "Close" {
				err = s.Close()
			} else {
				err = s.Drop()
			}
			if err != nil {
				r.violate("close-error", st.Action+" failed: "+err.Error(), nil, nil)
			}
			delete(r.open[i], key)
		}
		r.res.Steps++
		r.res.Stats["action_"+st.Action]++
	}
	if len(r.res.Samples) < 3 {
		r.res.Samples = append(r.res.Samples, map[string]interface{}{"behaviour": b.ID, "names": r.names, "actions": briefSteps(b.Steps)})
	}
}

// nameCases: for names of every class, every type and two write lists: whatever
// Create accepts must give distinct, self-describing addresses.
func (r *regRun) nameCases(n int) {
	ctx := context.Background()
	r.bid = "names"
	rng := rand.New(rand.NewSource(r.in.Seed))
	w := sim.NewWorld()
	n1, err := w.AddPeer("names-1").Start("")
	if err != nil {
		r.res.Inconclusive = append(r.res.Inconclusive, "names: "+err.Error())
		return
	}
	defer n1.Close()
	n2, _ := w.AddPeer("names-2").Start("")
	defer n2.Close()
	// a valid root to build names that look like, or escape into, addresses
	seed, err := n1.DB.Create(ctx, "seed", "keyvalue", nil)
	if err != nil {
		r.res.Inconclusive = append(r.res.Inconclusive, "names: "+err.Error())
		return
	}
	root := seed.Address().GetRoot().String()
	all := []string{}
	for _, c := range nameClasses {
		all = append(all, c...)
	}
	all = append(all, "..", "../x", root+"/x", "/orbitdb/"+root+"/x", "/orbitdb/"+root)
	// names that try to walk out of the database root into another root: every way of
	// writing "go up" that path cleaning resolves, in front of a valid CID
	for _, pre := range []string{"", "/", "//", "./", "a/../", "/a/../", "a/b/../../", "/./"} {
		for _, up := range []string{"../", "../../", ".././", "..//"} {
			for _, suf := range []string{"/x", "/seed", ""} {
				all = append(all, pre+up+root+suf)
			}
		}
	}
	sort.Strings(all)
	rng.Shuffle(len(all), func(i, j int) { all[i], all[j] = all[j], all[i] })
	if n > 0 && n < len(all) {
		// keep the adversarial ones in every run
		keep := []string{}
		for _, x := range all {
			if strings.Contains(x, root) || strings.Contains(x, "..") {
				keep = append(keep, x)
			}
		}
		all = append(keep, all[:n]...)
	}
	seen := map[string]string{} // real address -> inputs
	prevRoot := ""
	lists := [][]string{nil, {n1.DB.Identity().ID, n2.DB.Identity().ID}}
	// first the address function alone (no local marker involved): whatever it accepts must be injective
	det := map[string]string{}
	for ci, name := range all {
		for _, t := range []string{"kv", "log", "doc"} {
			for li, l := range lists {
				r.step = ci
				inputs := fmt.Sprintf("name=%q type=%s list=%d", name, t, li)
				var ac accesscontroller.ManifestParams
				if l != nil {
					ac = sim.AccessFor(l)
				}
				da, err := n1.DB.DetermineAddress(ctx, name, typeOf(t), &orbitdb.DetermineAddressOptions{AccessController: ac})
				r.res.Comparisons++
				if err != nil {
					continue
				}
				if prev, ok := det[da.String()]; ok && prev != inputs {
					r.violate("injective", fmt.Sprintf("DetermineAddress gives the same address %s for different inputs", da.String()), prev, inputs)
				}
				det[da.String()] = inputs
			}
		}
	}
	for ci, name := range all {
		for _, t := range []string{"kv", "log", "doc"} {
			for li, l := range lists {
				r.step = ci
				inputs := fmt.Sprintf("name=%q type=%s list=%d", name, t, li)
				var ac accesscontroller.ManifestParams
				if l != nil {
					ac = sim.AccessFor(l)
				}
				mark("names: Create %s", inputs)
				s, err := n1.DB.Create(ctx, name, typeOf(t), &orbitdb.CreateDBOptions{AccessController: ac})
				r.res.Comparisons++
				r.res.Stats["name_cases"]++
				if err != nil {
					r.res.Stats["names_refused"]++
					continue // not a name accepted by Create
				}
				addr := s.Address().String()
				if prev, ok := seen[addr]; ok && prev != inputs {
					r.violate("injective", fmt.Sprintf("different inputs give the same address %s", addr), prev, inputs)
				}
				seen[addr] = inputs
				if p, err := address.Parse(addr); err != nil || p.String() != addr || !p.GetRoot().Equals(s.Address().GetRoot()) || p.GetPath() != s.Address().GetPath() {
					r.violate("roundtrip", "printed address does not parse back ("+inputs+")", addr, fmt.Sprint(p, err))
				}
				// an address string that climbs out of the root of the database created before and names this one: if it is
				// accepted, what it prints must parse back to what it is, and opening it must not yield this database's
				// address over the other database's manifest
				if prevRoot != "" && prevRoot != s.Address().GetRoot().String() {
					climb := "/orbitdb/" + prevRoot + "/../" + s.Address().GetRoot().String() + "/" + s.Address().GetPath()
					r.res.Comparisons++
					r.res.Stats["climbing_addresses"]++
					if p, err := address.Parse(climb); err == nil {
						if q, err2 := address.Parse(p.String()); err2 != nil || !q.GetRoot().Equals(p.GetRoot()) || q.GetPath() != p.GetPath() {
							r.violate("roundtrip", fmt.Sprintf("the address string %s is accepted with root %s and path %q, and prints as %s, which does not parse back to the same root and path", climb, p.GetRoot(), p.GetPath(), p.String()), climb, fmt.Sprint(q, err2))
						}
						mark("names: Open %s", climb)
						if s3, err := n2.DB.Open(ctx, climb, &orbitdb.CreateDBOptions{}); err == nil {
							if s3.Address().String() == addr && (s3.Type() != typeOf(t) || fmt.Sprint(acList(s3)) != fmt.Sprint(acList(s))) {
								r.violate("open-type", fmt.Sprintf("opening %s yields a store that prints the address %s with the type and write list of another database (%s, %v)", climb, addr, s3.Type(), acList(s3)), typeOf(t), s3.Type())
							}
							_ = s3.Close()
						}
					}
				}
				prevRoot = s.Address().GetRoot().String()
				// the same with the cache directory given as an option: created, closed, created again - refused
				if r.res.Stats["directory_option_cases"] < 12 {
					r.res.Stats["directory_option_cases"]++
					other := "another-directory"
					dname := name + "-kept-elsewhere"
					mark("names: Create %q with the Directory option, twice", dname)
					if s1, err := n1.DB.Create(ctx, dname, typeOf(t), &orbitdb.CreateDBOptions{AccessController: ac, Directory: &other}); err == nil {
						_ = s1.Close()
						r.res.Comparisons++
						if s2, err := n1.DB.Create(ctx, dname, typeOf(t), &orbitdb.CreateDBOptions{AccessController: ac, Directory: &other}); err == nil {
							r.violate("create-existing", fmt.Sprintf("Create(%q, %s) with the Directory option succeeded twice without overwrite: creating over an existing local database is refused", dname, t), nil, nil)
							_ = s2.Close()
						}
						if s3, err := n1.DB.Create(ctx, dname, typeOf(t), &orbitdb.CreateDBOptions{AccessController: ac}); err == nil {
							r.violate("create-existing", fmt.Sprintf("Create(%q, %s) succeeded without overwrite after the same database had been created with the Directory option", dname, t), nil, nil)
							_ = s3.Close()
						}
					}
				}
				// another peer computes the same address and opens the same database
				ac2 := sim.AccessFor(acList(s))
				if l != nil {
					ac2 = sim.AccessFor(l) // same list, same order
				}
				da, err := n2.DB.DetermineAddress(ctx, name, typeOf(t), &orbitdb.DetermineAddressOptions{AccessController: ac2})
				if err != nil || da.String() != addr {
					r.violate("deterministic", "another peer computes a different address ("+inputs+")", addr, fmt.Sprint(da, err))
				}
				mark("names: Open %s on another peer (%s)", addr, inputs)
				s2, err := n2.DB.Open(ctx, addr, &orbitdb.CreateDBOptions{})
				if err != nil {
					r.violate("open-refused", "the address of a created database cannot be opened on another peer ("+inputs+"): "+err.Error(), nil, nil)
				} else {
					if s2.Type() != typeOf(t) {
						r.violate("open-type", "opening the address yields a store of another type ("+inputs+")", typeOf(t), s2.Type())
					}
					if fmt.Sprint(acList(s2)) != fmt.Sprint(acList(s)) {
						r.violate("open-writelist", "opening the address yields another write list ("+inputs+")", acList(s), acList(s2))
					}
					_ = s2.Close()
				}
				_ = s.Close()
			}
		}
	}
}

func registryCmd(args []string) int {
	in := &RegistryInput{}
	if len(args) < 2 || readJSON(args[0], in) != nil {
		fmt.Fprintln(os.Stderr, "usage: vh registry <in.json> <out.json>")
		return 2
	}
	if err := sim.Install(); err != nil {
		fmt.Fprintln(os.Stderr, err)
		return 2
	}
	res := newResult("registry")
	for i, b := range in.Behaviours {
		r := &regRun{in: in, res: res, bid: b.ID}
		r.run(b, i)
	}
	r := &regRun{in: in, res: res}
	r.nameCases(in.NameCases)
	return res.write(args[1])
}
