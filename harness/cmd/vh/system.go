package main

import (
	"context"
	"encoding/json"
	"fmt"
	"math/rand"
	"os"
	"sort"
	"strings"

	ipfslog "berty.tech/go-ipfs-log"
	orbitdb "berty.tech/go-orbit-db"
	"berty.tech/go-orbit-db/iface"
	"verif/harness/sim"
)

func init() { commands["system"] = systemCmd }

// SystemInput: behaviours of spec/SimSystem.tla on real replicas over the simulated network.
type SystemInput struct {
	Property   string      `json:"property"`
	Seed       int64       `json:"seed"`
	Replicas   []string    `json:"replicas"`
	Behaviours []Behaviour `json:"behaviours"`
}

type sysRun struct {
	in    *SystemInput
	res   *Result
	bid   string
	step  int
	w     *sim.World
	peers map[string]*sim.Peer
	nodes map[string]*sim.Node
	refs  map[string]*sim.StoreRef
	addr  string
	ids   map[string]int
	n     int
	name  map[string]string // sim peer name -> spec replica
}

func (r *sysRun) violate(kind, detail string, exp, got interface{}) {
	r.res.violate(Violation{Property: r.in.Property, Kind: kind, Behaviour: r.bid, Step: r.step, Detail: detail, Expected: exp, Got: got})
}

func (r *sysRun) allNodes() []*sim.Node {
	out := []*sim.Node{}
	for _, n := range r.in.Replicas {
		out = append(out, r.nodes[n])
	}
	return out
}

func (r *sysRun) setup(tag string) error {
	r.w = sim.NewWorld()
	r.peers, r.nodes, r.refs = map[string]*sim.Peer{}, map[string]*sim.Node{}, map[string]*sim.StoreRef{}
	r.ids, r.name = map[string]int{}, map[string]string{}
	for _, n := range r.in.Replicas {
		p := r.w.AddPeer(tag + "-" + n)
		r.peers[n] = p
		r.name[p.Name] = n
		nd, err := p.Start("")
		if err != nil {
			return err
		}
		r.nodes[n] = nd
	}
	first := r.in.Replicas[0]
	ref, err := r.nodes[first].Open("sys-"+tag, "eventlog", &orbitdb.CreateDBOptions{AccessController: sim.AccessFor([]string{"*"})})
	if err != nil {
		return err
	}
	r.refs[first], r.addr = ref, ref.Addr
	for _, n := range r.in.Replicas[1:] {
		if r.refs[n], err = r.nodes[n].Open(r.addr, "eventlog", nil); err != nil {
			return err
		}
	}
	if err := sim.Settle(settleTimeout, r.allNodes()...); err != nil {
		return err
	}
	// the joins observed while the replicas opened the (empty) database exchange nothing: handle them now
	if err := r.flushAll(); err != nil {
		return err
	}
	return nil
}

// flushAll delivers everything in flight, repeatedly, until nothing is left.
func (r *sysRun) flushAll() error {
	for i := 0; i < 200; i++ {
		bag := r.w.Bag()
		if len(bag) == 0 {
			return sim.Settle(settleTimeout, r.allNodes()...)
		}
		for _, m := range bag {
			r.w.Take(m.ID)
			r.w.Deliver(m)
		}
		if err := sim.Settle(settleTimeout, r.allNodes()...); err != nil {
			return err
		}
	}
	return fmt.Errorf("messages keep flowing")
}

func (r *sysRun) headsOf(m *sim.Msg) []int {
	out := []int{}
	if m.Kind != "pub" && m.Kind != "direct" {
		return out
	}
	var x iface.MessageExchangeHeads
	if json.Unmarshal(m.Payload, &x) != nil {
		return []int{-9}
	}
	for _, h := range x.Heads {
		if h == nil {
			continue
		}
		if id, ok := r.ids[h.GetHash().String()]; ok {
			out = append(out, id)
		} else {
			out = append(out, -1)
		}
	}
	sort.Ints(out)
	return dedup(out) // the exchange lists _localHeads then _remoteHeads: the same head may appear twice
}

func (r *sysRun) msgKey(kind, from, to string, heads []int) string {
	return fmt.Sprintf("%s %s->%s %v", kind, from, to, heads)
}

func (r *sysRun) realBag() map[string][]*sim.Msg {
	out := map[string][]*sim.Msg{}
	for _, m := range r.w.Bag() {
		if m.Kind == "leave" {
			r.w.Take(m.ID)
			continue
		}
		k := r.msgKey(m.Kind, r.name[m.From], r.name[m.To], r.headsOf(m))
		out[k] = append(out[k], m)
	}
	return out
}

func (r *sysRun) specMsgKey(m map[string]interface{}) string {
	return r.msgKey(asStr(m["kind"]), asStr(m["from"]), asStr(m["to"]), sortedInts(asInts(m["heads"])))
}

func (r *sysRun) logIDs(n string) []int {
	out := []int{}
	for _, e := range r.refs[n].S.OpLog().GetEntries().Slice() {
		if id, ok := r.ids[e.GetHash().String()]; ok {
			out = append(out, id)
		} else {
			out = append(out, -1)
		}
	}
	sort.Ints(out)
	return out
}

var errSysDrift = fmt.Errorf("drift")

// pick returns one in-flight message matching the specification's message. The
// specification keeps the messages in flight as a set (a second delivery is its
// dup flag), so further identical copies are discarded by the network here.
func (r *sysRun) pick(m map[string]interface{}) *sim.Msg {
	l := r.realBag()[r.specMsgKey(m)]
	if len(l) == 0 {
		return nil
	}
	for _, x := range l[1:] {
		r.w.Take(x.ID)
	}
	return l[0]
}

func (r *sysRun) apply(st Step) error {
	ctx := context.Background()
	switch st.Action {
	case "Init":
		return nil
	case "Write":
		n := asStr(st.Args[0])
		r.n++
		op, err := r.refs[n].S.(orbitdb.EventLogStore).Add(ctx, []byte(fmt.Sprintf("w%d", r.n)))
		if err != nil {
			r.violate("write-error", err.Error(), nil, nil)
			return err
		}
		r.ids[op.GetEntry().GetHash().String()] = r.n
	case "Receive":
		m := asMap(st.Args[0])
		dup, _ := st.Args[1].(bool)
		rm := r.pick(m)
		if rm == nil {
			r.res.note("%s step %d: no message %s in flight", r.bid, r.step, r.specMsgKey(m))
			return errSysDrift
		}
		if !dup {
			r.w.Take(rm.ID)
		}
		r.w.Deliver(rm)
	case "Replicate":
		// happens by itself as soon as the blocks can be fetched
	case "ObserveJoin":
		m := asMap(st.Args[0])
		rm := r.pick(m)
		if rm == nil {
			r.res.note("%s step %d: no join notification %s pending", r.bid, r.step, r.specMsgKey(m))
			return errSysDrift
		}
		r.w.Take(rm.ID)
		r.w.Deliver(rm)
	case "Drop":
		m := asMap(st.Args[0])
		rm := r.pick(m)
		if rm == nil {
			r.res.note("%s step %d: no message %s in flight", r.bid, r.step, r.specMsgKey(m))
			return errSysDrift
		}
		r.w.Take(rm.ID)
	case "Cut":
		r.w.Cut(r.peers[asStr(st.Args[0])].Name, r.peers[asStr(st.Args[1])].Name)
	case "Heal":
		r.w.Heal(r.peers[asStr(st.Args[0])].Name, r.peers[asStr(st.Args[1])].Name)
	case "Restart":
		n := asStr(st.Args[0])
		if err := r.nodes[n].Close(); err != nil {
			r.violate("close-error", err.Error(), nil, nil)
		}
		nd, err := r.peers[n].Start("")
		if err != nil {
			return err
		}
		r.nodes[n] = nd
		if r.refs[n], err = nd.Open(r.addr, "eventlog", nil); err != nil {
			r.violate("reopen-error", err.Error(), nil, nil)
			return err
		}
		if err := r.refs[n].S.Load(ctx, -1); err != nil {
			r.violate("load-error", err.Error(), nil, nil)
			return err
		}
	case "Finalize":
		r.finalize()
	default:
		return fmt.Errorf("unknown action %s", st.Action)
	}
	return nil
}

// finalize: every link up, every ordered pair observes the other on the topic once more.
func (r *sysRun) finalize() {
	for i, a := range r.in.Replicas {
		for _, b := range r.in.Replicas[i+1:] {
			r.w.Heal(r.peers[a].Name, r.peers[b].Name)
		}
	}
	have := r.realBag()
	for _, a := range r.in.Replicas {
		for _, b := range r.in.Replicas {
			if a == b {
				continue
			}
			if len(have[r.msgKey("join", b, a, []int{})]) == 0 {
				r.w.Inject(&sim.Msg{Kind: "join", Topic: r.addr, From: r.peers[b].Name, To: r.peers[a].Name})
			}
		}
	}
}

// waiting reports whether some replica has a replication blocked on unavailable blocks.
func (r *sysRun) waiting() bool {
	for _, p := range sim.TheHub.ParkedList() {
		_ = p
	}
	return false
}

func (r *sysRun) settleStep() error {
	// a replication whose blocks cannot be fetched stays pending: settle only the replicas that can come to rest
	err := sim.Settle(settleTimeout/4, r.allNodes()...)
	return err
}

func (r *sysRun) run(b Behaviour, idx int, rng *rand.Rand) {
	if err := r.setup(fmt.Sprintf("y%d", idx)); err != nil {
		r.res.Inconclusive = append(r.res.Inconclusive, b.ID+": setup: "+err.Error())
		return
	}
	defer func() {
		for _, n := range r.allNodes() {
			_ = n.Close()
		}
	}()
	r.res.Behaviours++
	finalized := false
	for si, st := range b.Steps {
		r.step = si
		if err := r.apply(st); err != nil {
			if err != errSysDrift && len(r.res.Violations) == 0 {
				r.res.Inconclusive = append(r.res.Inconclusive, fmt.Sprintf("%s step %d %s: %v", b.ID, si, st.Action, err))
			}
			if err == errSysDrift {
				r.res.Stats["drift"]++
			}
			break
		}
		if st.Action == "Finalize" {
			finalized = true
		}
		// replicas whose pending replication cannot complete (spec: want non-empty) are not expected to be quiet
		pending := []*sim.Node{}
		for _, n := range r.in.Replicas {
			if len(asList(asMap(st.State["want"])[n])) == 0 {
				pending = append(pending, r.nodes[n])
			}
		}
		if err := sim.Settle(settleTimeout, pending...); err != nil {
			r.res.Inconclusive = append(r.res.Inconclusive, fmt.Sprintf("%s step %d %s: %v", b.ID, si, st.Action, err))
			return
		}
		r.res.Steps++
		r.res.Stats["action_"+st.Action]++
		// conformance: logs and the set of messages in flight
		for _, n := range r.in.Replicas {
			r.res.Comparisons++
			if want, got := sortedInts(asInts(asMap(st.State["log"])[n])), r.logIDs(n); !eqInts(want, got) {
				r.res.note("%s step %d %s: replica %s holds %v, specification %v", b.ID, si, st.Action, n, got, want)
			}
		}
		wantBag := map[string]bool{}
		for _, m := range asList(st.State["bag"]) {
			wantBag[r.specMsgKey(asMap(m))] = true
		}
		gotBag := map[string]bool{}
		for k := range r.realBag() {
			gotBag[k] = true
		}
		if fmt.Sprint(keysOf(wantBag)) != fmt.Sprint(keysOf(gotBag)) {
			r.res.note("%s step %d %s: in flight %v, specification %v", b.ID, si, st.Action, keysOf(gotBag), keysOf(wantBag))
		}
	}
	// final phase: no more faults, every link up, every pair observes the other; deliver in a seeded random order
	r.step = -1
	if !finalized {
		r.finalize()
	}
	for i := 0; i < 400; i++ {
		bag := r.w.Bag()
		if len(bag) == 0 {
			break
		}
		m := bag[rng.Intn(len(bag))]
		r.w.Take(m.ID)
		r.w.Deliver(m)
		if err := sim.Settle(settleTimeout, r.allNodes()...); err != nil {
			r.violate("not-quiescent", "in the final phase the replicas do not come to rest: "+err.Error(), nil, nil)
			return
		}
	}
	if err := sim.Settle(settleTimeout, r.allNodes()...); err != nil {
		r.violate("not-quiescent", "in the final phase the replicas do not come to rest: "+err.Error(), nil, nil)
		return
	}
	all := []int{}
	for i := 1; i <= r.n; i++ {
		all = append(all, i)
	}
	for _, n := range r.in.Replicas {
		r.res.Comparisons++
		if got := r.logIDs(n); !eqInts(got, all) {
			r.violate("not-delivered", fmt.Sprintf("after the final phase replica %s holds %v of the acknowledged writes %v", n, got, all), all, got)
		}
		ops, _ := r.refs[n].S.(orbitdb.EventLogStore).List(context.Background(), &iface.StreamOptions{Amount: intp(-1)})
		if len(ops) != len(all) {
			r.violate("not-delivered", fmt.Sprintf("after the final phase replica %s lists %d of %d writes", n, len(ops), len(all)), len(all), len(ops))
		}
	}
	if len(r.res.Samples) < 3 {
		r.res.Samples = append(r.res.Samples, map[string]interface{}{"behaviour": b.ID, "actions": briefSteps(b.Steps)})
	}
}

func intp(i int) *int { return &i }

func keysOf(m map[string]bool) []string {
	out := []string{}
	for k := range m {
		out = append(out, k)
	}
	sort.Strings(out)
	return out
}

var _ = strings.Join
var _ ipfslog.Entry

func systemCmd(args []string) int {
	in := &SystemInput{}
	if len(args) < 2 || readJSON(args[0], in) != nil {
		fmt.Fprintln(os.Stderr, "usage: vh system <in.json> <out.json>")
		return 2
	}
	if err := sim.Install(); err != nil {
		fmt.Fprintln(os.Stderr, err)
		return 2
	}
	res := newResult("system")
	for i, b := range in.Behaviours {
		r := &sysRun{in: in, res: res, bid: b.ID}
		r.run(b, i, rand.New(rand.NewSource(in.Seed*131+int64(i))))
	}
	return res.write(args[1])
}
