package main

import (
	"bytes"
	"context"
	"encoding/json"
	"fmt"
	"os"
	"sort"
	"time"

	ipfslog "berty.tech/go-ipfs-log"
	"berty.tech/go-ipfs-log/entry"
	orbitdb "berty.tech/go-orbit-db"
	"verif/harness/sim"
)

const settleTimeout = 20 * time.Second

// Violation is one property-level failure observed on the real code.
type Violation struct {
	Property  string      `json:"property"`
	Kind      string      `json:"kind"`
	Key       string      `json:"key,omitempty"` // known-finding signature, when recognised
	Behaviour string      `json:"behaviour"`
	Step      int         `json:"step"`
	Detail    string      `json:"detail"`
	Expected  interface{} `json:"expected,omitempty"`
	Got       interface{} `json:"got,omitempty"`
}

// Result is what every harness command writes for the check driver.
type Result struct {
	Command      string         `json:"command"`
	Behaviours   int            `json:"behaviours"`
	Steps        int            `json:"steps"`
	Comparisons  int            `json:"comparisons"`
	Violations   []Violation    `json:"violations"`
	Inconclusive []string       `json:"inconclusive"`
	Notes        []string       `json:"notes"`
	Samples      []interface{}  `json:"samples"`
	Stats        map[string]int `json:"stats"`
	TraceFile    string         `json:"trace_file,omitempty"`
	TraceEvents  int            `json:"trace_events"`
	Traces       int            `json:"traces"`
}

func newResult(cmd string) *Result {
	return &Result{Command: cmd, Violations: []Violation{}, Inconclusive: []string{}, Notes: []string{}, Samples: []interface{}{}, Stats: map[string]int{}}
}

func (r *Result) violate(v Violation) {
	if len(r.Violations) < 200 {
		r.Violations = append(r.Violations, v)
	}
	r.Stats["violations_total"]++
}

func (r *Result) note(format string, a ...interface{}) {
	if len(r.Notes) < 100 {
		r.Notes = append(r.Notes, fmt.Sprintf(format, a...))
	}
	r.Stats["notes_total"]++
}

func (r *Result) write(path string) int {
	b, _ := json.MarshalIndent(r, "", " ")
	if path == "" || path == "-" {
		os.Stdout.Write(b)
	} else if err := os.WriteFile(path, b, 0o644); err != nil {
		fmt.Fprintln(os.Stderr, err)
		return 2
	}
	if len(r.Violations) > 0 {
		return 1
	}
	if len(r.Inconclusive) > 0 {
		return 2
	}
	return 0
}

func readJSON(path string, v interface{}) error {
	b, err := os.ReadFile(path)
	if err != nil {
		return err
	}
	d := json.NewDecoder(bytes.NewReader(b))
	d.UseNumber()
	return d.Decode(v)
}

// Step is one step of a TLC behaviour as produced by tools/tlaparse.py.
type Step struct {
	Action string                 `json:"action"`
	Args   []interface{}          `json:"args"`
	State  map[string]interface{} `json:"state"`
}

// Behaviour is a TLC behaviour.
type Behaviour struct {
	ID    string `json:"id"`
	Steps []Step `json:"steps"`
}

func asInt(v interface{}) int {
	switch x := v.(type) {
	case json.Number:
		i, _ := x.Int64()
		return int(i)
	case float64:
		return int(x)
	case int:
		return x
	}
	return 0
}

func asInts(v interface{}) []int {
	l, _ := v.([]interface{})
	out := make([]int, 0, len(l))
	for _, x := range l {
		out = append(out, asInt(x))
	}
	return out
}

func asStr(v interface{}) string {
	s, _ := v.(string)
	return s
}

func asMap(v interface{}) map[string]interface{} {
	m, _ := v.(map[string]interface{})
	return m
}

func asList(v interface{}) []interface{} {
	l, _ := v.([]interface{})
	return l
}

func sortedInts(s []int) []int {
	o := append([]int{}, s...)
	sort.Ints(o)
	return o
}

func eqInts(a, b []int) bool {
	if len(a) != len(b) {
		return false
	}
	for i := range a {
		if a[i] != b[i] {
			return false
		}
	}
	return true
}

// cluster is a set of real replicas of one database in a simulated world,
// named by the specification's replica names in public-key order.
type cluster struct {
	w        *sim.World
	names    []string // spec names in rank order
	nodes    map[string]*sim.Node
	refs     map[string]*sim.StoreRef
	addr     string
	stype    string
	ids      map[string]int        // entry hash -> spec id
	entries  map[int]ipfslog.Entry // spec id -> real entry
	writers  []string              // identity ids allowed to write
	openOpts func() *orbitdb.CreateDBOptions
}

func realType(t string) string {
	switch t {
	case "kv":
		return "keyvalue"
	case "doc":
		return "docstore"
	}
	return "eventlog"
}

// newCluster starts len(names) instances and opens one database on each. The
// spec's replica names are assigned in the byte order of the identities' public
// keys, which is the tie-break order of the log (constant Rank).
func newCluster(names []string, stype string, tag string) (*cluster, error) {
	w := sim.NewWorld()
	type cand struct {
		n  *sim.Node
		pk []byte
	}
	cands := []cand{}
	for i := range names {
		p := w.AddPeer(fmt.Sprintf("%s-p%d", tag, i))
		n, err := p.Start("")
		if err != nil {
			return nil, err
		}
		cands = append(cands, cand{n, n.DB.Identity().PublicKey})
	}
	sort.Slice(cands, func(i, j int) bool { return bytes.Compare(cands[i].pk, cands[j].pk) < 0 })
	sn := append([]string{}, names...)
	sort.Strings(sn)
	c := &cluster{w: w, names: sn, nodes: map[string]*sim.Node{}, refs: map[string]*sim.StoreRef{}, stype: stype,
		ids: map[string]int{}, entries: map[int]ipfslog.Entry{}}
	for i, name := range sn {
		c.nodes[name] = cands[i].n
		c.writers = append(c.writers, cands[i].n.DB.Identity().ID)
	}
	c.openOpts = func() *orbitdb.CreateDBOptions { return &orbitdb.CreateDBOptions{} }
	first := sn[0]
	o := c.openOpts()
	o.AccessController = sim.AccessFor(c.writers)
	ref, err := c.nodes[first].Open("db-"+tag, realType(stype), o)
	if err != nil {
		return nil, err
	}
	c.refs[first] = ref
	c.addr = ref.Addr
	for _, name := range sn[1:] {
		r, err := c.nodes[name].Open(c.addr, realType(stype), c.openOpts())
		if err != nil {
			return nil, err
		}
		c.refs[name] = r
	}
	return c, nil
}

func (c *cluster) allNodes() []*sim.Node {
	out := []*sim.Node{}
	for _, n := range c.names {
		out = append(out, c.nodes[n])
	}
	return out
}

func (c *cluster) settle() error { return sim.Settle(settleTimeout, c.allNodes()...) }

func (c *cluster) close() {
	sim.TheHub.ReleaseAll()
	for _, n := range c.allNodes() {
		if n != nil {
			_ = n.Close()
		}
	}
}

// restart closes the instance of a replica and reopens the database from the
// peer's durable state, then loads it.
func (c *cluster) restart(name string, amount int) error {
	n := c.nodes[name]
	p := n.P
	if err := n.Close(); err != nil {
		return err
	}
	nn, err := p.Start("")
	if err != nil {
		return err
	}
	c.nodes[name] = nn
	r, err := nn.Open(c.addr, realType(c.stype), c.openOpts())
	if err != nil {
		return err
	}
	c.refs[name] = r
	return r.S.Load(context.Background(), amount)
}

func (c *cluster) record(id int, e ipfslog.Entry) {
	c.ids[e.GetHash().String()] = id
	c.entries[id] = e
}

func copyEntry(e ipfslog.Entry) ipfslog.Entry {
	if ee, ok := e.(*entry.Entry); ok {
		return ee.Copy()
	}
	return e
}

// listing returns the spec ids of the replica's log in Values() order; unknown
// hashes are reported as negative numbers.
func (c *cluster) listing(name string) []int {
	out := []int{}
	for _, e := range c.refs[name].S.OpLog().Values().Slice() {
		if id, ok := c.ids[e.GetHash().String()]; ok {
			out = append(out, id)
		} else {
			out = append(out, -1)
		}
	}
	return out
}

func (c *cluster) heads(name string) []int {
	out := []int{}
	for _, e := range c.refs[name].S.OpLog().Heads().Slice() {
		if id, ok := c.ids[e.GetHash().String()]; ok {
			out = append(out, id)
		} else {
			out = append(out, -1)
		}
	}
	sort.Ints(out)
	return out
}

// mark records what the harness is about to do, so that the check driver can
// attribute a crash of this process (a panic in a goroutine of the code under
// test) to the case that caused it.
func mark(format string, a ...interface{}) {
	if p := os.Getenv("VH_MARKER"); p != "" {
		_ = os.WriteFile(p, []byte(fmt.Sprintf(format, a...)), 0o644)
	}
}
