package main

import (
	"berty.tech/go-orbit-db/address"
	"berty.tech/go-orbit-db/stores/basestore"
	"context"
	"encoding/hex"
	"encoding/json"
	"fmt"
	"github.com/decred/dcrd/dcrec/secp256k1/v4"
	cbornode "github.com/ipfs/go-ipld-cbor"
	"github.com/libp2p/go-libp2p/core/crypto"
	multibase "github.com/multiformats/go-multibase"
	mh "github.com/multiformats/go-multihash"
	"os"
	"sort"
	"strings"
	"time"

	ipfslog "berty.tech/go-ipfs-log"
	"berty.tech/go-ipfs-log/entry"
	idp "berty.tech/go-ipfs-log/identityprovider"
	"berty.tech/go-ipfs-log/keystore"
	orbitdb "berty.tech/go-orbit-db"
	"berty.tech/go-orbit-db/iface"
	cid "github.com/ipfs/go-cid"
	"verif/harness/sim"
)

func init() { commands["auth"] = authCmd }

// AuthInput: admission cases of spec/Auth.tla realised with real entries.
type AuthInput struct {
	FlipReuse bool     `json:"flip_reuse"` // swap which cases let the replica reuse one options value
	Property  string   `json:"property"`   // C03 | C04
	Seed      int64    `json:"seed"`
	Lists     []string `json:"lists"`  // explicit | wildcard | empty | creator
	Routes    []string `json:"routes"` // local | announce | exchange | manual | ancestor
	Classes   []string `json:"classes"`
	Stores    []string `json:"stores"` // kv | log | doc
}

type authEnv struct {
	viaSnapshot      bool   // restartReplica saves a snapshot before stopping and loads it after starting
	snapErr          error  // error of LoadFromSnapshot in the last restartReplica
	linkByRefs       bool   // the colluding head reaches the hostile entry through refs instead of next
	decoy            string // address of another database the replica opens first with the same options value ("" = fresh options)
	w                *sim.World
	w1, w2, r, x     *sim.Node
	rw1, rw2, rr, rx *sim.StoreRef
	addr             string
	list             string
	stype            string
}

func (a *authEnv) close() {
	for _, n := range []*sim.Node{a.w1, a.w2, a.r, a.x} {
		if n != nil {
			_ = n.Close()
		}
	}
}

func newAuthEnv(tag, list, stype string) (*authEnv, error) {
	a := &authEnv{w: sim.NewWorld(), list: list, stype: stype}
	var err error
	mk := func(name string) *sim.Node {
		if err != nil {
			return nil
		}
		var n *sim.Node
		n, err = a.w.AddPeer(tag + "-" + name).Start("")
		return n
	}
	a.w1, a.w2, a.r, a.x = mk("w1"), mk("w2"), mk("r"), mk("x")
	if err != nil {
		return nil, err
	}
	var writers []string
	switch list {
	case "explicit":
		// (the replica under test may write too: forgeries can then name the very replica that receives them)
		writers = []string{a.w1.DB.Identity().ID, a.w2.DB.Identity().ID, a.r.DB.Identity().ID}
	case "wildcard":
		writers = []string{"*"}
	case "empty":
		writers = []string{} // the creator's own id becomes the default
	case "creator":
		writers = []string{a.w1.DB.Identity().ID}
	}
	if a.rw1, err = a.w1.Open("auth-"+tag, realType(stype), &orbitdb.CreateDBOptions{AccessController: sim.AccessFor(writers)}); err != nil {
		return nil, err
	}
	a.addr = a.rw1.Addr
	if a.rw2, err = a.w2.Open(a.addr, realType(stype), nil); err != nil {
		return nil, err
	}
	if authReuseOptions {
		// the application on replica r keeps one options value for every database it opens, and opens another
		// database (anyone may write there) before the one under test
		dx, err := a.x.Open("decoy-"+tag, realType(stype), &orbitdb.CreateDBOptions{AccessController: sim.AccessFor([]string{"*"})})
		if err != nil {
			return nil, err
		}
		a.decoy = dx.Addr
	}
	if a.rr, err = a.openReplica(a.r); err != nil {
		return nil, err
	}
	if a.rx, err = a.x.Open(a.addr, realType(stype), nil); err != nil {
		return nil, err
	}
	return a, nil
}

// authReuseOptions: set by the driver for every second case.
var authReuseOptions bool

func (a *authEnv) openReplica(n *sim.Node) (*sim.StoreRef, error) {
	if a.decoy == "" {
		return n.Open(a.addr, realType(a.stype), nil)
	}
	opts := &orbitdb.CreateDBOptions{}
	if _, err := n.Open(a.decoy, realType(a.stype), opts); err != nil {
		return nil, err
	}
	return n.Open(a.addr, realType(a.stype), opts)
}

// writeListBlock finds the block holding the write list: database manifest -> access-controller manifest -> params.address.
func (a *authEnv) writeListBlock() (cid.Cid, bool) {
	pa, err := address.Parse(a.addr)
	if err != nil {
		return cid.Undef, false
	}
	raw, ok := a.w1.P.RawBlock(pa.GetRoot())
	if !ok {
		return cid.Undef, false
	}
	var man map[string]interface{}
	if cbornode.DecodeInto(raw, &man) != nil {
		return cid.Undef, false
	}
	if os.Getenv("VH_DEBUG") != "" {
		fmt.Fprintf(os.Stderr, "DBG manifest %v\n", man)
	}
	acAddr, _ := man["access_controller"].(string)
	parts := strings.Split(strings.Trim(acAddr, "/"), "/")
	acCid, err := cid.Decode(parts[len(parts)-1])
	if err != nil {
		return cid.Undef, false
	}
	raw2, ok := a.w1.P.RawBlock(acCid)
	if !ok {
		return cid.Undef, false
	}
	var acm map[string]interface{}
	if cbornode.DecodeInto(raw2, &acm) != nil {
		return cid.Undef, false
	}
	if os.Getenv("VH_DEBUG") != "" {
		fmt.Fprintf(os.Stderr, "DBG acmanifest %v\n", acm)
	}
	params, _ := acm["params"].(map[string]interface{})
	if params == nil {
		params, _ = acm["manifest"].(map[string]interface{})
	}
	switch v := params["address"].(type) {
	case cid.Cid:
		return v, true
	case string:
		c, err := cid.Decode(strings.TrimPrefix(v, "/ipfs/"))
		return c, err == nil
	}
	return cid.Undef, false
}

func (a *authEnv) listed(n *sim.Node) bool {
	switch a.list {
	case "wildcard":
		return true
	case "explicit":
		return n == a.w1 || n == a.w2 || n == a.r
	}
	return n == a.w1
}

// restartReplica closes the replica's instance, starts a new one on the same durable state,
// reopens the database and loads it.
func (a *authEnv) restartReplica() error {
	p := a.r.P
	snap := false
	if a.viaSnapshot {
		// the state comes back through a snapshot instead of the cached heads
		if _, err := basestore.SaveSnapshot(context.Background(), a.rr.S); err == nil {
			snap = true
		}
	}
	if err := a.r.Close(); err != nil {
		return err
	}
	n, err := p.Start("")
	if err != nil {
		return err
	}
	a.r = n
	if a.rr, err = a.openReplica(n); err != nil {
		return err
	}
	if snap {
		// a snapshot that was saved without error and cannot be loaded is an observation, not a failure of the driver
		a.snapErr = a.rr.S.LoadFromSnapshot(context.Background())
		return nil
	}
	return a.rr.S.Load(context.Background(), -1)
}

func (a *authEnv) settle() error { return sim.Settle(settleTimeout, a.w1, a.w2, a.r, a.x) }

func opPayload(stype, key string) []byte {
	switch stype {
	case "log":
		b, _ := json.Marshal(map[string]interface{}{"op": "ADD", "value": []byte(key)}) // []byte -> base64, as the store writes it
		return b
	case "doc":
		doc, _ := json.Marshal(map[string]interface{}{"_id": key, "v": key})
		b, _ := json.Marshal(map[string]interface{}{"key": key, "op": "PUT", "value": doc})
		return b
	}
	b, _ := json.Marshal(map[string]interface{}{"key": key, "op": "PUT", "value": []byte(key)})
	return b
}

func honestWrite(ref *sim.StoreRef, stype, key string) (ipfslog.Entry, error) {
	ctx := context.Background()
	switch stype {
	case "log":
		op, err := ref.S.(orbitdb.EventLogStore).Add(ctx, []byte(key))
		if err != nil {
			return nil, err
		}
		return op.GetEntry(), nil
	case "doc":
		op, err := ref.S.(orbitdb.DocumentStore).Put(ctx, map[string]interface{}{"_id": key, "v": key})
		if err != nil {
			return nil, err
		}
		return op.GetEntry(), nil
	}
	op, err := ref.S.(orbitdb.KeyValueStore).Put(ctx, key, []byte(key))
	if err != nil {
		return nil, err
	}
	return op.GetEntry(), nil
}

var lastListErr string

// visible reports whether a key written by some entry shows up in any query of the store.
func visible(ref *sim.StoreRef, stype, key string) bool {
	ctx := context.Background()
	switch stype {
	case "log":
		all := -1
		ops, err := ref.S.(orbitdb.EventLogStore).List(ctx, &iface.StreamOptions{Amount: &all})
		hs := []string{}
		for _, h := range ref.S.OpLog().Heads().Slice() {
			_, in := ref.S.OpLog().Get(h.GetHash())
			hs = append(hs, fmt.Sprintf("%s(t=%d,logid-ok=%v,in-entries=%v)", string(h.GetPayload()), h.GetClock().GetTime(), h.GetLogID() == ref.Addr, in))
		}
		vs := []string{}
		for _, v := range ref.S.OpLog().Values().Slice() {
			vs = append(vs, string(v.GetPayload()))
		}
		lastListErr = fmt.Sprintf("List: %d operations, err=%v, log holds %d entries, heads %v, values %v", len(ops), err, ref.S.OpLog().Len(), hs, vs)
		for _, op := range ops {
			if string(op.GetValue()) == key {
				return true
			}
		}
		return false
	case "doc":
		d, _ := ref.S.(orbitdb.DocumentStore).Get(ctx, key, nil)
		return len(d) > 0
	}
	v, _ := ref.S.(orbitdb.KeyValueStore).Get(ctx, key)
	_, in := ref.S.(orbitdb.KeyValueStore).All()[key]
	return v != nil || in
}

// forged identity: names `claimed`'s id but all keys are the attacker's
func forgedIdentity(ctx context.Context, attacker *sim.Node, claimedID string, typ string) (*idp.Identity, error) {
	ks := attacker.KS
	priv, err := ks.GetKey(ctx, claimedID)
	if err != nil || priv == nil {
		if priv, err = ks.CreateKey(ctx, claimedID); err != nil {
			return nil, err
		}
	}
	pub, err := priv.GetPublic().Raw()
	if err != nil {
		return nil, err
	}
	sigID, err := priv.Sign([]byte(claimedID))
	if err != nil {
		return nil, err
	}
	// the attacker's own root key signs the forged identity key
	root, err := ks.GetKey(ctx, attacker.P.ID.String())
	if err != nil || root == nil {
		return nil, fmt.Errorf("attacker root key: %v", err)
	}
	sigPub, err := root.Sign([]byte(hex.EncodeToString(append(append([]byte{}, pub...), sigID...))))
	if err != nil {
		return nil, err
	}
	return &idp.Identity{ID: claimedID, PublicKey: pub, Type: typ,
		Signatures: &idp.IdentitySignature{ID: sigID, PublicKey: sigPub},
		Provider:   idp.NewOrbitDBIdentityProvider(&idp.CreateIdentityOptions{Keystore: ks})}, nil
}

var _ keystore.Interface

// mkEntry creates, signs and stores an entry of the database with the given identity.
func mkEntry(ctx context.Context, n *sim.Node, id *idp.Identity, logID string, payload []byte, next []cid.Cid, t int) (*entry.Entry, error) {
	e, err := entry.CreateEntry(ctx, n.P.IPFS(), id, &entry.Entry{
		LogID: logID, Payload: payload, Next: next, Refs: []cid.Cid{},
		Clock: entry.NewLamportClock(id.PublicKey, t),
	}, nil)
	if err != nil {
		return nil, err
	}
	return e.(*entry.Entry), nil
}

// rehash stores the (modified) entry and sets its hash to its real address.
func rehash(ctx context.Context, n *sim.Node, e *entry.Entry) error {
	e.Hash = cid.Undef
	c, err := e.ToMultihash(ctx, n.P.IPFS(), nil)
	if err != nil {
		return err
	}
	e.Hash = c
	return nil
}

// forge builds the hostile entry of a C03 class. It returns the entry, the key it
// writes, and whether the specification admits it (CodeAccepts) for this write list.
func (a *authEnv) forge(ctx context.Context, class string, base ipfslog.Entry) (*entry.Entry, string, bool, error) {
	key := "forged-" + class
	payload := opPayload(a.stype, key)
	next := []cid.Cid{}
	t := 1
	if base != nil {
		next = []cid.Cid{base.GetHash()}
		t = base.GetClock().GetTime() + 1
	}
	w1id := a.w1.DB.Identity()
	switch class {
	case "honest":
		e, err := mkEntry(ctx, a.w2, a.w2.DB.Identity(), a.addr, payload, next, t)
		return e, key, a.listed(a.w2), err
	case "nonwriter":
		e, err := mkEntry(ctx, a.x, a.x.DB.Identity(), a.addr, payload, next, t)
		return e, key, a.listed(a.x), err
	case "nonwriter-other-log":
		// properly signed by the non-writer, under a log id that is not this database's
		e, err := mkEntry(ctx, a.x, a.x.DB.Identity(), a.addr+"-shadow", payload, next, t)
		return e, key, false, err
	case "nonwriter-respelled-log", "foreign-key-sig-respelled":
		// the same two forgeries under another spelling of the database's address (root CID in base58btc): the log
		// compares ids as strings and leaves entries of "another log" out of what it verifies
		respelled := a.addr
		if pa, err := address.Parse(a.addr); err == nil {
			if z, err := pa.GetRoot().StringOfBase(multibase.Base58BTC); err == nil {
				respelled = "/orbitdb/" + z + "/" + pa.GetPath()
			}
		}
		if class == "nonwriter-respelled-log" {
			e, err := mkEntry(ctx, a.x, a.x.DB.Identity(), respelled, payload, next, t)
			return e, key, false, err
		}
		fid, err := forgedIdentity(ctx, a.x, w1id.ID, "orbitdb")
		if err != nil {
			return nil, key, false, err
		}
		e, err := mkEntry(ctx, a.x, fid, respelled, payload, next, t)
		if err != nil {
			return nil, key, false, err
		}
		e.Identity = w1id.Filtered()
		e.Key = w1id.PublicKey
		return e, key, false, rehash(ctx, a.x, e)
	case "copied-id-of-receiver":
		// the forgery names the identity of the replica that receives it (which may write when the list is explicit):
		// all keys are the attacker's
		fid, err := forgedIdentity(ctx, a.x, a.r.DB.Identity().ID, "orbitdb")
		if err != nil {
			return nil, key, false, err
		}
		e, err := mkEntry(ctx, a.x, fid, a.addr, payload, next, t)
		return e, key, false, err
	case "copied-id", "foreign-type":
		typ := "orbitdb"
		if class == "foreign-type" {
			typ = "foreign"
		}
		fid, err := forgedIdentity(ctx, a.x, w1id.ID, typ)
		if err != nil {
			return nil, key, false, err
		}
		e, err := mkEntry(ctx, a.x, fid, a.addr, payload, next, t)
		return e, key, false, err
	case "copied-identity-block":
		// signed by the attacker (entry key = attacker key), identity block copied from the writer
		fid, err := forgedIdentity(ctx, a.x, w1id.ID, "orbitdb")
		if err != nil {
			return nil, key, false, err
		}
		e, err := mkEntry(ctx, a.x, fid, a.addr, payload, next, t)
		if err != nil {
			return nil, key, false, err
		}
		e.Identity = w1id.Filtered()
		return e, key, false, rehash(ctx, a.x, e)
	case "foreign-key-sig":
		// the writer's identity block and key field, but the signature is the attacker's
		fid, err := forgedIdentity(ctx, a.x, w1id.ID, "orbitdb")
		if err != nil {
			return nil, key, false, err
		}
		e, err := mkEntry(ctx, a.x, fid, a.addr, payload, next, t)
		if err != nil {
			return nil, key, false, err
		}
		e.Identity = w1id.Filtered()
		e.Key = w1id.PublicKey
		return e, key, false, rehash(ctx, a.x, e)
	}
	return nil, key, false, fmt.Errorf("unknown class %s", class)
}

func headsMsg(addr string, heads ...*entry.Entry) []byte {
	b, _ := json.Marshal(&iface.MessageExchangeHeads{Address: addr, Heads: heads})
	return b
}

// deliver hands the hostile entry to replica r by the given route.
func (a *authEnv) deliver(ctx context.Context, route string, e *entry.Entry) error {
	// the block must be obtainable by whoever follows a link to it
	switch route {
	case "announce":
		a.w.Deliver(&sim.Msg{Kind: "pub", Topic: a.addr, From: a.x.P.Name, To: a.r.P.Name, Payload: headsMsg(a.addr, e)})
	case "exchange":
		a.w.Deliver(&sim.Msg{Kind: "direct", From: a.x.P.Name, To: a.r.P.Name, Payload: headsMsg(a.addr, e)})
	case "manual":
		_ = a.rr.S.Sync(ctx, []ipfslog.Entry{e.Copy()})
	case "ancestor":
		// a colluding (or deceived) authorised writer w2 publishes a genuine entry on top of the hostile one
		if raw, ok := a.x.P.RawBlock(e.GetHash()); ok {
			a.w2.P.PutBlock(e.GetHash(), raw)
		}
		// it links to the hostile entry and to what that entry links to, so that it is the only head afterwards
		head, err := mkEntry(ctx, a.w2, a.w2.DB.Identity(), a.addr, opPayload(a.stype, "colluder"), append([]cid.Cid{e.GetHash()}, e.GetNext()...), e.GetClock().GetTime()+1)
		if err != nil {
			return err
		}
		if a.linkByRefs {
			// the hostile entry is referenced (refs), not linked (next): fetchers follow both, head computations only next
			head.Next = append([]cid.Cid{}, e.GetNext()...)
			head.Refs = []cid.Cid{e.GetHash()}
			id := a.w2.DB.Identity()
			signed, err := entry.CreateEntry(ctx, a.w2.P.IPFS(), id, &entry.Entry{LogID: a.addr, Payload: head.Payload, Next: head.Next, Refs: head.Refs,
				Clock: entry.NewLamportClock(id.PublicKey, head.GetClock().GetTime())}, nil)
			if err != nil {
				return err
			}
			head = signed.(*entry.Entry)
		}
		a.w.Deliver(&sim.Msg{Kind: "pub", Topic: a.addr, From: a.w2.P.Name, To: a.r.P.Name, Payload: headsMsg(a.addr, head)})
	}
	return nil
}

func authCmd(args []string) int {
	in := &AuthInput{}
	if len(args) < 2 || readJSON(args[0], in) != nil {
		fmt.Fprintln(os.Stderr, "usage: vh auth <in.json> <out.json>")
		return 2
	}
	if err := sim.Install(); err != nil {
		fmt.Fprintln(os.Stderr, err)
		return 2
	}
	res := newResult("auth")
	if in.Property == "C04" {
		runTamper(in, res)
		return res.write(args[1])
	}
	ctx := context.Background()
	n := 0
	for _, stype := range in.Stores {
		for _, list := range in.Lists {
			for _, route := range in.Routes {
				for _, class := range in.Classes {
					if route == "local" && class != "nonwriter" && class != "honest" {
						continue // the API signs with the caller's own identity
					}
					n++
					bid := fmt.Sprintf("%s/%s/%s/%s", stype, list, route, class)
					viol := func(kind, detail string, exp, got interface{}) {
						res.violate(Violation{Property: in.Property, Kind: kind, Behaviour: bid, Step: n, Detail: detail, Expected: exp, Got: got})
					}
					authReuseOptions = (n%2 == 1) != in.FlipReuse
					a, err := newAuthEnv(fmt.Sprintf("c%d", n), list, stype)
					if a != nil {
						a.linkByRefs = n%3 == 0
					}
					if err != nil {
						res.Inconclusive = append(res.Inconclusive, bid+": setup: "+err.Error())
						continue
					}
					res.Behaviours++
					func() {
						defer a.close()
						// honest traffic before
						e1, err := honestWrite(a.rw1, stype, "honest-1")
						if err != nil {
							viol("write-error", "authorised write failed: "+err.Error(), nil, nil)
							return
						}
						_ = a.rr.S.Sync(ctx, []ipfslog.Entry{copyEntry(e1)})
						if err := a.settle(); err != nil {
							res.Inconclusive = append(res.Inconclusive, bid+": "+err.Error())
							return
						}
						for _, m := range a.w.Bag() {
							a.w.Take(m.ID)
						}
						before := a.rr.S.OpLog().Len()
						var hostile *entry.Entry
						key := "forged-" + class
						admitted := false
						if route == "local" {
							who, ref := a.x, a.rx
							if class == "honest" {
								who, ref = a.w2, a.rw2
							}
							admitted = a.listed(who)
							if class == "nonwriter" {
								// the non-writer opens the database afresh while the block that holds the write list cannot be
								// read: either the open is refused, or the store it gets still refuses its writes
								if c, ok := a.writeListBlock(); ok {
									_ = a.rx.S.Close()
									who.P.Deny(c)
									nr, oerr := who.Open(a.addr, realType(stype), &orbitdb.CreateDBOptions{Timeout: 2 * time.Second})
									who.P.Allow(c)
									res.Stats["open_with_write_list_unreadable"]++
									if oerr != nil {
										res.Stats["open_refused_write_list_unreadable"]++
										if nr, oerr = who.Open(a.addr, realType(stype), nil); oerr != nil {
											res.Inconclusive = append(res.Inconclusive, bid+": reopen: "+oerr.Error())
											return
										}
									}
									a.rx, ref = nr, nr
								}
							}
							lenBefore := ref.S.OpLog().Len()
							effBefore := who.P.EffectCount()
							_, err := honestWrite(ref, stype, key)
							res.Comparisons++
							if !admitted {
								if err == nil {
									viol("unauthorised-local-write", "a local write by an identity outside the write list succeeded", nil, nil)
								}
								if ref.S.OpLog().Len() != lenBefore || visible(ref, stype, key) {
									viol("unauthorised-local-write", "a refused local write changed the log or the view", lenBefore, ref.S.OpLog().Len())
								}
								for _, k := range who.P.EffectKinds()[effBefore:] {
									if k != "block" {
										viol("unauthorised-local-write", "a refused local write changed the cache ("+k+")", nil, nil)
									}
								}
							} else if err != nil {
								viol("honest-rejected", "a local write by a listed identity failed: "+err.Error(), nil, nil)
							}
						} else {
							hostile, key, admitted, err = a.forge(ctx, class, e1)
							if err != nil {
								res.Inconclusive = append(res.Inconclusive, bid+": forge: "+err.Error())
								return
							}
							if err := a.deliver(ctx, route, hostile); err != nil {
								res.Inconclusive = append(res.Inconclusive, bid+": deliver: "+err.Error())
								return
							}
						}
						if err := a.settle(); err != nil {
							res.Inconclusive = append(res.Inconclusive, bid+": "+err.Error())
							return
						}
						// the replica is stopped and started from its directory while the hostile entry is the last thing it received
						if hostile != nil && !admitted && route != "local" {
							if err := a.restartReplica(); err != nil {
								res.Inconclusive = append(res.Inconclusive, bid+": restart: "+err.Error())
								return
							}
							if err := a.settle(); err != nil {
								res.Inconclusive = append(res.Inconclusive, bid+": "+err.Error())
								return
							}
							res.Comparisons++
							_, inLog := a.rr.S.OpLog().Get(hostile.GetHash())
							if vis := visible(a.rr, stype, key); inLog || vis {
								viol("unauthorised-merged", fmt.Sprintf("entry of class %s delivered by route %s with write list %s is in the replica's log after the replica was restarted and loaded (inLog=%v, visible=%v)", class, route, list, inLog, vis), nil, nil)
							}
						}
						// honest traffic afterwards
						e2, err := honestWrite(a.rw1, stype, "honest-2")
						if err != nil {
							viol("write-error", "authorised write failed: "+err.Error(), nil, nil)
							return
						}
						a.w.Deliver(&sim.Msg{Kind: "pub", Topic: a.addr, From: a.w1.P.Name, To: a.r.P.Name, Payload: headsMsg(a.addr, e2.(*entry.Entry))})
						if err := a.settle(); err != nil {
							res.Inconclusive = append(res.Inconclusive, bid+": "+err.Error())
							return
						}
						res.Comparisons++
						res.Steps += 3
						if hostile != nil {
							_, inLog := a.rr.S.OpLog().Get(hostile.GetHash())
							vis := visible(a.rr, stype, key)
							if !admitted && (inLog || vis) {
								viol("unauthorised-merged", fmt.Sprintf("entry of class %s delivered by route %s with write list %s is in the replica's log (inLog=%v, visible=%v)", class, route, list, inLog, vis), nil, nil)
							}
							if admitted && !inLog {
								viol("honest-rejected", fmt.Sprintf("entry of class %s (admissible for write list %s) delivered by route %s was not merged", class, list, route), nil, nil)
							}
						}
						for _, k := range []string{"honest-1", "honest-2"} {
							if !visible(a.rr, stype, k) {
								viol("honest-lost", "valid entry "+k+" is not visible on the replica after the hostile delivery", nil, nil)
							}
						}
						_ = before
						// the same after the replica has been stopped and started again, its state coming back through a snapshot
						if hostile != nil && !admitted {
							a.viaSnapshot = true
							if err := a.restartReplica(); err != nil {
								res.Inconclusive = append(res.Inconclusive, bid+": restart: "+err.Error())
								return
							}
							if a.snapErr != nil {
								viol("honest-lost", fmt.Sprintf("after a hostile delivery (class %s, route %s) the replica saved a snapshot without error and cannot load it: %v", class, route, a.snapErr), nil, nil)
								return
							}
							if err := a.settle(); err != nil {
								res.Inconclusive = append(res.Inconclusive, bid+": "+err.Error())
								return
							}
							res.Comparisons++
							_, inLog := a.rr.S.OpLog().Get(hostile.GetHash())
							if vis := visible(a.rr, stype, key); inLog || vis {
								viol("unauthorised-merged", fmt.Sprintf("entry of class %s delivered by route %s with write list %s is in the replica's log after the replica was restarted and loaded (inLog=%v, visible=%v)", class, route, list, inLog, vis), nil, nil)
							}
						}
						if len(res.Samples) < 4 && hostile != nil {
							res.Samples = append(res.Samples, map[string]interface{}{"case": bid, "admitted_by_spec": admitted,
								"claimed_id": hostile.Identity.ID[:16], "key_is_identity_key": string(hostile.Key) == string(hostile.Identity.PublicKey)})
						}
					}()
				}
			}
		}
	}
	res.Stats["cases"] = n
	return res.write(args[1])
}

// ---------------------------------------------------------------------------
// C04: single-field mutations of the wire form of a valid entry

var tamperFields = []string{"payload", "clock.time", "clock.id", "next", "refs", "key", "sig", "identity.id", "identity.publicKey",
	"identity.signatures.id", "identity.signatures.publicKey", "identity.type", "id", "hash", "hash-alias", "v",
	// not mutations: a genuine, correctly signed and addressed entry of the same writer for another database
	// (an unrelated one, and one that shares the manifest and differs in the path only)
	"foreign-db", "sibling-db",
	// the same signing key written in its other standard form (compressed <-> uncompressed): the field is not
	// covered by the signature, but it is part of the block
	"key-recoded",
	// the genuine entry in another encoding (one more map key, which decoders ignore): another block, another address
	"reencoded",
	// ... and in an encoding the decoder does accept for a linked block: the hexadecimal signature in upper case (the
	// encoder writes lower case, the decoder reads both): same fields once decoded, another block, another address
	"reencoded-hexcase",
	// the genuine entry naming its database under another spelling of the address (root CID in base58btc): the
	// signature covers the id, so it no longer verifies, and the log compares ids as strings
	"id-respelled",
	// a block that is not an entry at all in the places the decoder dereferences: the genuine entry without its clock,
	// and with an identity that carries no signatures (reachable through a link only: Sync refuses such heads)
	"linked-no-clock", "linked-no-signatures"}

func flip(b []byte) []byte {
	o := append([]byte{}, b...)
	if len(o) == 0 {
		return []byte{1}
	}
	o[len(o)/2] ^= 0x41
	return o
}

func (a *authEnv) mutate(e *entry.Entry, field string, other cid.Cid, otherAddr string) *entry.Entry {
	m := e.Copy().(*entry.Entry)
	m.Identity = &idp.Identity{ID: e.Identity.ID, PublicKey: append([]byte{}, e.Identity.PublicKey...), Type: e.Identity.Type,
		Signatures: &idp.IdentitySignature{ID: append([]byte{}, e.Identity.Signatures.ID...), PublicKey: append([]byte{}, e.Identity.Signatures.PublicKey...)}}
	m.Clock = entry.NewLamportClock(append([]byte{}, e.Clock.ID...), e.Clock.Time)
	switch field {
	case "payload":
		m.Payload = opPayload(a.stype, "tampered")
	case "clock.time":
		m.Clock.Time += 5
	case "clock.id":
		m.Clock.ID = a.x.DB.Identity().PublicKey
	case "next":
		m.Next = []cid.Cid{other}
	case "refs":
		m.Refs = append(append([]cid.Cid{}, m.Refs...), other)
	case "key":
		m.Key = a.x.DB.Identity().PublicKey
	case "sig":
		m.Sig = flip(m.Sig)
	case "identity.id":
		m.Identity.ID = a.w2.DB.Identity().ID
	case "identity.publicKey":
		m.Identity.PublicKey = a.x.DB.Identity().PublicKey
	case "identity.signatures.id":
		m.Identity.Signatures.ID = flip(m.Identity.Signatures.ID)
	case "identity.signatures.publicKey":
		m.Identity.Signatures.PublicKey = flip(m.Identity.Signatures.PublicKey)
	case "identity.type":
		m.Identity.Type = "foreign"
	case "id":
		m.LogID = otherAddr
	case "id-respelled":
		if pa, err := address.Parse(a.addr); err == nil {
			if z, err := pa.GetRoot().StringOfBase(multibase.Base58BTC); err == nil {
				m.LogID = "/orbitdb/" + z + "/" + pa.GetPath()
			}
		}
	case "hash":
		m.Hash = other
	case "key-recoded":
		if pk, err := crypto.UnmarshalSecp256k1PublicKey(e.Key); err == nil {
			if spk, ok := pk.(*crypto.Secp256k1PublicKey); ok {
				bk := (*secp256k1.PublicKey)(spk)
				if len(e.Key) == 33 {
					m.Key = bk.SerializeUncompressed()
				} else {
					m.Key = bk.SerializeCompressed()
				}
			}
		}
	case "hash-alias":
		// another CID of the same block: same digest, raw codec
		m.Hash = cid.NewCidV1(cid.Raw, e.Hash.Hash())
	case "v":
		m.V = 1
	}
	return m
}

func runTamper(in *AuthInput, res *Result) {
	ctx := context.Background()
	n := 0
	for _, stype := range in.Stores {
		for _, field := range tamperFields {
			for _, pos := range []string{"head", "head-rehashed", "ancestor"} {
				if field == "hash" && pos != "head" {
					continue
				}
				n++
				bid := fmt.Sprintf("%s/%s/%s", stype, field, pos)
				viol := func(kind, detail string) {
					res.violate(Violation{Property: in.Property, Kind: kind, Behaviour: bid, Step: n, Detail: detail})
				}
				authReuseOptions = (n%2 == 1) != in.FlipReuse
				a, err := newAuthEnv(fmt.Sprintf("t%d", n), "explicit", stype)
				if a != nil {
					a.linkByRefs = n%3 == 0
				}
				if err != nil {
					res.Inconclusive = append(res.Inconclusive, bid+": setup: "+err.Error())
					continue
				}
				res.Behaviours++
				func() {
					defer a.close()
					e1, err := honestWrite(a.rw1, stype, "honest-1")
					if err != nil {
						viol("write-error", err.Error())
						return
					}
					e0, _ := honestWrite(a.rw2, stype, "unrelated") // another valid entry: a different, valid address
					_ = a.rr.S.Sync(ctx, []ipfslog.Entry{copyEntry(e1)})
					// the valid entry that gets mutated: written by w1 on top of e1, not yet known to r
					e2, err := honestWrite(a.rw1, stype, "victim")
					if err != nil {
						viol("write-error", err.Error())
						return
					}
					if err := a.settle(); err != nil {
						res.Inconclusive = append(res.Inconclusive, bid+": "+err.Error())
						return
					}
					for _, m := range a.w.Bag() {
						a.w.Take(m.ID)
					}
					otherDB, err := a.w1.Open("auth-other-"+bid, realType(stype), &orbitdb.CreateDBOptions{AccessController: sim.AccessFor([]string{"*"})})
					if err != nil {
						res.Inconclusive = append(res.Inconclusive, bid+": "+err.Error())
						return
					}
					m := a.mutate(e2.(*entry.Entry), field, e0.GetHash(), otherDB.Addr)
					if field == "foreign-db" || field == "sibling-db" {
						target := otherDB.Addr
						if field == "sibling-db" {
							if pa, err := address.Parse(a.addr); err == nil {
								target = "/orbitdb/" + pa.GetRoot().String() + "/sibling-of-" + pa.GetPath()
							}
						}
						g, err := mkEntry(ctx, a.w1, a.w1.DB.Identity(), target, opPayload(stype, "tampered"), e2.GetNext(), e2.GetClock().GetTime())
						if err != nil {
							res.Inconclusive = append(res.Inconclusive, bid+": "+err.Error())
							return
						}
						if raw, ok := a.w1.P.RawBlock(g.GetHash()); ok {
							a.x.P.PutBlock(g.GetHash(), raw)
						}
						m = g
					}
					if field == "hash-alias" && pos == "head-rehashed" {
						return // identical to the genuine entry
					}
					if field == "linked-no-clock" || field == "linked-no-signatures" {
						if pos != "ancestor" {
							return
						}
						raw, ok := a.w1.P.RawBlock(e2.GetHash())
						if !ok {
							res.Inconclusive = append(res.Inconclusive, bid+": no block of the genuine entry")
							return
						}
						var fields map[string]interface{}
						if err := cbornode.DecodeInto(raw, &fields); err != nil {
							res.Inconclusive = append(res.Inconclusive, bid+": decode: "+err.Error())
							return
						}
						if field == "linked-no-clock" {
							delete(fields, "clock")
						} else if id, ok := fields["identity"].(map[string]interface{}); ok {
							delete(id, "signatures")
						}
						nd, err := cbornode.WrapObject(fields, mh.SHA2_256, -1)
						if err != nil {
							res.Inconclusive = append(res.Inconclusive, bid+": encode: "+err.Error())
							return
						}
						for _, n := range []*sim.Node{a.x, a.w1, a.w2} {
							n.P.PutBlock(nd.Cid(), nd.RawData())
						}
						m = e2.Copy().(*entry.Entry)
						m.Hash = nd.Cid()
						mark("%s: a head of an authorised writer links to block %s, which is the entry %s without %s", bid, nd.Cid(), e2.GetHash(), strings.TrimPrefix(field, "linked-no-"))
					}
					if field == "reencoded" || field == "reencoded-hexcase" {
						if pos == "head-rehashed" {
							return
						}
						raw, ok := a.w1.P.RawBlock(e2.GetHash())
						if !ok {
							res.Inconclusive = append(res.Inconclusive, bid+": no block of the genuine entry")
							return
						}
						var fields map[string]interface{}
						if err := cbornode.DecodeInto(raw, &fields); err != nil {
							res.Inconclusive = append(res.Inconclusive, bid+": decode: "+err.Error())
							return
						}
						if field == "reencoded" {
							fields["zz"] = 1
						} else if sig, ok := fields["sig"].(string); ok && strings.ToUpper(sig) != sig {
							fields["sig"] = strings.ToUpper(sig)
						} else {
							res.Inconclusive = append(res.Inconclusive, bid+": the block has no hexadecimal signature to spell differently")
							return
						}
						nd, err := cbornode.WrapObject(fields, mh.SHA2_256, -1)
						if err != nil {
							res.Inconclusive = append(res.Inconclusive, bid+": encode: "+err.Error())
							return
						}
						for _, n := range []*sim.Node{a.x, a.w1, a.w2} {
							n.P.PutBlock(nd.Cid(), nd.RawData())
						}
						m = e2.Copy().(*entry.Entry)
						m.Hash = nd.Cid()
					}
					if pos != "head" && field != "hash-alias" && field != "reencoded" && field != "reencoded-hexcase" && !strings.HasPrefix(field, "linked-no-") {
						if err := rehash(ctx, a.x, m); err != nil {
							// cannot even be encoded: nothing to deliver
							res.Stats["unencodable"]++
							return
						}
					} else {
						// make the mutant's real block available too
						tmp := m.Copy().(*entry.Entry)
						_ = rehash(ctx, a.x, tmp)
					}
					// classify with the library's own encoder and verifier
					chk := m.Copy().(*entry.Entry)
					realHash := cid.Undef
					if err := rehash(ctx, a.x, chk); err == nil {
						realHash = chk.Hash
					}
					hashok := realHash.Defined() && realHash.Equals(m.Hash)
					intact := m.Verify(a.r.DB.Identity().Provider, a.rr.S.IO()) == nil
					samedb := m.LogID == a.addr
					unchanged := realHash.Defined() && realHash.Equals(e2.GetHash()) && m.Hash.Equals(realHash) // the mutation left the entry and its address as they were
					mustReject := !intact || !samedb || !hashok
					restartCheck := func(keys []string) string {
						if err := a.restartReplica(); err != nil {
							return "restart: " + err.Error()
						}
						if a.viaSnapshot && a.snapErr != nil {
							viol("honest-lost", fmt.Sprintf("after the hostile delivery (%s mutated, delivered as %s) the replica saved a snapshot without error and cannot load it: %v", field, pos, a.snapErr))
							return ""
						}
						if err := a.settle(); err != nil {
							return err.Error()
						}
						res.Comparisons++
						for _, k := range keys {
							if !visible(a.rr, stype, k) {
								viol("honest-lost", fmt.Sprintf("valid entry %s is gone after the replica was restarted and loaded (%s mutated, delivered as %s, hashok=%v intact=%v samedb=%v)", k, field, pos, hashok, intact, samedb))
							}
						}
						if mustReject && !unchanged {
							for _, le := range append(append(a.rr.S.OpLog().GetEntries().Slice(), a.rr.S.OpLog().Heads().Slice()...), a.rr.S.OpLog().Values().Slice()...) {
								// the genuine entry may have been delivered meanwhile and share the claimed hash: compare content then
								genuine := le.GetHash().Equals(e2.GetHash()) && string(le.GetPayload()) == string(e2.GetPayload()) && string(le.GetSig()) == string(e2.GetSig()) &&
									le.GetLogID() == e2.GetLogID() && le.GetClock().GetTime() == e2.GetClock().GetTime() && string(le.GetKey()) == string(e2.GetKey())
								if !genuine && (le.GetHash().Equals(m.Hash) || (realHash.Defined() && le.GetHash().Equals(realHash))) {
									viol("tampered-merged", fmt.Sprintf("mutant of field %s delivered as %s (hashok=%v intact=%v samedb=%v) is in the log after the replica was restarted and loaded", field, pos, hashok, intact, samedb))
								}
							}
						}
						return ""
					}
					switch pos {
					case "head", "head-rehashed":
						a.w.Deliver(&sim.Msg{Kind: "pub", Topic: a.addr, From: a.x.P.Name, To: a.r.P.Name, Payload: headsMsg(a.addr, m)})
					case "ancestor":
						if err := a.deliver(ctx, "ancestor", m); err != nil {
							res.Stats["undeliverable"]++
							return
						}
					}
					if err := a.settle(); err != nil {
						res.Inconclusive = append(res.Inconclusive, bid+": "+err.Error())
						return
					}
					res.Comparisons++
					res.Steps += 2
					merged := false
					held := append(append(a.rr.S.OpLog().GetEntries().Slice(), a.rr.S.OpLog().Heads().Slice()...), a.rr.S.OpLog().Values().Slice()...)
					for _, le := range held {
						if le.GetHash().Equals(m.Hash) || (realHash.Defined() && le.GetHash().Equals(realHash) && !unchanged) {
							merged = true
						}
					}
					if (field == "payload" || field == "foreign-db" || field == "sibling-db") && visible(a.rr, stype, "tampered") {
						merged = true
					}
					cls := fmt.Sprintf("hashok=%v intact=%v samedb=%v", hashok, intact, samedb)
					res.Stats["class "+cls]++
					if os.Getenv("VH_DEBUG") != "" {
						res.note("%s: %s mustReject=%v merged=%v unchanged=%v", bid, cls, mustReject, merged, unchanged)
					}
					if mustReject && merged && !unchanged {
						viol("tampered-merged", fmt.Sprintf("mutant of field %s delivered as %s (%s) was merged into the replica's log", field, pos, cls))
					}
					if !visible(a.rr, stype, "honest-1") {
						viol("honest-lost", "valid entry held by the replica is no longer visible after the hostile delivery ("+lastListErr+")")
					}
					// stop and start the replica from its directory: what it held must still be there, the mutant absent
					if msg := restartCheck([]string{"honest-1"}); msg != "" {
						res.Inconclusive = append(res.Inconclusive, bid+": "+msg)
						return
					}
					// the genuine victim entry, announced honestly afterwards, must still be accepted
					a.w.Deliver(&sim.Msg{Kind: "pub", Topic: a.addr, From: a.w1.P.Name, To: a.r.P.Name, Payload: headsMsg(a.addr, e2.(*entry.Entry))})
					if err := a.settle(); err != nil {
						res.Inconclusive = append(res.Inconclusive, bid+": "+err.Error())
						return
					}
					if !visible(a.rr, stype, "victim") {
						viol("honest-lost", "the genuine entry is not accepted after its tampered copy was delivered")
					}
					a.viaSnapshot = true
					if msg := restartCheck([]string{"honest-1", "victim"}); msg != "" {
						res.Inconclusive = append(res.Inconclusive, bid+": "+msg)
						return
					}
					if len(res.Samples) < 4 {
						res.Samples = append(res.Samples, map[string]interface{}{"case": bid, "class": cls, "must_reject": mustReject, "merged": merged})
					}
				}()
			}
		}
	}
	res.Stats["cases"] = n
	keys := []string{}
	for k := range res.Stats {
		keys = append(keys, k)
	}
	sort.Strings(keys)
	_ = time.Now
}
