package main

import (
	"context"
	"encoding/base64"
	"encoding/json"
	"fmt"
	"math/rand"
	"os"
	"sort"
	"strings"
	"time"

	ipfslog "berty.tech/go-ipfs-log"
	orbitdb "berty.tech/go-orbit-db"
	"berty.tech/go-orbit-db/iface"
	"berty.tech/go-orbit-db/stores/operation"
	cid "github.com/ipfs/go-cid"
	"verif/harness/sim"
)

func init() { commands["core"] = coreCmd }

// CoreInput is the job description written by the check driver.
type CoreInput struct {
	Property   string      `json:"property"`
	Type       string      `json:"type"` // kv | doc | log
	Replicas   []string    `json:"replicas"`
	Seed       int64       `json:"seed"`
	Behaviours []Behaviour `json:"behaviours"`
	Random     int         `json:"random"`     // number of additional random-driver runs (trace recording)
	RandomLen  int         `json:"random_len"` // steps per random run
	TraceOut   string      `json:"trace_out"`
	LoadSync   bool        `json:"load_sync"`   // C01/C06: limited load, then the older entries arrive by Sync
	LoadLimits bool        `json:"load_limits"` // C15: limited loads of every replica's persisted log
	Snapshots  bool        `json:"snapshots"`   // C13: save / load snapshot of every replica
	FinalSync  bool        `json:"final_sync"`  // after the last step, sync everyone to everything and compare pairwise
	Keys       []string    `json:"keys"`
	Vals       []string    `json:"vals"`
	BigVal     string      `json:"big_val"` // C13: this abstract value stands for an oversize payload
	Windows    []WindowRow `json:"windows"` // C08: rows of the TLC-evaluated window table
}

// concretiser: abstract keys / values -> concrete strings and bytes
type concr struct {
	key map[string]string
	val map[string][]byte
}

var keyClasses = [][]string{
	{"alpha", "beta", "gamma", "delta"},
	{"Ключ", "鍵", "clé", "κλειδί"},
	{"a.b", "A.B", "x_1", "X-2"},
	{"k", "K", "kk", "Kk"},
}

func newConcr(keys, vals []string, stype string, rng *rand.Rand, big ...string) *concr {
	c := &concr{key: map[string]string{}, val: map[string][]byte{}}
	cls := keyClasses[rng.Intn(len(keyClasses))]
	perm := rng.Perm(len(cls))
	for i, k := range keys {
		c.key[k] = cls[perm[i%len(cls)]]
	}
	if stype == "kv" && rng.Intn(3) == 0 && len(keys) > 0 {
		c.key[keys[rng.Intn(len(keys))]] = "with space and \x00 nul"
	}
	oversize := rng.Intn(3) == 0 // one behaviour in three carries payloads beyond the record limit
	for i, v := range vals {
		if len(big) > 0 && big[0] == v && oversize {
			sizes := []int{37000, 40000, 70000, 300000}
			b := make([]byte, sizes[rng.Intn(len(sizes))])
			rng.Read(b)
			c.val[v] = b
			continue
		}
		if len(big) > 0 && big[0] != "" && rng.Intn(2) == 0 {
			// large but representable payloads next to the oversize ones
			sizes := []int{0, 1, 20000, 34000}
			b := make([]byte, sizes[rng.Intn(len(sizes))])
			rng.Read(b)
			if len(b) > 0 {
				b[0] = byte(i)
			}
			c.val[v] = b
			continue
		}
		switch rng.Intn(3) {
		case 0:
			c.val[v] = []byte(fmt.Sprintf("value-%d", i))
		case 1:
			c.val[v] = []byte{0, 255, byte(i), 0x80, '"', '\\', byte(rng.Intn(256))}
		default:
			b := make([]byte, 1+rng.Intn(40))
			rng.Read(b)
			b[0] = byte(i) // keep values distinct
			c.val[v] = b
		}
	}
	// the empty value is a value: a key put with it is present (one behaviour in three, key-value and log stores)
	if stype != "doc" && len(big) == 0 && len(vals) > 0 && rng.Intn(3) == 0 {
		c.val[vals[rng.Intn(len(vals))]] = []byte{}
	}
	// abstract values must stay distinguishable when read back (at most one may be empty)
	seen := map[string]bool{}
	for _, v := range vals {
		for seen[string(c.val[v])] {
			c.val[v] = append(c.val[v], byte(len(seen)+1))
		}
		seen[string(c.val[v])] = true
	}
	return c
}

func (c *concr) absVal(b []byte) string {
	for a, v := range c.val {
		if string(v) == string(b) {
			return a
		}
	}
	return "?" + base64.StdEncoding.EncodeToString(b)
}

type docT = map[string]interface{}

func (c *concr) doc(k, v string) docT {
	return docT{"_id": c.key[k], "v": base64.StdEncoding.EncodeToString(c.val[v]), "abs": v}
}

// coreRun holds one behaviour's execution state.
type coreRun struct {
	in    *CoreInput
	res   *Result
	c     *cluster
	cc    *concr
	bid   string
	step  int
	prev  map[string][]int // previous listing per replica (C08 stability)
	trace *json.Encoder
	nsync int
}

func (r *coreRun) violate(kind, detail string, exp, got interface{}) {
	r.res.violate(Violation{Property: r.in.Property, Kind: kind, Behaviour: r.bid, Step: r.step, Detail: detail, Expected: exp, Got: got})
}

// view reads the materialised view of a replica through the public API as a
// map abstract key -> abstract value ("NoVal" when absent).
func (r *coreRun) view(name string) (map[string]string, error) {
	ctx := context.Background()
	out := map[string]string{}
	s := r.c.refs[name].S
	switch r.in.Type {
	case "kv":
		kv := s.(orbitdb.KeyValueStore)
		all := kv.All()
		for ak, ck := range r.cc.key {
			got, err := kv.Get(ctx, ck)
			if err != nil {
				return nil, err
			}
			av, in := all[ck]
			if !in {
				if got != nil {
					return nil, fmt.Errorf("Get(%q) returns a value but All() has no such key", ck)
				}
				out[ak] = "NoVal"
				continue
			}
			if string(got) != string(av) {
				return nil, fmt.Errorf("Get(%q) and All() disagree", ck)
			}
			out[ak] = r.cc.absVal(av)
		}
		for ck := range all {
			known := false
			for _, k := range r.cc.key {
				known = known || k == ck
			}
			if !known {
				out["?"+ck] = "unexpected"
			}
		}
	case "doc":
		ds := s.(orbitdb.DocumentStore)
		all, err := ds.Query(ctx, func(interface{}) (bool, error) { return true, nil })
		if err != nil {
			return nil, err
		}
		byKey := map[string]string{}
		for _, d := range all {
			m, _ := d.(docT)
			byKey[asStr(m["_id"])] = asStr(m["abs"])
		}
		for ak, ck := range r.cc.key {
			got, err := ds.Get(ctx, ck, nil)
			if err != nil {
				return nil, err
			}
			v, in := byKey[ck]
			if !in {
				if len(got) != 0 {
					return nil, fmt.Errorf("Get(%q) returns a document that Query does not list", ck)
				}
				out[ak] = "NoVal"
				continue
			}
			if len(got) != 1 || asStr(got[0].(docT)["abs"]) != v {
				return nil, fmt.Errorf("Get(%q) and Query disagree", ck)
			}
			out[ak] = v
			delete(byKey, ck)
		}
		for ck := range byKey {
			out["?"+ck] = "unexpected"
		}
	}
	return out, nil
}

// logValues lists an event log through List(amount -1): spec ids and values.
func (r *coreRun) logListing(name string) ([]int, error) {
	s := r.c.refs[name].S.(orbitdb.EventLogStore)
	all := -1
	ops, err := s.List(context.Background(), &iface.StreamOptions{Amount: &all})
	if err != nil {
		return nil, err
	}
	out := []int{}
	for _, op := range ops {
		id, ok := r.c.ids[op.GetEntry().GetHash().String()]
		if !ok {
			id = -1
		}
		out = append(out, id)
	}
	return out, nil
}

func specIndex(st map[string]interface{}, name string) map[string]string {
	out := map[string]string{}
	for k, v := range asMap(asMap(st["index"])[name]) {
		out[k] = asStr(v)
	}
	return out
}

// compare checks every replica against the specification state after a step.
func (r *coreRun) compare(st map[string]interface{}) {
	obs := asMap(st["obs"])
	for _, name := range r.c.names {
		r.res.Comparisons++
		o := asMap(obs[name])
		wantOrder := asInts(o["order"])
		wantHeads := sortedInts(asInts(o["heads"]))
		gotOrder := r.c.listing(name)
		if !eqInts(gotOrder, wantOrder) {
			r.violate("order", "replica "+name+": log listing differs from the specification's total order", wantOrder, gotOrder)
		}
		if gh := r.c.heads(name); !eqInts(gh, wantHeads) {
			r.violate("heads", "replica "+name+": heads differ", wantHeads, gh)
		}
		// C08: append-only and stable relative order, judged on the real listings
		if prev, ok := r.prev[name]; ok {
			pos := map[int]int{}
			for i, id := range gotOrder {
				pos[id] = i
			}
			last := -1
			for _, id := range prev {
				p, in := pos[id]
				if !in {
					r.violate("removed", fmt.Sprintf("replica %s: entry %d disappeared from the listing", name, id), prev, gotOrder)
					break
				}
				if p < last {
					r.violate("reordered", fmt.Sprintf("replica %s: relative order of listed entries changed", name), prev, gotOrder)
					break
				}
				last = p
			}
		}
		r.prev[name] = gotOrder
		if r.in.Type == "log" {
			l, err := r.logListing(name)
			if err != nil {
				r.violate("list-error", err.Error(), nil, nil)
			} else if !eqInts(l, wantOrder) {
				r.violate("list", "replica "+name+": List(-1) differs from the specification's listing", wantOrder, l)
			}
			continue
		}
		want := specIndex(st, name)
		got, err := r.view(name)
		if err != nil {
			r.violate("view-error", "replica "+name+": "+err.Error(), nil, nil)
			continue
		}
		if !eqStrMap(got, want) {
			r.violate("view", "replica "+name+": view differs from the replay of its log", want, got)
		}
	}
	// C01: replicas holding the same entries expose the same state
	for i, a := range r.c.names {
		for _, b := range r.c.names[i+1:] {
			la, lb := r.c.listing(a), r.c.listing(b)
			if !eqInts(sortedInts(la), sortedInts(lb)) {
				continue
			}
			r.res.Stats["pairs_same_entries"]++
			if !eqInts(la, lb) {
				r.violate("convergence", fmt.Sprintf("replicas %s and %s hold the same entries in different order", a, b), la, lb)
			}
			if r.in.Type != "log" {
				va, ea := r.view(a)
				vb, eb := r.view(b)
				if ea == nil && eb == nil && !eqStrMap(va, vb) {
					r.violate("convergence", fmt.Sprintf("replicas %s and %s hold the same entries but show different views", a, b), va, vb)
				}
			} else if xa, xb := r.storeList(a), r.storeList(b); !eqInts(xa, xb) {
				// the contents of an event log are what its List returns (the ordered entry list), not what its log holds
				r.violate("convergence", fmt.Sprintf("replicas %s and %s hold the same entries but List different entry lists", a, b), xa, xb)
			}
			if !eqInts(r.c.heads(a), r.c.heads(b)) {
				r.violate("convergence", fmt.Sprintf("replicas %s and %s hold the same entries but different heads", a, b), r.c.heads(a), r.c.heads(b))
			}
		}
	}
}

func eqStrMap(a, b map[string]string) bool {
	if len(a) != len(b) {
		return false
	}
	for k, v := range a {
		if b[k] != v {
			return false
		}
	}
	return true
}

// doWrite performs a specification Write on the real store.
func (r *coreRun) doWrite(name string, op map[string]interface{}) (ipfslog.Entry, error) {
	ctx := context.Background()
	s := r.c.refs[name].S
	var res operation.Operation
	var err error
	kind, k, v := asStr(op["kind"]), asStr(op["k"]), asStr(op["v"])
	switch r.in.Type {
	case "kv":
		kv := s.(orbitdb.KeyValueStore)
		if kind == "PUT" {
			res, err = kv.Put(ctx, r.cc.key[k], r.cc.val[v])
		} else {
			res, err = kv.Delete(ctx, r.cc.key[k])
		}
	case "doc":
		ds := s.(orbitdb.DocumentStore)
		switch kind {
		case "PUT":
			res, err = ds.Put(ctx, r.cc.doc(k, v))
		case "DEL":
			res, err = ds.Delete(ctx, r.cc.key[k])
		case "PUTALL":
			docs := []interface{}{}
			m := asMap(op["docs"])
			ks := make([]string, 0, len(m))
			for dk := range m {
				ks = append(ks, dk)
			}
			sort.Strings(ks)
			// every second batch lists its first key twice: a superseded version first, the version of the
			// specification's operation after it (the later member of a batch wins, as with PutBatch)
			if r.step%2 == 1 && len(ks) > 0 {
				for _, alt := range r.in.Vals {
					if alt != asStr(m[ks[0]]) {
						docs = append(docs, r.cc.doc(ks[0], alt))
						r.res.Stats["putall_duplicate_key"]++
						break
					}
				}
			}
			for _, dk := range ks {
				docs = append(docs, r.cc.doc(dk, asStr(m[dk])))
			}
			res, err = ds.PutAll(ctx, docs)
		}
	default:
		res, err = s.(orbitdb.EventLogStore).Add(ctx, r.cc.val[v])
	}
	if err != nil {
		return nil, err
	}
	return res.GetEntry(), nil
}

func (r *coreRun) emit(ev map[string]interface{}) {
	if r.trace != nil {
		_ = r.trace.Encode(ev)
		r.res.TraceEvents++
	}
}

func (r *coreRun) idsOf(cs []cid.Cid) []int {
	out := []int{}
	for _, c := range cs {
		if id, ok := r.c.ids[c.String()]; ok {
			out = append(out, id)
		} else {
			out = append(out, -1)
		}
	}
	sort.Ints(out)
	return out
}

func dedup(s []int) []int {
	out := []int{}
	for i, x := range s {
		if i == 0 || x != s[i-1] {
			out = append(out, x)
		}
	}
	return out
}

// projection of one replica for trace events
func (r *coreRun) proj(name string) map[string]interface{} {
	p := map[string]interface{}{"order": r.c.listing(name), "heads": r.c.heads(name)}
	if r.in.Type != "log" {
		v, err := r.view(name)
		if err == nil {
			p["index"] = v
		}
	}
	return p
}

// storeList: what the event log store lists (ids), in its order
func (r *coreRun) storeList(name string) []int {
	all := -1
	ops, err := r.c.refs[name].S.(orbitdb.EventLogStore).List(context.Background(), &iface.StreamOptions{Amount: &all})
	out := []int{}
	if err != nil {
		return []int{-2}
	}
	for _, op := range ops {
		if id, ok := r.c.ids[op.GetEntry().GetHash().String()]; ok {
			out = append(out, id)
		} else {
			out = append(out, -1)
		}
	}
	return out
}

// apply executes one specification step on the real code.
func (r *coreRun) apply(st Step) error {
	switch st.Action {
	case "Init":
		return nil
	case "Write":
		name := asStr(st.Args[0])
		op := asMap(st.Args[1])
		e, err := r.doWrite(name, op)
		if err != nil {
			r.violate("write-error", "authorised local write failed: "+err.Error(), nil, nil)
			return err
		}
		id := len(r.c.entries) + 1
		r.c.record(id, copyEntry(e))
		if err := r.c.settle(); err != nil {
			return err
		}
		ev := map[string]interface{}{"ev": "Write", "r": name, "op": op, "id": id, "t": e.GetClock().GetTime(),
			"nx": r.idsOf(e.GetNext()), "rf": dedup(r.idsOf(e.GetRefs()))}
		for k, v := range r.proj(name) {
			ev[k] = v
		}
		r.emit(ev)
		// conformance of the new entry with the specification's NewEntry (notes only: internal)
		if st.State != nil {
			ents := asList(st.State["ent"])
			if id <= len(ents) {
				se := asMap(ents[id-1])
				if asInt(se["t"]) != e.GetClock().GetTime() {
					r.res.note("%s step %d: entry %d has time %d, specification %d", r.bid, r.step, id, e.GetClock().GetTime(), asInt(se["t"]))
				}
				if !eqInts(sortedInts(asInts(se["nx"])), r.idsOf(e.GetNext())) {
					r.res.note("%s step %d: entry %d next %v, specification %v", r.bid, r.step, id, r.idsOf(e.GetNext()), asInts(se["nx"]))
				}
				if !eqInts(sortedInts(asInts(se["rf"])), dedup(r.idsOf(e.GetRefs()))) {
					r.res.note("%s step %d: entry %d refs %v, specification %v", r.bid, r.step, id, r.idsOf(e.GetRefs()), asInts(se["rf"]))
				}
			}
		}
	case "Sync":
		name := asStr(st.Args[0])
		hs := asInts(st.Args[1])
		heads := []ipfslog.Entry{}
		for _, id := range hs {
			heads = append(heads, copyEntry(r.c.entries[id]))
		}
		// every second Sync: a reader looks at the store in the middle of the merge of what was fetched (after the first
		// fetched log has been joined, before the others): whatever it sees then, what it sees afterwards is the whole log
		target := r.c.refs[name].S
		midRead := r.nsync%2 == 1
		r.nsync++
		if midRead {
			sim.TheHub.ParkAt("join.log", func(args []interface{}) bool { return len(args) > 0 && sim.K(args[0]) == sim.K(target) })
		}
		if err := target.Sync(context.Background(), heads); err != nil {
			sim.TheHub.Unpark("join.log")
			r.violate("sync-error", "Sync of valid heads failed: "+err.Error(), nil, nil)
			return err
		}
		if midRead {
			if p := parkedFor("join.log", nil, 150*time.Millisecond); p != nil {
				done := make(chan struct{})
				go func() {
					_ = r.proj(name)
					if r.in.Type == "log" {
						all := -1
						_, _ = target.(orbitdb.EventLogStore).List(context.Background(), &iface.StreamOptions{Amount: &all})
					}
					close(done)
				}()
				select {
				case <-done:
					r.res.Stats["reads_in_the_middle_of_a_merge"]++
				case <-time.After(200 * time.Millisecond):
				}
			}
			sim.TheHub.Unpark("join.log")
			sim.TheHub.ReleaseAll()
		}
		if err := r.c.settle(); err != nil {
			return err
		}
		ev := map[string]interface{}{"ev": "Sync", "r": name, "H": sortedInts(hs)}
		for k, v := range r.proj(name) {
			ev[k] = v
		}
		r.emit(ev)
	case "Restart":
		name := asStr(st.Args[0])
		if err := r.c.restart(name, -1); err != nil {
			r.violate("restart-error", "close/reopen/load failed: "+err.Error(), nil, nil)
			return err
		}
		if err := r.c.settle(); err != nil {
			return err
		}
		ev := map[string]interface{}{"ev": "Restart", "r": name}
		for k, v := range r.proj(name) {
			ev[k] = v
		}
		r.emit(ev)
	default:
		return fmt.Errorf("unknown action %s", st.Action)
	}
	return nil
}

func coreCmd(args []string) int {
	if len(args) < 2 {
		fmt.Fprintln(os.Stderr, "usage: vh core <in.json> <out.json>")
		return 2
	}
	in := &CoreInput{}
	if err := readJSON(args[0], in); err != nil {
		fmt.Fprintln(os.Stderr, err)
		return 2
	}
	if err := sim.Install(); err != nil {
		fmt.Fprintln(os.Stderr, err)
		return 2
	}
	res := newResult("core")
	var tf *os.File
	var enc *json.Encoder
	if in.TraceOut != "" {
		var err error
		tf, err = os.Create(in.TraceOut)
		if err != nil {
			fmt.Fprintln(os.Stderr, err)
			return 2
		}
		defer tf.Close()
		enc = json.NewEncoder(tf)
		res.TraceFile = in.TraceOut
	}
	seen := map[string]bool{}
	for bi, b := range in.Behaviours {
		rng := rand.New(rand.NewSource(in.Seed*1000003 + int64(bi)))
		run := &coreRun{in: in, res: res, bid: b.ID, prev: map[string][]int{}, cc: newConcr(in.Keys, in.Vals, in.Type, rng, in.BigVal)}
		c, err := newCluster(in.Replicas, in.Type, fmt.Sprintf("b%d", bi))
		if err != nil {
			res.Inconclusive = append(res.Inconclusive, b.ID+": setup: "+err.Error())
			continue
		}
		run.c = c
		res.Behaviours++
		sig := []string{}
		for si, st := range b.Steps {
			run.step = si
			if err := run.apply(st); err != nil {
				if len(res.Violations) == 0 {
					res.Inconclusive = append(res.Inconclusive, fmt.Sprintf("%s step %d %s: %v", b.ID, si, st.Action, err))
				}
				break
			}
			res.Steps++
			sig = append(sig, st.Action)
			res.Stats["action_"+st.Action]++
			run.compare(st.State)
		}
		if in.LoadLimits {
			run.loadLimits()
		}
		if in.LoadSync {
			run.loadThenSync()
		}
		if in.Snapshots {
			run.snapshots()
		}
		if len(in.Windows) > 0 && in.Type == "log" {
			run.windows()
		}
		if in.FinalSync {
			run.finalSync()
		}
		k := strings.Join(sig, ",")
		if !seen[k] {
			seen[k] = true
		}
		if len(res.Samples) < 3 {
			res.Samples = append(res.Samples, map[string]interface{}{"behaviour": b.ID, "actions": briefSteps(b.Steps), "final_listing": c.listing(c.names[0])})
		}
		c.close()
	}
	// random driver runs: the implementation chooses, the trace specification judges
	for i := 0; i < in.Random; i++ {
		rng := rand.New(rand.NewSource(in.Seed*7919 + int64(i)))
		run := &coreRun{in: in, res: res, bid: fmt.Sprintf("random-%d", i), prev: map[string][]int{}, cc: newConcr(in.Keys, in.Vals, in.Type, rng), trace: enc}
		c, err := newCluster(in.Replicas, in.Type, fmt.Sprintf("r%d", i))
		if err != nil {
			res.Inconclusive = append(res.Inconclusive, run.bid+": setup: "+err.Error())
			continue
		}
		run.c = c
		run.emit(map[string]interface{}{"ev": "Reset"})
		run.randomDrive(rng, in.RandomLen)
		res.Traces++
		c.close()
	}
	if len(in.Windows) > 0 && in.Type == "log" {
		largeMerge(in, res)
	}
	res.Stats["distinct_action_sequences"] = len(seen)
	return res.write(args[1])
}

func briefSteps(steps []Step) []string {
	out := []string{}
	for _, s := range steps {
		if s.Action == "Init" {
			continue
		}
		b, _ := json.Marshal(s.Args)
		out = append(out, s.Action+string(b))
	}
	return out
}

// finalSync makes every replica receive every entry, then requires all
// replicas to agree pairwise (C01) whatever route each entry took.
func (r *coreRun) finalSync() {
	all := []int{}
	for id := range r.c.entries {
		all = append(all, id)
	}
	sort.Ints(all)
	if len(all) == 0 {
		return
	}
	for _, name := range r.c.names {
		heads := []ipfslog.Entry{}
		for _, id := range all {
			heads = append(heads, copyEntry(r.c.entries[id]))
		}
		if err := r.c.refs[name].S.Sync(context.Background(), heads); err != nil {
			r.violate("sync-error", "Sync of valid heads failed: "+err.Error(), nil, nil)
			return
		}
	}
	if err := r.c.settle(); err != nil {
		r.res.Inconclusive = append(r.res.Inconclusive, r.bid+": final sync: "+err.Error())
		return
	}
	r.step = -1
	ref := r.c.names[0]
	lr := r.c.listing(ref)
	if len(lr) != len(all) {
		r.violate("final-missing", "after syncing every entry replica "+ref+" does not list all of them", all, lr)
	}
	for _, name := range r.c.names[1:] {
		r.res.Stats["pairs_same_entries"]++
		if l := r.c.listing(name); !eqInts(l, lr) {
			r.violate("convergence", "after syncing every entry replicas "+ref+" and "+name+" list different logs", lr, l)
		}
		if r.in.Type != "log" {
			va, ea := r.view(ref)
			vb, eb := r.view(name)
			if ea == nil && eb == nil && !eqStrMap(va, vb) {
				r.violate("convergence", "after syncing every entry replicas "+ref+" and "+name+" show different views", va, vb)
			}
		}
	}
}

// randomDrive makes its own choices; every step is recorded for trace validation.
func (r *coreRun) randomDrive(rng *rand.Rand, n int) {
	keys := append([]string{}, r.in.Keys...)
	vals := append([]string{}, r.in.Vals...)
	sort.Strings(keys)
	sort.Strings(vals)
	for i := 0; i < n; i++ {
		r.step = i
		name := r.c.names[rng.Intn(len(r.c.names))]
		var st Step
		switch x := rng.Intn(10); {
		case x < 5 || len(r.c.entries) == 0:
			op := map[string]interface{}{"kind": "PUT", "k": keys[rng.Intn(len(keys))], "v": vals[rng.Intn(len(vals))], "docs": []interface{}{}}
			switch r.in.Type {
			case "log":
				op = map[string]interface{}{"kind": "ADD", "k": "NoVal", "v": vals[rng.Intn(len(vals))], "docs": []interface{}{}}
			case "kv":
				if rng.Intn(3) == 0 {
					op["kind"], op["v"] = "DEL", "NoVal"
				}
			case "doc":
				switch rng.Intn(4) {
				case 0:
					v, err := r.view(name)
					if err == nil && v[asStr(op["k"])] != "NoVal" {
						op["kind"], op["v"] = "DEL", "NoVal"
					}
				case 1:
					docs := map[string]interface{}{}
					for _, k := range keys {
						if rng.Intn(2) == 0 {
							docs[k] = vals[rng.Intn(len(vals))]
						}
					}
					if len(docs) > 0 {
						op = map[string]interface{}{"kind": "PUTALL", "k": "NoVal", "v": "NoVal", "docs": docs}
					}
				}
			}
			st = Step{Action: "Write", Args: []interface{}{name, op}}
		case x < 9:
			hs := []interface{}{}
			for id := range r.c.entries {
				if rng.Intn(2) == 0 {
					hs = append(hs, id)
				}
			}
			if len(hs) == 0 {
				hs = append(hs, 1+rng.Intn(len(r.c.entries)))
			}
			st = Step{Action: "Sync", Args: []interface{}{name, hs}}
		default:
			st = Step{Action: "Restart", Args: []interface{}{name}}
		}
		if err := r.apply(st); err != nil {
			if len(r.res.Violations) == 0 {
				r.res.Inconclusive = append(r.res.Inconclusive, fmt.Sprintf("%s step %d %s: %v", r.bid, i, st.Action, err))
			}
			return
		}
		r.res.Steps++
	}
}

// largeMerge: a replica that is also a writer merges a long history (150 entries in one batch) and writes while the
// merge is under way. In the specification this is Sync(r, H) and Write(r) in one order or the other: afterwards the
// log holds the history and the write, the entry that was listed is still listed at the place its time gives it, Get
// by address returns it, and the writer's next entry comes after everything it has seen.
func largeMerge(in *CoreInput, res *Result) {
	ctx := context.Background()
	bid := "write-during-large-merge"
	viol := func(kind, detail string, exp, got interface{}) {
		res.violate(Violation{Property: in.Property, Kind: kind, Behaviour: bid, Detail: detail, Expected: exp, Got: got})
	}
	w := sim.NewWorld()
	wn, err := w.AddPeer("lm-w").Start("")
	if err != nil {
		res.Inconclusive = append(res.Inconclusive, bid+": "+err.Error())
		return
	}
	defer wn.Close()
	rn, err := w.AddPeer("lm-r").Start("")
	if err != nil {
		res.Inconclusive = append(res.Inconclusive, bid+": "+err.Error())
		return
	}
	defer rn.Close()
	wd, err := wn.Open("lm", "eventlog", &orbitdb.CreateDBOptions{AccessController: sim.AccessFor([]string{"*"})})
	if err != nil {
		res.Inconclusive = append(res.Inconclusive, bid+": "+err.Error())
		return
	}
	const n = 150
	var head ipfslog.Entry
	for i := 0; i < n; i++ {
		op, err := wd.S.(orbitdb.EventLogStore).Add(ctx, []byte(fmt.Sprintf("h%03d", i)))
		if err != nil {
			res.Inconclusive = append(res.Inconclusive, bid+": "+err.Error())
			return
		}
		head = copyEntry(op.GetEntry())
	}
	rd, err := rn.Open(wd.Addr, "eventlog", nil)
	if err != nil {
		res.Inconclusive = append(res.Inconclusive, bid+": "+err.Error())
		return
	}
	if err := sim.Settle(settleTimeout, wn, rn); err != nil {
		res.Inconclusive = append(res.Inconclusive, bid+": "+err.Error())
		return
	}
	for _, m := range w.Bag() {
		w.Take(m.ID)
	}
	if rd.S.OpLog().Len() != 0 {
		res.Inconclusive = append(res.Inconclusive, bid+": the replica holds entries before the merge")
		return
	}
	res.Behaviours++
	mark("%s: the replica merges %d entries in one batch and writes meanwhile", bid, n)
	target := rd.S
	mine := func(args []interface{}) bool { return len(args) > 0 && sim.K(args[0]) == sim.K(target) }
	sim.TheHub.ParkAt("join.log", mine)
	defer sim.TheHub.ReleaseAll()
	if err := target.Sync(ctx, []ipfslog.Entry{head}); err != nil {
		sim.TheHub.Unpark("join.log")
		viol("list-error", "Sync of a valid head failed: "+err.Error(), nil, nil)
		return
	}
	p := parkedFor("join.log", func(p *sim.Parked) bool { return mine(p.Args) }, 20*time.Second)
	if p == nil {
		sim.TheHub.Unpark("join.log")
		res.Inconclusive = append(res.Inconclusive, bid+": the merge did not begin within 20 s")
		return
	}
	sim.TheHub.Unpark("join.log")
	el := target.(orbitdb.EventLogStore)
	list := func() ([]string, []ipfslog.Entry) {
		all := -1
		ops, err := el.List(ctx, &iface.StreamOptions{Amount: &all})
		if err != nil {
			viol("list-error", err.Error(), nil, nil)
			return nil, nil
		}
		vals, es := []string{}, []ipfslog.Entry{}
		for _, o := range ops {
			vals = append(vals, string(o.GetValue()))
			es = append(es, o.GetEntry())
		}
		return vals, es
	}
	type wr struct {
		op  operation.Operation
		err error
	}
	done := make(chan wr, 1)
	go func() {
		op, err := el.Add(ctx, []byte("mine-1"))
		done <- wr{op, err}
	}()
	var own ipfslog.Entry
	select {
	case x := <-done:
		if x.err != nil {
			sim.TheHub.Release(p)
			res.Inconclusive = append(res.Inconclusive, bid+": write during the merge: "+x.err.Error())
			return
		}
		own = copyEntry(x.op.GetEntry())
		res.Stats["writes_in_the_middle_of_a_merge"]++
	case <-time.After(300 * time.Millisecond):
		// (a store whose writes wait for the merge: the write lands after it; Write after Sync)
	}
	listedDuring := false
	if own != nil {
		vals, _ := list()
		for _, v := range vals {
			listedDuring = listedDuring || v == "mine-1"
		}
	}
	sim.TheHub.Release(p)
	if own == nil {
		select {
		case x := <-done:
			if x.err != nil {
				res.Inconclusive = append(res.Inconclusive, bid+": write: "+x.err.Error())
				return
			}
			own = copyEntry(x.op.GetEntry())
		case <-time.After(20 * time.Second):
			viol("list-error", "a write made during a merge never returned", nil, nil)
			return
		}
	}
	if err := sim.Settle(settleTimeout, rn); err != nil {
		res.Inconclusive = append(res.Inconclusive, bid+": "+err.Error())
		return
	}
	res.Comparisons++
	vals, es := list()
	pos := -1
	for i, v := range vals {
		if v == "mine-1" {
			pos = i
		}
	}
	if pos < 0 && listedDuring {
		viol("removed", fmt.Sprintf("an entry the replica wrote during a merge of %d entries was listed then and is not listed after the merge", n), "mine-1 listed", fmt.Sprintf("%d entries, mine-1 absent", len(vals)))
		return
	}
	if pos < 0 {
		viol("list", fmt.Sprintf("an entry the replica wrote during a merge of %d entries is not listed after the merge", n), "mine-1 listed", fmt.Sprintf("%d entries", len(vals)))
		return
	}
	if len(vals) != n+1 {
		viol("list", "after the merge and the write the listing does not hold the history and the write", n+1, len(vals))
	}
	for i := 1; i < len(es); i++ {
		a, b := es[i-1].GetClock(), es[i].GetClock()
		if a.GetTime() > b.GetTime() {
			viol("order", "the listing is not in the order of the log", nil, fmt.Sprintf("position %d: time %d before time %d", i, a.GetTime(), b.GetTime()))
			break
		}
	}
	if e, ok := target.OpLog().Get(own.GetHash()); !ok || e == nil {
		viol("get", "Get by address of an entry written during a merge does not return it", own.GetHash().String(), nil)
	}
	// the writer's next entry: after everything the replica has seen
	op2, err := el.Add(ctx, []byte("mine-2"))
	if err != nil {
		res.Inconclusive = append(res.Inconclusive, bid+": second write: "+err.Error())
		return
	}
	res.Comparisons++
	t2 := op2.GetEntry().GetClock().GetTime()
	if t2 <= own.GetClock().GetTime() || t2 <= head.GetClock().GetTime() {
		viol("order", "the writer's next entry does not come after everything it had seen", fmt.Sprintf("> %d and > %d", own.GetClock().GetTime(), head.GetClock().GetTime()), t2)
	}
	res.Steps += 3
}
