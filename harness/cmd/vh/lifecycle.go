package main

import (
	"berty.tech/go-ipfs-log/entry"
	"berty.tech/go-orbit-db/stores/basestore"
	"context"
	"fmt"
	cid "github.com/ipfs/go-cid"
	"os"
	"path/filepath"
	"strings"
	"time"

	ipfslog "berty.tech/go-ipfs-log"
	orbitdb "berty.tech/go-orbit-db"
	"berty.tech/go-orbit-db/iface"
	"verif/harness/sim"
)

func init() { commands["lifecycle"] = lifecycleCmd }

// LifecycleInput: behaviours of spec/Lifecycle.tla on a real instance with on-disk directories.
type LifecycleInput struct {
	Property   string      `json:"property"`
	Seed       int64       `json:"seed"`
	TmpDir     string      `json:"tmp_dir"`
	Behaviours []Behaviour `json:"behaviours"`
}

type lcRun struct {
	blockedFetch           bool // replication positions are realised as a fetch that cannot complete (provider cut off)
	sharedOpts             bool // one CreateDBOptions value reused for the sibling and the main database
	slowRead               bool // the load in flight is held inside a block read, not before it
	snapLoad               bool // the load in flight is a LoadFromSnapshot that waits for the block of a saved head
	snapGone               cid.Cid
	snapGoneData           []byte
	in                     *LifecycleInput
	res                    *Result
	bid                    string
	step                   int
	w                      *sim.World
	inst                   *sim.Node
	rem                    *sim.Node
	dir                    string
	main                   *sim.StoreRef
	sib                    *sim.StoreRef
	putDone                chan error
	loadDone               chan error
	remoteHead             ipfslog.Entry
	beforeInst, beforeMain map[string]string
}

func (r *lcRun) violate(kind, detail string) {
	r.res.violate(Violation{Property: r.in.Property, Kind: kind, Behaviour: r.bid, Step: r.step, Detail: detail})
}

// watchdog runs f and reports a hang instead of waiting for ever
func (r *lcRun) watchdog(what string, d time.Duration, f func() error) (err error, hung bool) {
	done := make(chan error, 1)
	go func() {
		defer func() {
			if p := recover(); p != nil {
				done <- fmt.Errorf("PANIC: %v", p)
			}
		}()
		done <- f()
	}()
	select {
	case err = <-done:
		if err != nil && strings.HasPrefix(err.Error(), "PANIC:") {
			r.violate("panic", what+": "+err.Error())
		}
		return err, false
	case <-time.After(d):
		stack := sim.Goroutines()
		keep := []string{}
		for _, g := range strings.Split(stack, "\n\n") {
			if strings.Contains(g, "go-orbit-db/") && !strings.Contains(g, "lcRun).watchdog") {
				lines := strings.Split(g, "\n")
				if len(lines) > 7 {
					lines = lines[:7]
				}
				keep = append(keep, strings.Join(lines, " | "))
			}
		}
		if len(keep) > 3 {
			keep = keep[:3]
		}
		r.violate("hang", fmt.Sprintf("%s does not return within %s; %s", what, d, strings.Join(keep, " ## ")))
		return nil, true
	}
}

// goroutines returns id -> abbreviated stack of every goroutine that has a frame
// in go-orbit-db, go-ipfs-log or goleveldb (the harness's own calls excluded).
func goroutines() map[string]string {
	out := map[string]string{}
	for _, g := range strings.Split(sim.Goroutines(), "\n\n") {
		if !(strings.Contains(g, "berty.tech/go-orbit-db/") || strings.Contains(g, "berty.tech/go-ipfs-log") || strings.Contains(g, "goleveldb")) {
			continue
		}
		if strings.Contains(g, "main.main()") || strings.Contains(g, "lcRun).watchdog") {
			continue
		}
		lines := strings.Split(g, "\n")
		id := strings.Fields(lines[0])
		if len(id) < 2 {
			continue
		}
		if len(lines) > 9 {
			lines = append(lines[:7], lines[len(lines)-2:]...)
		}
		out[id[1]] = strings.Join(lines, " | ")
	}
	return out
}

func (r *lcRun) setup(tag string) error {
	r.w = sim.NewWorld()
	var err error
	r.dir, err = os.MkdirTemp(r.in.TmpDir, "lc-")
	if err != nil {
		return err
	}
	// the remote peer creates the main database and writes one entry
	if r.rem, err = r.w.AddPeer(tag + "-rem").Start(""); err != nil {
		return err
	}
	ac := sim.AccessFor([]string{"*"})
	ctx := context.Background()
	rr, err := r.rem.Open("main-"+tag, "keyvalue", &orbitdb.CreateDBOptions{AccessController: ac})
	if err != nil {
		return err
	}
	// two entries: the head the instance is given links to an entry only the remote peer holds
	if _, err := rr.S.(orbitdb.KeyValueStore).Put(ctx, "remote0", []byte("remote0")); err != nil {
		return err
	}
	op, err := rr.S.(orbitdb.KeyValueStore).Put(ctx, "remote", []byte("remote"))
	if err != nil {
		return err
	}
	r.remoteHead = copyEntry(op.GetEntry())
	if err := sim.Settle(settleTimeout, r.rem); err != nil {
		return err
	}
	// what is alive now is not the instance's
	r.beforeInst = goroutines()
	ip := r.w.AddPeer(tag + "-inst")
	if r.inst, err = ip.Start(filepath.Join(r.dir, "orbitdb")); err != nil {
		return err
	}
	// every second behaviour: the caller reuses one options value for all the databases it opens
	sibOpts := &orbitdb.CreateDBOptions{AccessController: ac}
	var mainOpts *orbitdb.CreateDBOptions
	if r.sharedOpts {
		mainOpts = sibOpts
	}
	if r.sib, err = r.inst.Open("sibling-"+tag, "eventlog", sibOpts); err != nil {
		return err
	}
	for i := 0; i < 2; i++ {
		if _, err := r.sib.S.(orbitdb.EventLogStore).Add(ctx, []byte(fmt.Sprintf("sib%d", i))); err != nil {
			return err
		}
	}
	if err := sim.Settle(settleTimeout, r.inst, r.rem); err != nil {
		return err
	}
	// everything alive now belongs to the instance, the sibling or the remote peer; what the main store starts comes later
	r.beforeMain = goroutines()
	if r.main, err = r.inst.Open(rr.Addr, "keyvalue", mainOpts); err != nil {
		return err
	}
	if _, err := r.main.S.(orbitdb.KeyValueStore).Put(ctx, "seed", []byte("seed")); err != nil {
		return err
	}
	if err := sim.Settle(settleTimeout, r.inst, r.rem); err != nil {
		return err
	}
	for _, m := range r.w.Bag() {
		r.w.Take(m.ID)
	}
	return nil
}

func (r *lcRun) mine(i int) func(args []interface{}) bool {
	return func(args []interface{}) bool { return len(args) > i && sim.K(args[i]) == sim.K(r.main.S) }
}

func (r *lcRun) parkedAt(point string, i int, d time.Duration) *sim.Parked {
	return parkedFor(point, func(p *sim.Parked) bool { return len(p.Args) > i && sim.K(p.Args[i]) == sim.K(r.main.S) }, d)
}

var wPoints = []string{"", "write.appended", "write.persisted", "write.indexed", "write.emitted"}
var rPoints = []struct {
	point string
	arg   int
}{{"", 0}, {"repl.slot.wait", 1}, {"repl.fetch", 1}, {"repl.fetched", 1}, {"join.begin", 0}, {"join.indexed", 0}, {"join.persisted", 0}}

// position brings writer, replication and load to the requested points.
func (r *lcRun) position(w, rp, l int) {
	h := sim.TheHub
	ctx := context.Background()
	const d = 1500 * time.Millisecond
	if w > 1 {
		for i := 1; i < w; i++ {
			h.ParkAt(wPoints[i], r.mine(0))
		}
		r.putDone = make(chan error, 1)
		go func() {
			_, err := r.main.S.(orbitdb.KeyValueStore).Put(ctx, "w", []byte("w"))
			r.putDone <- err
		}()
		for i := 1; i < w; i++ {
			p := r.parkedAt(wPoints[i], 0, d)
			if p == nil {
				r.res.note("%s: writer did not reach %s", r.bid, wPoints[i])
				break
			}
			if i < w-1 {
				h.Release(p)
			}
		}
	}
	if rp > 1 && r.blockedFetch {
		// the provider of the blocks is gone: the replication started here stays inside its fetch until it is cancelled
		r.w.Cut(r.inst.P.Name, r.rem.P.Name)
		_ = r.main.S.Sync(ctx, []ipfslog.Entry{copyEntry(r.remoteHead)})
		time.Sleep(30 * time.Millisecond)
		r.res.Stats["closed_with_fetch_blocked"]++
	} else if rp > 1 {
		for i := 1; i < rp; i++ {
			h.ParkAt(rPoints[i].point, r.mine(rPoints[i].arg))
		}
		_ = r.main.S.Sync(ctx, []ipfslog.Entry{copyEntry(r.remoteHead)})
		for i := 1; i < rp; i++ {
			p := r.parkedAt(rPoints[i].point, rPoints[i].arg, d)
			if p == nil {
				r.res.note("%s: replication did not reach %s", r.bid, rPoints[i].point)
				break
			}
			if i < rp-1 {
				h.Release(p)
			}
		}
	}
	if l > 1 && r.snapLoad {
		// the store has saved a snapshot; the block of the head it names is taken away, and LoadFromSnapshot waits for it
		if _, err := basestore.SaveSnapshot(ctx, r.main.S); err != nil {
			r.res.note("%s: SaveSnapshot: %v", r.bid, err)
			r.snapLoad = false
		} else if hs := r.main.S.OpLog().Heads().Slice(); len(hs) > 0 {
			for _, peer := range []*sim.Peer{r.inst.P, r.rem.P} {
				if data, ok := peer.DropBlock(hs[0].GetHash()); ok {
					r.snapGone, r.snapGoneData = hs[0].GetHash(), data
				}
			}
			r.loadDone = make(chan error, 1)
			go func() { r.loadDone <- r.main.S.LoadFromSnapshot(ctx) }()
			time.Sleep(50 * time.Millisecond)
			r.res.Stats["snapshot_loads_waiting_for_a_block"]++
			return
		}
	}
	if l > 1 {
		h.ParkAt("load.head.begin", r.mine(0))
		r.loadDone = make(chan error, 1)
		go func() { r.loadDone <- r.main.S.Load(ctx, -1) }()
		lp := r.parkedAt("load.head.begin", 0, 400*time.Millisecond)
		if lp == nil {
			r.res.note("%s: load did not reach its head (blocked behind the join mutex)", r.bid)
		} else if r.slowRead {
			// the load goes on and is held in the middle of a block read (a slow disk): the read completes after the close
			inst := r.inst.P
			h.ParkAt("sim.get", func(args []interface{}) bool { return len(args) > 0 && args[0] == interface{}(inst) })
			h.Release(lp)
			if parkedFor("sim.get", nil, 2*time.Second) == nil {
				r.res.note("%s: the load reads no block", r.bid)
			} else {
				r.res.Stats["loads_held_in_a_block_read"]++
			}
			h.Unpark("sim.get")
		}
	}
}

func (r *lcRun) run(b Behaviour, idx int) {
	r.sharedOpts = idx%2 == 1
	r.snapLoad = idx%5 == 3
	r.slowRead = !r.snapLoad && idx%4 == 2
	r.snapGone, r.snapGoneData = cid.Undef, nil
	r.blockedFetch = idx%3 == 2
	if err := r.setup(fmt.Sprintf("lc%d", idx)); err != nil {
		r.res.Inconclusive = append(r.res.Inconclusive, b.ID+": setup: "+err.Error())
		return
	}
	defer os.RemoveAll(r.dir)
	wedged := false
	defer func() {
		sim.TheHub.ReleaseAll()
		if wedged {
			return // a call on the instance never returned: closing it would hang this process too
		}
		done := make(chan struct{})
		go func() { _ = r.inst.Close(); _ = r.rem.Close(); close(done) }()
		select {
		case <-done:
		case <-time.After(8 * time.Second):
			// the instance does not close: the goroutine stays behind, the next moment starts on a new world
		}
	}()
	ctx := context.Background()
	last := b.Steps[len(b.Steps)-1].State
	w, rp, l := asInt(last["w"]), asInt(last["r"]), asInt(last["l"])
	kind := asStr(last["kind"])
	if kind == "none" {
		return
	}
	r.res.Behaviours++
	mark("%s: position writer=%d replication=%d load=%d then close kind %s", b.ID, w, rp, l, kind)
	r.position(w, rp, l)
	r.res.Steps++
	// in every second moment with a load in flight, the block of the head that load is about to read is nowhere to be had
	// (as if its provider had left): the load waits for it, and the close must end that wait
	var gone cid.Cid
	var goneData []byte
	if r.snapGone.Defined() {
		gone, goneData = r.snapGone, r.snapGoneData
	} else if !r.slowRead && (l == 3 || (l == 2 && idx%2 == 0)) {
		if p := r.parkedAt("load.head.begin", 0, 100*time.Millisecond); p != nil && len(p.Args) > 1 {
			if he, ok := p.Args[1].(ipfslog.Entry); ok && he != nil {
				for _, peer := range []*sim.Peer{r.inst.P, r.rem.P} {
					if data, ok := peer.DropBlock(he.GetHash()); ok {
						gone, goneData = he.GetHash(), data
					}
				}
				r.res.Stats["loads_waiting_for_a_block"]++
			}
		}
	}
	// close
	closeOnce := func() error {
		switch kind {
		case "store", "store-twice":
			return r.main.S.Close()
		case "instance", "instance-twice":
			return r.inst.DB.Close()
		case "instance-cancelled":
			// the context the instance was created under has ended (its owner cancelled it, or it expired) before Close is called
			r.inst.CancelContext()
			time.Sleep(5 * time.Millisecond)
			return r.inst.DB.Close()
		case "drop":
			return r.main.S.Drop()
		}
		return nil
	}
	if err, hung := r.watchdog("Close ("+kind+")", 6*time.Second, closeOnce); hung {
		return
	} else if err != nil && !strings.HasPrefix(err.Error(), "PANIC") {
		r.res.note("%s: close (%s) returned %v", b.ID, kind, err)
	}
	if strings.HasSuffix(kind, "-twice") {
		if err, hung := r.watchdog("second Close ("+kind+")", 6*time.Second, closeOnce); hung {
			return
		} else if err != nil && !strings.HasPrefix(err.Error(), "PANIC") {
			r.violate("close-twice", "the second close returned an error: "+err.Error())
		}
	}
	r.res.Steps++
	// the held goroutines continue
	sim.TheHub.ReleaseAll()
	putReturned, putErr := false, error(nil)
	if r.putDone != nil {
		select {
		case putErr = <-r.putDone:
			putReturned = true
		case <-time.After(5 * time.Second):
			r.violate("hang", "a write in flight when the store was closed never returns")
		}
	}
	if r.loadDone != nil {
		select {
		case <-r.loadDone:
		case <-time.After(5 * time.Second):
			if gone.Defined() {
				r.violate("hang", "a load that was waiting for a block when the store was closed does not return (close kind "+kind+")")
			} else {
				r.violate("hang", "a load in flight when the store was closed never returns")
			}
		}
	}
	if gone.Defined() {
		r.inst.P.PutBlock(gone, goneData)
	}
	// every background activity the store (or instance) started comes to an end
	instanceWide := strings.HasPrefix(kind, "instance")
	base := r.beforeMain
	if instanceWide {
		base = r.beforeInst
	}
	deadline := time.Now().Add(4 * time.Second)
	var left []string
	for {
		left = left[:0]
		for id, g := range goroutines() {
			if _, ok := base[id]; !ok {
				left = append(left, g)
			}
		}
		if len(left) == 0 || time.Now().After(deadline) {
			break
		}
		time.Sleep(20 * time.Millisecond)
	}
	r.res.Comparisons++
	if len(left) > 0 {
		n := len(left)
		if len(left) > 3 {
			left = left[:3]
		}
		r.violate("leak", fmt.Sprintf("%d goroutine(s) started after the store was opened are still running after close kind %s: %s", n, kind, strings.Join(left, " ## ")))
	}
	// later operations return promptly
	for _, p := range asList(last["posts"]) {
		op := asStr(p)
		mark("%s: %s after close kind %s", b.ID, op, kind)
		r.res.Comparisons++
		r.watchdog(op+" after "+kind, 4*time.Second, func() error {
			c, cancel := context.WithTimeout(ctx, 2*time.Second)
			defer cancel()
			switch op {
			case "put":
				_, err := r.main.S.(orbitdb.KeyValueStore).Put(c, "after", []byte("x"))
				return err
			case "get":
				_, err := r.main.S.(orbitdb.KeyValueStore).Get(c, "seed")
				_ = r.main.S.(orbitdb.KeyValueStore).All()
				return err
			case "load":
				return r.main.S.Load(c, -1)
			case "sync":
				return r.main.S.Sync(c, []ipfslog.Entry{copyEntry(r.remoteHead)})
			case "close":
				return r.main.S.Close()
			case "drop":
				if kind == "drop" {
					return r.main.S.Drop()
				}
				return nil
			case "subscribe":
				sc, scancel := context.WithCancel(c)
				ch := r.main.S.Subscribe(sc) //nolint:staticcheck
				scancel()
				select {
				case <-ch:
				case <-time.After(time.Second):
				}
				return nil
			}
			return nil
		})
	}
	// the database is opened again on the same instance, then the closed handle is dropped: Drop removes the local data
	// of that database, returns, and leaves the instance usable
	dropped := kind == "drop"
	wantsDrop := idx%2 == 1
	for _, p := range asList(last["posts"]) {
		wantsDrop = wantsDrop || asStr(p) == "reopen-and-drop"
	}
	if (kind == "store" || kind == "store-twice") && wantsDrop {
		dropped = true
		r.res.Comparisons++
		r.res.Stats["drop_of_closed_handle_after_reopen"]++
		mark("%s: open again, then Drop of the closed handle", b.ID)
		var again *sim.StoreRef
		if _, hung := r.watchdog("opening the database again after "+kind, 6*time.Second, func() error {
			var err error
			again, err = r.inst.Open(r.main.Addr, "keyvalue", nil)
			return err
		}); hung {
			wedged = true
			return
		}
		if again != nil {
			if _, hung := r.watchdog("Drop of the closed handle after the database was opened again", 6*time.Second, func() error { return r.main.S.Drop() }); hung {
				wedged = true
				return
			}
			if _, hung := r.watchdog("Close of the second handle after the first was dropped", 6*time.Second, func() error { return again.S.Close() }); hung {
				wedged = true
				return
			}
			again.Closed = true
		}
	}
	// the sibling database of the same instance is untouched (unless the whole instance was closed)
	if !instanceWide {
		r.res.Comparisons++
		err, hung := r.watchdog("write to the sibling database", 4*time.Second, func() error {
			_, err := r.sib.S.(orbitdb.EventLogStore).Add(ctx, []byte("sib-after"))
			return err
		})
		if !hung && err != nil {
			r.violate("sibling", fmt.Sprintf("after %s of one database the sibling database cannot be written: %v", kind, err))
		}
		// ... and still replicates: a chain of 150 entries of the remote peer (several hundred replicator events on the bus the
		// closed store shared with it)
		if !hung && idx%4 == 1 {
			r.res.Comparisons++
			r.res.Stats["sibling_replications_after_close"]++
			next, t := []cid.Cid{}, 10
			var head *entry.Entry
			for i := 0; i < 150; i++ {
				e, err := mkEntry(ctx, r.rem, r.rem.DB.Identity(), r.sib.Addr, opPayload("log", fmt.Sprintf("chain-%d", i)), next, t)
				if err != nil {
					r.res.Inconclusive = append(r.res.Inconclusive, b.ID+": chain: "+err.Error())
					return
				}
				head, next, t = e, []cid.Cid{e.GetHash()}, t+1
			}
			r.w.Heal(r.inst.P.Name, r.rem.P.Name) // (some moments cut the provider off to keep a fetch of the closed store waiting)
			before := r.sib.S.OpLog().Len()
			_, hung := r.watchdog("Sync of the sibling database", 6*time.Second, func() error { return r.sib.S.Sync(ctx, []ipfslog.Entry{head}) })
			if hung {
				wedged = true
				return
			}
			deadline := time.Now().Add(15 * time.Second)
			for r.sib.S.OpLog().Len() < before+150 && time.Now().Before(deadline) {
				time.Sleep(20 * time.Millisecond)
			}
			if got := r.sib.S.OpLog().Len() - before; got < 150 {
				r.violate("sibling", fmt.Sprintf("after %s of one database the sibling database replicated %d of 150 entries and stopped", kind, got))
				wedged = true // emitters of the instance may be blocked for good: closing it would hang
				return
			}
		}
	}
	// reopen the directory
	if _, hung := r.watchdog("Close of the instance after "+kind, 8*time.Second, func() error { return r.inst.Close() }); hung {
		wedged = true
		return
	}
	if !instanceWide {
		// closing the instance after one of its databases was closed: everything the instance started ends
		deadline := time.Now().Add(4 * time.Second)
		var still []string
		for {
			still = still[:0]
			for id, g := range goroutines() {
				if _, ok := r.beforeInst[id]; !ok {
					still = append(still, g)
				}
			}
			if len(still) == 0 || time.Now().After(deadline) {
				break
			}
			time.Sleep(20 * time.Millisecond)
		}
		r.res.Comparisons++
		if len(still) > 0 {
			n := len(still)
			if len(still) > 3 {
				still = still[:3]
			}
			r.violate("leak", fmt.Sprintf("%d goroutine(s) of the instance are still running after %s of one database followed by the close of the instance: %s", n, kind, strings.Join(still, " ## ")))
		}
	}
	acked := []string{"seed"}
	if putReturned && putErr == nil {
		acked = append(acked, "w")
	}
	n2, err := r.inst.P.Start(filepath.Join(r.dir, "orbitdb"))
	if err != nil {
		r.violate("reopen", "the directory cannot be reopened: "+err.Error())
		return
	}
	defer n2.Close()
	r.res.Comparisons++
	if n2.DB.Identity().ID != r.inst.DB.Identity().ID {
		r.violate("reopen", "the identity changed across the restart")
	}
	m2, err := n2.Open(r.main.Addr, "keyvalue", &orbitdb.CreateDBOptions{Timeout: 3 * time.Second})
	if err != nil {
		r.violate("reopen", "the database cannot be reopened: "+err.Error())
	} else if err := m2.S.Load(ctx, -1); err != nil {
		r.violate("reopen", "Load after reopening failed: "+err.Error())
	} else {
		all := m2.S.(orbitdb.KeyValueStore).All()
		if dropped {
			// dropped: local data gone (what was replicated elsewhere may come back later, not by Load)
			if len(all) != 0 {
				r.violate("drop", fmt.Sprintf("after Drop and reopen the database still shows %d keys from local data", len(all)))
			}
		} else {
			for _, k := range acked {
				if _, ok := all[k]; !ok {
					r.violate("reopen", fmt.Sprintf("acknowledged write %q is missing after %s and reopen", k, kind))
				}
			}
		}
	}
	s2, err := n2.Open(r.sib.Addr, "eventlog", &orbitdb.CreateDBOptions{Timeout: 3 * time.Second})
	if err != nil {
		r.violate("sibling", "the sibling database cannot be reopened: "+err.Error())
	} else if err := s2.S.Load(ctx, -1); err != nil {
		r.violate("sibling", "Load of the sibling failed: "+err.Error())
	} else {
		all := -1
		ops, _ := s2.S.(orbitdb.EventLogStore).List(ctx, &iface.StreamOptions{Amount: &all})
		if len(ops) < 2 {
			r.violate("sibling", fmt.Sprintf("after %s of one database the sibling shows %d of its entries", kind, len(ops)))
		}
	}
	if len(r.res.Samples) < 3 {
		r.res.Samples = append(r.res.Samples, map[string]interface{}{"behaviour": b.ID, "writer_at": w, "replication_at": rp, "load_at": l, "close": kind, "posts": last["posts"]})
	}
}

func lifecycleCmd(args []string) int {
	in := &LifecycleInput{}
	if len(args) < 2 || readJSON(args[0], in) != nil {
		fmt.Fprintln(os.Stderr, "usage: vh lifecycle <in.json> <out.json>")
		return 2
	}
	if err := sim.Install(); err != nil {
		fmt.Fprintln(os.Stderr, err)
		return 2
	}
	_ = os.MkdirAll(in.TmpDir, 0o755)
	res := newResult("lifecycle")
	for i, b := range in.Behaviours {
		r := &lcRun{in: in, res: res, bid: b.ID}
		r.run(b, i)
	}
	return res.write(args[1])
}
