package main

import (
	"context"
	"encoding/json"
	"fmt"
	"math/rand"
	"os"
	"sync"
	"time"

	"berty.tech/go-orbit-db/events"
	"verif/harness/sim"
)

func init() { commands["emitter"] = emitterCmd }

// EmitterInput: behaviours of spec/SimEmitter.tla to force on the real
// EventEmitter.handleSubscriber goroutines, plus free-running runs.
type EmitterInput struct {
	Property   string      `json:"property"`
	Seed       int64       `json:"seed"`
	N          int         `json:"n"`
	Behaviours []Behaviour `json:"behaviours"`
	FreeRuns   int         `json:"free_runs"`
	TraceOut   string      `json:"trace_out"`
}

type emRun struct {
	res     *Result
	in      *EmitterInput
	bid     string
	step    int
	ee      *events.EventEmitter
	ch      <-chan events.Event
	cancel  context.CancelFunc
	emitted int
	placed  int
	out     []int
	mu      sync.Mutex
	modes   []string
}

// emSub is the subscriber of the run in progress (first argument of every emitter hook): goroutines of an earlier
// run that are still winding down must not be mistaken for this run's.
var emSub interface{}

func waitPark(point string, d time.Duration) *sim.Parked {
	var got *sim.Parked
	sim.TheHub.WaitFor(d, func() bool {
		for _, p := range sim.TheHub.ParkedLocked() {
			if p.Point == point && (emSub == nil || (len(p.Args) > 0 && p.Args[0] == emSub)) {
				got = p
				return true
			}
		}
		return false
	})
	return got
}

func (r *emRun) violate(kind, detail string, exp, got interface{}) {
	r.res.violate(Violation{Property: r.in.Property, Kind: kind, Behaviour: r.bid, Step: r.step, Detail: detail, Expected: exp, Got: got})
}

func (r *emRun) start() {
	h := sim.TheHub
	h.ReleaseAll()
	h.ClearHandlers()
	h.OnEvent(func(point string, args []interface{}) {
		if point == "emitter.place" && len(args) >= 3 {
			r.mu.Lock()
			r.modes = append(r.modes, args[2].(string))
			r.mu.Unlock()
		}
	})
	r.ee = &events.EventEmitter{}
	ctx, cancel := context.WithCancel(context.Background())
	r.cancel = cancel
	r.ch = r.ee.Subscribe(ctx)
}

func (r *emRun) stop() {
	sim.TheHub.ReleaseAll()
	r.cancel()
	// drain so that the goroutines can finish
	go func() {
		for range r.ch {
		}
	}()
	sim.TheHub.ClearHandlers()
}

func (r *emRun) read(d time.Duration) bool {
	select {
	case e, ok := <-r.ch:
		if !ok {
			return false
		}
		v, _ := e.(int)
		r.out = append(r.out, v)
		if v != len(r.out) {
			r.violate("emitter-order", fmt.Sprintf("subscriber received event %d at position %d", v, len(r.out)), len(r.out), append([]int{}, r.out...))
		}
		return true
	case <-time.After(d):
		return false
	}
}

const gateWait = 5 * time.Second

// forced replays one SimEmitter behaviour with gates.
func (r *emRun) forced(b Behaviour) error {
	h := sim.TheHub
	r.start()
	defer r.stop()
	emSub = nil
	h.ReleaseAll()
	h.ParkAt("emitter.recv", nil)
	h.ParkAt("emitter.send", nil)
	h.ParkAt("emitter.sent", nil)
	ctx := context.Background()
	for si, st := range b.Steps {
		r.step = si
		switch st.Action {
		case "Init":
		case "Emit":
			r.emitted++
			r.ee.Emit(ctx, r.emitted)
			if r.emitted-r.placed == 1 {
				p := waitPark("emitter.recv", gateWait)
				if p == nil {
					return fmt.Errorf("goroutine A did not reach emitter.recv")
				}
				if emSub == nil && len(p.Args) > 1 && p.Args[1] == interface{}(r.emitted) {
					emSub = p.Args[0]
				}
			}
		case "Place":
			p := waitPark("emitter.recv", gateWait)
			if p == nil {
				return fmt.Errorf("goroutine A not parked at emitter.recv")
			}
			before := h.Count("emitter.place", nil)
			h.Release(p)
			if !h.WaitFor(gateWait, func() bool { return h.CountLocked("emitter.place", nil) >= before+1 }) {
				return fmt.Errorf("goroutine A did not place the event")
			}
			r.placed++
			r.mu.Lock()
			mode := r.modes[len(r.modes)-1]
			r.mu.Unlock()
			want := "queued"
			if si > 0 && len(asList(st.State["ch"])) > len(asList(b.Steps[si-1].State["ch"])) {
				want = "direct"
			}
			if mode != want {
				r.res.note("%s step %d: event placed %s, specification %s", r.bid, si, mode, want)
				return errDrift
			}
			if r.emitted-r.placed >= 1 {
				if waitPark("emitter.recv", gateWait) == nil {
					return fmt.Errorf("goroutine A did not reach emitter.recv again")
				}
			}
		case "Dequeue":
			if waitPark("emitter.send", gateWait) == nil {
				return fmt.Errorf("goroutine B did not dequeue")
			}
		case "Send":
			p := waitPark("emitter.send", gateWait)
			if p == nil {
				return fmt.Errorf("goroutine B not parked at emitter.send")
			}
			h.Release(p)
			if waitPark("emitter.sent", gateWait) == nil {
				return fmt.Errorf("goroutine B did not complete its send")
			}
		case "Relock":
			p := waitPark("emitter.sent", gateWait)
			if p == nil {
				return fmt.Errorf("goroutine B not parked at emitter.sent")
			}
			before := h.Count("emitter.relocked", nil)
			h.Release(p)
			if !h.WaitFor(gateWait, func() bool { return h.CountLocked("emitter.relocked", nil) >= before+1 }) {
				return fmt.Errorf("goroutine B did not take the lock again")
			}
		case "Read":
			if !r.read(gateWait) {
				r.violate("emitter-loss", "channel empty although the specification has an event in it", nil, append([]int{}, r.out...))
				return nil
			}
		default:
			return fmt.Errorf("unknown action %s", st.Action)
		}
		r.res.Steps++
		r.res.Stats["action_"+st.Action]++
		if want := asInts(st.State["out"]); st.Action == "Read" && !eqInts(want, r.out) {
			r.violate("emitter-order", "subscriber output differs from the specification", want, append([]int{}, r.out...))
		}
		r.res.Comparisons++
	}
	// let everything run freely and drain: nothing may be lost or duplicated
	h.ReleaseAll()
	for r.emitted < r.in.N {
		r.emitted++
		r.ee.Emit(ctx, r.emitted)
	}
	for len(r.out) < r.emitted {
		if !r.read(3 * time.Second) {
			r.violate("emitter-loss", fmt.Sprintf("subscriber received %d of %d events", len(r.out), r.emitted), r.emitted, append([]int{}, r.out...))
			break
		}
	}
	r.step = -1
	if r.read(50 * time.Millisecond) {
		r.violate("emitter-dup", "subscriber received more events than were emitted", r.emitted, append([]int{}, r.out...))
	}
	return nil
}

var errDrift = fmt.Errorf("model drift")

// free lets the goroutines run without gates against a reader with random
// stalls; the hook events are recorded for trace validation.
func (r *emRun) free(rng *rand.Rand, enc *json.Encoder) {
	h := sim.TheHub
	r.start()
	defer r.stop()
	var tmu sync.Mutex
	emit := func(ev map[string]interface{}) {
		if enc != nil {
			tmu.Lock()
			_ = enc.Encode(ev)
			r.res.TraceEvents++
			tmu.Unlock()
		}
	}
	emit(map[string]interface{}{"ev": "Reset"})
	h.OnEvent(func(point string, args []interface{}) {
		switch point {
		case "emitter.place":
			emit(map[string]interface{}{"ev": "Place", "e": args[1], "mode": args[2]})
		case "emitter.dequeued":
			emit(map[string]interface{}{"ev": "Dequeue", "e": args[1]})
		case "emitter.relocked":
			emit(map[string]interface{}{"ev": "Relock"})
		}
	})
	ctx := context.Background()
	done := make(chan struct{})
	go func() {
		defer close(done)
		for i := 1; i <= r.in.N; i++ {
			r.ee.Emit(ctx, i)
			if rng.Intn(4) == 0 {
				time.Sleep(time.Duration(rng.Intn(300)) * time.Microsecond)
			}
		}
	}()
	stallAt := map[int]bool{rng.Intn(r.in.N): true, rng.Intn(r.in.N): true}
	for len(r.out) < r.in.N {
		if stallAt[len(r.out)] {
			time.Sleep(time.Duration(2+rng.Intn(6)) * time.Millisecond)
		}
		if !r.read(3 * time.Second) {
			r.violate("emitter-loss", fmt.Sprintf("subscriber received %d of %d events", len(r.out), r.in.N), r.in.N, append([]int{}, r.out...))
			break
		}
		r.res.Comparisons++
	}
	<-done
	emit(map[string]interface{}{"ev": "Out", "out": append([]int{}, r.out...)})
	r.res.Traces++
}

// longStall: the subscriber does not read at all while many events are emitted (far more than any buffer on the way
// holds), then reads: every event, once, in the order it was emitted.
func (r *emRun) longStall(n int) {
	r.start()
	defer r.stop()
	ctx := context.Background()
	done := make(chan struct{})
	go func() {
		defer close(done)
		for i := 1; i <= n; i++ {
			r.ee.Emit(ctx, i)
		}
	}()
	select {
	case <-done:
	case <-time.After(10 * time.Second):
		r.violate("emitter-loss", fmt.Sprintf("emitting %d events while the subscriber does not read does not return", n), nil, nil)
		return
	}
	time.Sleep(50 * time.Millisecond)
	for len(r.out) < n {
		if !r.read(3 * time.Second) {
			r.violate("emitter-loss", fmt.Sprintf("a subscriber that did not read while %d events were emitted received %d of them", n, len(r.out)), n, len(r.out))
			return
		}
	}
	r.res.Comparisons++
	r.res.Stats["long_stalls"]++
}

func emitterCmd(args []string) int {
	in := &EmitterInput{}
	if len(args) < 2 || readJSON(args[0], in) != nil {
		fmt.Fprintln(os.Stderr, "usage: vh emitter <in.json> <out.json>")
		return 2
	}
	if err := sim.Install(); err != nil {
		fmt.Fprintln(os.Stderr, err)
		return 2
	}
	res := newResult("emitter")
	for _, b := range in.Behaviours {
		r := &emRun{res: res, in: in, bid: b.ID}
		err := r.forced(b)
		res.Behaviours++
		if err != nil && err != errDrift {
			res.Inconclusive = append(res.Inconclusive, fmt.Sprintf("%s step %d: %v", b.ID, r.step, err))
		}
		if err == errDrift {
			res.Stats["drift"]++
		}
		if len(res.Samples) < 3 {
			res.Samples = append(res.Samples, map[string]interface{}{"behaviour": b.ID, "actions": briefSteps(b.Steps), "received": r.out})
		}
	}
	var enc *json.Encoder
	if in.TraceOut != "" && in.FreeRuns > 0 {
		f, err := os.Create(in.TraceOut)
		if err != nil {
			fmt.Fprintln(os.Stderr, err)
			return 2
		}
		defer f.Close()
		enc = json.NewEncoder(f)
		res.TraceFile = in.TraceOut
	}
	if in.FreeRuns > 0 {
		r := &emRun{res: res, in: in, bid: "long-stall"}
		r.longStall(600)
	}
	for i := 0; i < in.FreeRuns; i++ {
		r := &emRun{res: res, in: in, bid: fmt.Sprintf("free-%d", i)}
		r.free(rand.New(rand.NewSource(in.Seed*31+int64(i))), enc)
	}
	return res.write(args[1])
}
