#!/bin/bash
R=${VERIF_DIR:-/verif}/tools/seeded_round.sh
$R /tmp/mut7/C01 C01-eventlog-list-pinned-to-heads "go test -tags c01demo -vet=off -count=1 ./demo/" C01 C08 C16
$R /tmp/mut7/C03 C03-own-id-skips-identity-check "go test -tags c03demo -vet=off -count=1 -timeout 5m -run TestC03 ./demo/" C03 C04
$R /tmp/mut7/C04 C04-public-database-skips-identity-check "go test -tags c04demo -vet=off -count=1 -timeout 5m -run TestC04TamperedIdentityInPublicDatabase ./demo/" C04 C03
$R /tmp/mut7/C07 C07-index-get-returns-typed-nil "cp demo/demo_c07_delete_absent_test.go tests/ && go test -tags c07demo -vet=off -count=1 -timeout 5m -run TestDemoC07 ./tests/; rc=\$?; rm -f tests/demo_c07_delete_absent_test.go; exit \$rc" C07
$R /tmp/mut7/C08 C08-latest-entry-from-heads "cp demo/c08_latest_entry_demo_test.go tests/ && go test -vet=off -count=1 -run TestC08DemoLatestEntryOfMultiHeadLog ./tests/; rc=\$?; rm -f tests/c08_latest_entry_demo_test.go; exit \$rc" C08 C01
$R /tmp/mut7/C10 C10-direct-monitor-ends-on-sync-error "go test -vet=off -count=1 -tags c10demo -run TestC10_ValidHeadsAfterTamperedHeadOnDirectChannel ./demo/" C10 C12
$R /tmp/mut7/C12 C12-known-heads-filter-dereferences-null "go test -tags demo -vet=off -count=1 ./demo/" C12
$R /tmp/mut7/C14 C14-marker-written-to-option-directory "go test -vet=off -count=1 -timeout 5m ./demo/" C14
