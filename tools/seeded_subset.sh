#!/bin/bash
# seeded_subset.sh <property>...: for every recorded seed of these properties run the checks recorded as detecting it (quick) and print what came out
D=${VERIF_DIR:-/verif}
for prop in "$@"; do
  python3 - "$prop" <<'PY' > /tmp/subset.$$.txt
import json, sys
d=json.load(open('/verif/seeded/index.json'))
for n,v in sorted(d.items()):
    if v['property']==sys.argv[1] or n.startswith(sys.argv[1]+'-'):
        want=[p for p,h in v['detected_by'].items() if 'exit 1' in h and not h.startswith('exit 0') and 'thorough tier only' not in h]
        if want: print(n, ' '.join(want))
PY
  while read name checks; do
    echo "## $name expects exit 1 from: $checks"
    $D/tools/seeded_eval.sh /verif/seeded/$name/patch.diff $checks | grep -E "rc=" | tr '\n' ' '; echo
  done < /tmp/subset.$$.txt
done
rm -f /tmp/subset.$$.txt
