#!/bin/bash
R=${VERIF_DIR:-/verif}/tools/seeded_round.sh
$R /tmp/mut8/C02 C02-same-length-poll-reports-nothing "go test -tags c02demo -vet=off -count=1 -timeout 10m ./demo/" C02 C20
$R /tmp/mut8/C05 C05-replicated-event-before-heads-persisted "cp demo/c05_demo_replicated_before_persisted_test.go tests/ && go test -vet=off -count=1 -timeout 5m ./tests -run TestC05DemoReplicatedBeforePersisted; rc=\$?; rm -f tests/c05_demo_replicated_before_persisted_test.go; exit \$rc" C05 C16
$R /tmp/mut8/C10 C10-discarded-log-removed-while-iterating "cp demo/c10_demo_test.go tests/ && go test -tags c10demo -vet=off -count=1 -timeout 10m -run TestC10ForeignHeadInFrontOfValidHead ./tests/; rc=\$?; rm -f tests/c10_demo_test.go; exit \$rc" C10 C04
$R /tmp/mut8/C11 C11-slot-wait-bounded-orphans-items "go test -tags 'verif c11demo' -vet=off -count=1 -timeout 10m -run TestC11RequestsWaitingForASlotWhileFetchesTimeOut ./demo/" C11 C10
$R /tmp/mut8/C13 C13-kv-index-reads-entries-unsorted "go test -tags c13demo -vet=off -count=1 -timeout 5m ./demo/" C13 C06 C01
$R /tmp/mut8/C16 C16-legacy-queue-capped "go test -tags c16demo -vet=off -count=1 ./demo/" C16
$R /tmp/mut8/C17 C17-close-rewrites-last-completed-write "cp demo/*_test.go tests/ && go test -tags verif -vet=off -count=1 -run 'TestC17ConcurrentWritersSurviveRestart\$' ./tests/; rc=\$?; (cd demo && ls *_test.go) | while read f; do rm -f tests/\$f; done; exit \$rc" C17 C05
$R /tmp/mut8/C19 C19-load-status-from-fetched-count "cp demo/c19_multiwriter_load_test.go tests/ && go test -tags c19demo -vet=off -count=1 -run TestC19MultiWriterLoad ./tests/; rc=\$?; rm -f tests/c19_multiwriter_load_test.go; exit \$rc" C19
