#!/bin/sh
# seeded_eval.sh <patch.diff> <property...>: applies a seeded change to /repo, runs the quick checks named, restores /repo.
patch=$1; shift
REPO=${VERIF_REPO:-/repo}
cd $REPO || exit 2
git diff --quiet || { echo "$REPO has uncommitted changes"; exit 2; }
git apply "$patch" || { echo "patch does not apply"; exit 2; }
for p in "$@"; do
  cd ${VERIF_DIR:-/verif}
  s=$(date +%s)
  out=$(timeout 1800 ./check $p ${TIER:-quick} 2>&1); rc=$?
  e=$(date +%s)
  echo "$p rc=$rc $((e-s))s"; echo "$out" | grep -E "VIOLATION|kind=|INCONCLUSIVE|KNOWN" | head -4 | cut -c1-400
done
cd $REPO && git checkout -- . && git clean -fdq -- . >/dev/null 2>&1
git -C $REPO status --short | head -3
