#!/bin/sh
# seeded_eval.sh <patch.diff> <property...>: applies a seeded change to /repo, runs the quick checks named, restores /repo.
patch=$1; shift
cd /repo || exit 2
git diff --quiet || { echo "/repo has uncommitted changes"; exit 2; }
git apply "$patch" || { echo "patch does not apply"; exit 2; }
for p in "$@"; do
  cd /verif
  s=$(date +%s)
  out=$(timeout 1800 ./check $p ${TIER:-quick} 2>&1); rc=$?
  e=$(date +%s)
  echo "$p rc=$rc $((e-s))s"; echo "$out" | grep -E "VIOLATION|kind=|INCONCLUSIVE|KNOWN" | head -4 | cut -c1-400
done
cd /repo && git checkout -- . && git clean -fdq -- . >/dev/null 2>&1
git -C /repo status --short | head -3
