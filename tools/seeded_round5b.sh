#!/bin/bash
# round 5, properties C11-C19: confirm each sub-agent's demo with and without its change, keep it, run the quick checks named
R=${VERIF_DIR:-/verif}/tools/seeded_round.sh
$R /tmp/mut5/C11 C11-retry-workers-outside-wait-group "go test -tags c11demo -vet=off -count=1 -timeout 5m ./demo/" C11 C10
$R /tmp/mut5/C12 C12-monitor-silences-peer-after-noise "cp demo/c12_direct_noise_test.go tests/ && go test -tags c12demo -vet=off -count=1 -run TestC12DirectChannelNoiseThenValidHeads ./tests/; rc=\$?; rm -f tests/c12_direct_noise_test.go; exit \$rc" C12
$R /tmp/mut5/C13 C13-snapshot-fetch-bounded-by-size "go test -tags c13demo -vet=off -count=1 ./demo/ -run TestC13SnapshotOfLogLinkingToRefusedEntry" C13 C03
$R /tmp/mut5/C14 C14-manifest-records-cleaned-name "go test -vet=off -count=1 -tags c14demo ./demo/" C14
$R /tmp/mut5/C15 C15-join-that-adds-nothing-skips-cut "cp demo/c15_demo_test.go tests/ && go test -vet=off -count=1 -timeout 10m -run TestC15Demo ./tests/; rc=\$?; rm -f tests/c15_demo_test.go; exit \$rc" C15 C01
$R /tmp/mut5/C16 C16-index-only-when-heads-move "cp demo/c16_replicated_below_heads_test.go tests/ && go test -tags c16demo -vet=off -count=1 ./tests -run TestC16ReplicatedEventBelowHeads; rc=\$?; rm -f tests/c16_replicated_below_heads_test.go; exit \$rc" C16 C11 C15
$R /tmp/mut5/C17 C17-closed-cache-accepts-puts "go test -tags c17demo -vet=off -count=1 ./demo/" C17 C18 C05
$R /tmp/mut5/C18 C18-close-noop-when-context-done "cp demo/c18_close_after_cancel_test.go tests/ && go test -vet=off -count=1 -timeout 5m ./tests/ -run TestC18CloseAfterInstanceContextCancelled; rc=\$?; rm -f tests/c18_close_after_cancel_test.go; exit \$rc" C18
$R /tmp/mut5/C19 C19-load-counts-overlapping-heads-twice "go test -vet=off -count=1 -tags c19demo ./demo/" C19
