#!/usr/bin/env python3
"""Regenerates /verif/MANIFEST.json from the table below (kept in one place so
that the manifest is always valid and in step with checks/registry.py)."""
import json, subprocess, sys
sys.path.insert(0, '/verif/checks')
import registry

TECH = 'TLA+ specification model-checked with TLC; TLC behaviours replayed into the real code; implementation traces validated by TLC'
TRUST = ('Trusted: TLC; the simulated transport, block exchange and cache of harness/sim; go-ipfs-log as a dependency '
         '(Append/Join treated as atomic steps); the verif hooks of /repo. ')

CLAIMS = {
    'C19': ('tla-status', 'spec/Status.tla (the status arithmetic driven by its real trigger flows) model-checked: Monotone, RestOK; flows realised on a real store with gated replicator tasks; every individual SetMax/SetProgress recorded by a hook under its lock and checked; values compared with the specification after every settled step; reload from disk.',
            'Bounds: <=4-6 local writes interleaved with a remote chain of 4-6 entries.', '6 C19'),
    'C01': ('tla-core', 'spec/Core.tla invariant Convergence model-checked exhaustively on a small configuration; TLC-simulated behaviours (arbitrary stale/duplicate head sets, restarts, final all-to-all sync) replayed on 3 real replicas of each store type with pairwise comparison of replicas holding equal entry sets; recorded implementation traces validated against spec/CoreTrace.tla.',
            'Bounds: 3 replicas, 2 keys x 2 values, <=3 entries exhaustive, <=8 entries simulated.', '6 C01'),
    'C05': ('tla-writepath', 'spec/WritePath.tla (writers, replication batches, Crash enabled in every state, Recover) model-checked: Durable, NoPhantom; every forced behaviour\'s recorded effect log is cut at every prefix, a fresh instance is started on exactly that durable state and loaded, and the recovered log is compared with the acknowledgements issued before the cut; clean close/reopen with identity and post-restart write.',
            'Bounds: <=3-4 writers, remote chain of 3, all prefixes of the effect log (10-25 effects per behaviour). Effects are durable once their call returns (assumption of the property).', '6 C05'),
    'C06': ('tla-core', 'spec/Core.tla invariants ViewMatches (index as the code computes it = LWW replay) and CausalOrder model-checked exhaustively; behaviours replayed on real key-value replicas with Get/All compared with the specification state after every step; implementation traces validated against CoreTrace.tla (ViewConforms).',
            'Bounds as C01; keys/values concretised from VERIF_SEED (unicode, spaces, binary and empty values).', '6 C06'),
    'C07': ('tla-core', 'as C06 for the document store with Put, PutAll, Delete (Delete of an absent key is an action guard); Query and exact Get compared after every step.',
            'Bounds as C01.', '6 C07'),
    'C08': ('tla-core', 'spec/Core.tla action properties AppendOnly and StableOrder plus invariant OwnOrder model-checked; real event-log listings compared with the specification order after every merge step and checked for removals/reorderings.',
            'Bounds as C01.', '6 C08'),
    'C10': ('tla-replicator', 'spec/Replicator.tla with refused entries (a non-writer\'s head; an ancestor smuggled in by a valid-looking head) model-checked: NoWedge at rest; TLC behaviours forced on a real store against real hostile entries built with a second keystore, followed by honest re-announcement.',
            'Bounds: 5 hashes, 3 requests mixing valid and refused heads at different positions, concurrency 1-2.', '6 C10'),
    'C11': ('tla-replicator', 'spec/Replicator.tla (requests, workers gated before the semaphore / before and after the fetch, Cancel at every step) model-checked for NoWedge/NoHang and bookkeeping invariants; TLC behaviours including the counterexample of the pinned variant forced on a real replicator; then run to rest and the final request issued again.',
            'Bounds: chain with refs plus a fork (4 hashes), 3 requests, <=2 cancels, concurrency 1-2.', '6 C11'),
    'C16': ('tla-emitter', 'spec/Emitter.tla (legacy channel API: two goroutines, overflow queue, channel of capacity 16) model-checked for Ordered/Lossless and liveness; TLC behaviours, including the counterexample of the unrepaired variant, forced on the real handleSubscriber goroutines with gates; store events observed at emission time through two unbuffered bus subscriptions (state must already reflect the announced entries) and by a slow subscriber (same sequence, once each).',
            'Bounds: 20 events, capacity 16; <=3 writers and a 3-entry remote chain for store events.', '6 C16'),
    'C17': ('tla-writepath', 'spec/WritePath.tla model-checked for 3 writers with crash at every state; interleavings of 2..8 concurrent AddOperation calls at append | persist | index | emit | return forced on a real store with gates (including TLC\'s counterexample of the unserialised variant), then close/reopen/load.',
            'Bounds: 2..8 writers, one write each, interleaved with <=2 replication batches.', '6 C17'),
}

REASON_PENDING = 'check under construction in this round; will be claimed once its specification and conformance harness are committed'


def main():
    props = [json.loads(l) for l in open('/verif/properties.jsonl')]
    hooks = subprocess.run(['git', '-C', '/repo', 'log', '--format=%h %s'], capture_output=True, text=True).stdout.splitlines()
    hook_commits = [l.split()[0] for l in hooks if l.split(' ', 1)[1].startswith('verif:')]
    checks, na = [], []
    engines = {}
    for p in props:
        i = p['id']
        if i in CLAIMS and i in registry.PROPS:
            eng, text, bounds, ref = CLAIMS[i]
            engines.setdefault(eng, []).append(i)
            checks.append({
                'property_id': i,
                'quick_cmd': './check %s quick' % i,
                'thorough_cmd': './check %s thorough' % i,
                'evidence_file': '/verif/evidence/%s.json' % i,
                'replay_cmd_template': './check %s --replay {path}' % i,
                'engine': eng,
                'level_claimed': {'category': 'model_checking', 'text': text, 'design_ref': 'DESIGN.md section ' + ref},
                'level_note': TRUST + bounds,
                'technique': TECH,
            })
        else:
            na.append({'property_id': i, 'reason': NA.get(i, REASON_PENDING)})
    paths = {'tla-core': '/verif/spec/Core.tla', 'tla-emitter': '/verif/spec/Emitter.tla', 'tla-writepath': '/verif/spec/WritePath.tla',
             'tla-replicator': '/verif/spec/Replicator.tla', 'tla-status': '/verif/spec/Status.tla', 'tla-system': '/verif/spec/System.tla',
             'tla-auth': '/verif/spec/Auth.tla', 'tla-registry': '/verif/spec/Registry.tla', 'tla-transport': '/verif/spec/Transport.tla',
             'tla-lifecycle': '/verif/spec/Lifecycle.tla', 'tla-wire': '/verif/spec/Wire.tla'}
    m = {
        'version': 1,
        'setup_cmd': './setup.sh',
        'hooks': {
            'guard': 'verif',
            'enable': 'go build -tags verif (harness module /verif/harness, replace berty.tech/go-orbit-db => /repo)',
            'baseline_off_cmd': 'cd /repo && GOFLAGS=-mod=mod go test -json -vet=off -count=1 -timeout 25m ./...',
            'source_commits': hook_commits,
            'add_only': True,
        },
        'engines': [{'name': e, 'path': paths.get(e, '/verif/spec'), 'serves_properties': ps,
                     'kind_free_text': 'TLA+ spec + TLC (exhaustive, simulation) + Go replay harness + TLC trace validation'} for e, ps in sorted(engines.items())],
        'checks': checks,
        'notes': 'Every check: ./check <id> [quick|thorough]; exit 0 held, exit 1 with a VIOLATION line, exit 2 inconclusive. '
                 'VERIF_SEED seeds TLC simulation, concretisation and random drivers. Known findings: KNOWN_FINDINGS.txt.',
        'not_applicable': na,
    }
    json.dump(m, open('/verif/MANIFEST.json', 'w'), indent=1)
    print('claimed:', [c['property_id'] for c in checks])


NA = {}

if __name__ == '__main__':
    main()
