#!/usr/bin/env python3
"""Regenerates /verif/MANIFEST.json from the table below (kept in one place so
that the manifest is always valid and in step with checks/registry.py)."""
import json, subprocess, sys
sys.path.insert(0, '/verif/checks')
import registry

TECH = 'TLA+ specification model-checked with TLC; TLC behaviours replayed into the real code; implementation traces validated by TLC'
TRUST = ('Trusted: TLC; the simulated transport, block exchange and cache of harness/sim; go-ipfs-log as a dependency '
         '(Append/Join treated as atomic steps); the verif hooks of /repo. ')

CLAIMS = {
    'C18': ('tla-lifecycle', 'spec/Lifecycle.tla (moments x close kinds x later operations) model-checked; moments reached on a real instance with on-disk LevelDB directories by gates; Close / Close twice / instance Close (once, twice) / Drop; goroutines started since the store (instance) was opened identified by id must be gone; later operations under a watchdog; directory reopened; sibling database checked.',
            'Goroutine attribution and hang detection are runtime observations; 19-28 moments quick, up to 200 thorough.', '6 C18'),
    'C19': ('tla-status', 'spec/Status.tla (the status arithmetic driven by its real trigger flows) model-checked: Monotone, RestOK; flows realised on a real store with gated replicator tasks; every individual SetMax/SetProgress recorded by a hook under its lock and checked; values compared with the specification after every settled step; reload from disk; SaveSnapshot and LoadFromSnapshot on a fresh instance.',
            'Bounds: <=4-6 local writes interleaved with a remote chain of 4-6 entries.', '6 C19'),
    'C20': ('tla-transport', 'spec/Transport.tla (membership diff, message delivery, framing) model-checked; snapshot sequences (lists with duplicates) and interleaved publishes fed to the real pubsubcoreapi adapter through a scripted PubSubAPI with gated polls; pairwise channel over the same API (name symmetry for random peer ids, attribution, own messages); frames 0, 1, limit-1, limit, limit+1 and malformed frames over real libp2p streams (mocknet); spec/TransportFlow.tla (wire, bounded channel, reader; mutant DropWhenFull refuted) replayed against a reader that stalls, scaled 1:64; the pubsubraw adapter run free over real gossipsub on a mock network, its reports recorded and validated by TLC against spec/TransportTrace.tla, with the local libp2p pubsub\'s own event tracer as ground truth for what was handed to subscribers.',
            'pubsubraw is driven free-running (3 hosts, joins, leaves, publishes), not under scheduler control; byte-exactness is checked on the concrete payloads.', '6 C20'),
    'C01': ('tla-core', 'spec/Core.tla invariant Convergence model-checked exhaustively on a small configuration; TLC-simulated behaviours (arbitrary stale/duplicate head sets, restarts, final all-to-all sync) replayed on 3 real replicas of each store type with pairwise comparison of replicas holding equal entry sets; a copy of every replica that loads only a suffix of its log and then receives the older entries must equal the replica; recorded implementation traces validated against spec/CoreTrace.tla.',
            'Bounds: 3 replicas, 2 keys x 2 values, <=3 entries exhaustive, <=8 entries simulated.', '6 C01'),
    'C02': ('tla-system', 'spec/System.tla (writes, cuts, heals, dropped/duplicated/reordered announcements and exchanges, restarts, final phase) model-checked: Converged at rest (safety) and eventual delivery under fairness (liveness); simulated behaviours executed on 2-4 real replicas with every message and notification under driver control, conformance of logs and in-flight message set at every step, then the final phase run to rest in seeded random order and every replica compared with the acknowledged writes; TLC counterexamples of five trap properties (spec/SimSystem.tla, spec/SimSystemH.tla with history variables) supply shortest behaviours in which one particular mechanism (local heads, relay, heads after restart, a repeated exchange after loss or after a receiver restart) has to deliver an entry.',
            'Bounds: 2 replicas exhaustive (2-3 writes, 2 faults), 2-4 replicas simulated (3 writes, 3 faults). Final phase as in the property: every ordered pair observes the other joining once more.', '6 C02'),
    'C03': ('tla-auth', 'spec/Auth.tla: admission predicate of the (repaired) access controllers model-checked against Authorised over every constructible entry x route x write list; the pinned predicate is refuted (vacuity guard); every (write list x route x forging class) case realised with real entries built with a second keystore and delivered to a real replica between honest traffic; the replica is stopped, started from its directory and loaded both right after the hostile delivery and at the end, and the hostile entry must still be absent.',
            'Classes: honest, nonwriter, copied-id, copied-identity-block, foreign-key-sig, foreign-type; routes: local, announce, exchange, manual sync, ancestor of a colluding head; lists: explicit, wildcard, empty, creator.', '6 C03'),
    'C04': ('tla-auth', 'spec/Auth.tla (Genuine: untampered, correctly addressed, this database); every single-field mutation of the wire form of a valid entry (15 fields) delivered as head with the original hash, as head re-hashed, and as ancestor of a colluding head; mutants classified with the library\'s own encoder and verifier; the replica is restarted and loaded after the hostile delivery and after the genuine one: mutant absent, valid entries still there.',
            '15 fields x 3 positions x 1-3 store types; the genuine entry must still be accepted afterwards.', '6 C04'),
    'C05': ('tla-writepath', 'spec/WritePath.tla (writers, replication batches, Crash enabled in every state, Recover) model-checked: Durable, NoPhantom; every forced behaviour\'s recorded effect log is cut at every prefix, a fresh instance is started on exactly that durable state and loaded, and the recovered log is compared with the acknowledgements issued before the cut; clean close/reopen with identity and post-restart write, run both on the simulated cache and with the cache (leveldb) and keystore in a real directory.',
            'Bounds: <=3-4 writers, remote chain of 3, all prefixes of the effect log (10-25 effects per behaviour). Effects are durable once their call returns (assumption of the property).', '6 C05'),
    'C06': ('tla-core', 'spec/Core.tla invariants ViewMatches (index as the code computes it = LWW replay) and CausalOrder model-checked exhaustively; behaviours replayed on real key-value replicas with Get/All compared with the specification state after every step; implementation traces validated against CoreTrace.tla (ViewConforms).',
            'Bounds as C01; keys/values concretised from VERIF_SEED (unicode, spaces, binary and empty values).', '6 C06'),
    'C07': ('tla-core', 'as C06 for the document store with Put, PutAll, Delete (Delete of an absent key is an action guard); Query and exact Get compared after every step.',
            'Bounds as C01.', '6 C07'),
    'C08': ('tla-core', 'spec/Core.tla action properties AppendOnly and StableOrder plus invariant OwnOrder model-checked; real event-log listings compared with the specification order after every merge step and checked for removals/reorderings.',
            'Bounds as C01.', '6 C08'),
    'C09': ('tla-isolation', 'spec/Isolation.tla (every action touches one database) model-checked; interleavings of writes, remote writes, replications and reloads over 2-4 databases of one real instance (default shared bus); observables of every other database compared before/after each step; every published message and store event checked for foreign heads/entries; every second behaviour opens all databases with one reused CreateDBOptions value.',
            'Bounds: 2-4 databases (kv, log, doc; explicit and wildcard lists), <=9 operations per behaviour.', '6 C09'),
    'C10': ('tla-replicator', 'spec/Replicator.tla with refused entries (a non-writer\'s head; an ancestor smuggled in by a valid-looking head) model-checked: NoWedge at rest; TLC behaviours forced on a real store against real hostile entries built with a second keystore, followed by honest re-announcement; a second request table (DAG C) starts with an announcement that lists a valid head before a wrong-hash head (constant Abort: Sync gives the whole announcement up); at the end the replica is stopped, started and loaded and must hold what it held.',
            'Bounds: 5 hashes, 3 requests mixing valid and refused heads at different positions, concurrency 1-2.', '6 C10'),
    'C11': ('tla-replicator', 'spec/Replicator.tla (requests, workers gated before the semaphore / before and after the fetch, Cancel at every step) model-checked for NoWedge/NoHang and bookkeeping invariants; TLC behaviours including the counterexample of the pinned variant forced on a real replicator; then run to rest and the final request issued again; further request tables: heads held in the cache of a restarted replica around its own Load (StoreLoad), an announcement that fails part-way (Abort), block reads that fail while a request is served (Flaky; the variant that records them as fetched is refuted); Load requests given up after k block reads (spec/LoadPath.tla); thorough: an outage of 25 s.',
            'Bounds: chain with refs plus a fork (4 hashes), 3 requests, <=2 cancels, concurrency 1-2.', '6 C11'),
    'C12': ('tla-wire', 'spec/Wire.tla (outcome of every message class: peer alive, nothing changes, next valid message handled) model-checked; sequences (malformed* valid)* over 28 classes x {topic, direct channel} realised with seeded concrete byte strings on a real instance with two databases; raw frames over real libp2p streams; a crash of the harness process is attributed to the marked case.',
            'TLA+ contributes the state machine and the oracle; breadth over byte strings is the concretiser\'s (structural JSON mutations, truncations, byte-level mutations, varint boundaries).', '6 C12'),
    'C13': ('tla-core', 'spec/CoreSnap.tla (save/load outcome on every log of <=3 entries incl. oversize payload class) model-checked; for every replica of every replayed Core behaviour, and once with a replication in progress, a snapshot is saved and loaded into a fresh store object on a copy of the durable state; outcome must be error or identical log/heads/view.',
            'Payloads 0..34 KB representable, 37 KB..300 KB beyond the 16-bit record length. Simulated UnixFS (single block) - chunk boundaries of real UnixFS are not exercised.', '6 C13'),
    'C14': ('tla-registry', 'spec/Registry.tla (content addressing as the identity function on inputs; local marker state machine) model-checked; sequences of Create/Open/Close/Drop on real instances with names from 8 classes; equality structure of addresses, type and write list of every opened store, parse/print round trip; names escaping into or looking like addresses.',
            'Bounds: 2 instances, 2 names, 2 types, 3 write lists, <=7 operations; 26+ concrete names x 3 types x 2 lists.', '6 C14'),
    'C15': ('tla-core', 'spec/CoreLimit.tla: Load(n) as coded (per cached head: fetch <= n, join, trim) checked against LimitOK on every log of <=4-5 entries and every n in -2..len+2; on real replicas every n from -2 to length+2, per call and through MaxHistory, on a copy of the durable state.',
            'Bounds as C01; property-level oracle: count, order, newest, single-writer exactness.', '6 C15'),
    'C16': ('tla-emitter', 'spec/Emitter.tla (legacy channel API: two goroutines, overflow queue, channel of capacity 16) model-checked for Ordered/Lossless and liveness; TLC behaviours, including the counterexample of the unrepaired variant, forced on the real handleSubscriber goroutines with gates; store events observed at emission time through two unbuffered bus subscriptions (state must already reflect the announced entries) and by a slow subscriber (same sequence, once each).',
            'Bounds: 20 events, capacity 16; <=3 writers and a 3-entry remote chain for store events.', '6 C16'),
    'C17': ('tla-writepath', 'spec/WritePath.tla model-checked for 3 writers with crash at every state; interleavings of 2..8 concurrent AddOperation calls at append | persist | index | emit | return forced on a real store with gates (including TLC\'s counterexample of the unserialised variant), then close/reopen/load.',
            'Bounds: 2..8 writers, one write each, interleaved with <=2 replication batches.', '6 C17'),
}

REASON_PENDING = 'check under construction in this round; will be claimed once its specification and conformance harness are committed'


def main():
    props = [json.loads(l) for l in open('/verif/properties.jsonl')]
    hooks = subprocess.run(['git', '-C', '/repo', 'log', '--format=%h %s'], capture_output=True, text=True).stdout.splitlines()
    hook_commits = [l.split()[0] for l in hooks if l.split(' ', 1)[1].startswith('verif:')]
    checks, na = [], []
    engines = {}
    for p in props:
        i = p['id']
        if i in CLAIMS and i in registry.PROPS:
            eng, text, bounds, ref = CLAIMS[i]
            engines.setdefault(eng, []).append(i)
            checks.append({
                'property_id': i,
                'quick_cmd': './check %s quick' % i,
                'thorough_cmd': './check %s thorough' % i,
                'evidence_file': '/verif/evidence/%s.json' % i,
                'replay_cmd_template': './check %s --replay {path}' % i,
                'engine': eng,
                'level_claimed': {'category': 'model_checking', 'text': text, 'design_ref': 'DESIGN.md section ' + ref},
                'level_note': TRUST + bounds,
                'technique': TECH,
            })
        else:
            na.append({'property_id': i, 'reason': NA.get(i, REASON_PENDING)})
    paths = {'tla-core': '/verif/spec/Core.tla', 'tla-emitter': '/verif/spec/Emitter.tla', 'tla-writepath': '/verif/spec/WritePath.tla',
             'tla-replicator': '/verif/spec/Replicator.tla', 'tla-status': '/verif/spec/Status.tla', 'tla-system': '/verif/spec/System.tla',
             'tla-auth': '/verif/spec/Auth.tla', 'tla-registry': '/verif/spec/Registry.tla', 'tla-transport': '/verif/spec/Transport.tla',
             'tla-lifecycle': '/verif/spec/Lifecycle.tla', 'tla-wire': '/verif/spec/Wire.tla'}
    m = {
        'version': 1,
        'setup_cmd': './setup.sh',
        'hooks': {
            'guard': 'verif',
            'enable': 'go build -tags verif (harness module /verif/harness, replace berty.tech/go-orbit-db => /repo)',
            'baseline_off_cmd': 'cd /repo && GOFLAGS=-mod=mod go test -json -vet=off -count=1 -timeout 25m ./...',
            'source_commits': hook_commits,
            'add_only': True,
        },
        'engines': [{'name': e, 'path': paths.get(e, '/verif/spec'), 'serves_properties': ps,
                     'kind_free_text': 'TLA+ spec + TLC (exhaustive, simulation) + Go replay harness + TLC trace validation'} for e, ps in sorted(engines.items())],
        'checks': checks,
        'notes': 'Every check: ./check <id> [quick|thorough]; exit 0 held, exit 1 with a VIOLATION line, exit 2 inconclusive. '
                 'VERIF_SEED seeds TLC simulation, concretisation and random drivers. Known findings: KNOWN_FINDINGS.txt.',
        'not_applicable': na,
    }
    json.dump(m, open('/verif/MANIFEST.json', 'w'), indent=1)
    print('claimed:', [c['property_id'] for c in checks])


NA = {}

if __name__ == '__main__':
    main()
