#!/bin/bash
R=${VERIF_DIR:-/verif}/tools/seeded_round.sh
T() { # T <file in demo/> <go test args>: copy the demo into tests/, run, remove
  echo "cp demo/$1 tests/ && go test -vet=off -count=1 -timeout 10m $2 ./tests/; rc=\$?; rm -f tests/$1; exit \$rc"; }
$R /tmp/mut9/C01 C01-load-skips-index-when-nothing-new "$(T c01_demo_test.go '-run TestC01DemoLoadAfterLoadShowsWhatTheLogHolds')" C01 C15
$R /tmp/mut9/C03 C03-identity-key-binding-and-for-or "$(T c03_forged_writer_id_test.go '-run TestC03ForgedWriterIDIsRefused')" C03 C04
$R /tmp/mut9/C04 C04-one-by-one-join-without-log-id "$(T c04_reload_foreign_demo_test.go '-tags c04demo -run TestC04ForeignAncestorAfterReload')" C04 C09
$R /tmp/mut9/C06 C06-operation-decoder-reused "$(T c06_demo_test.go '-tags c06demo -run TestC06EmptyValueKeepsItsOwnValue')" C06 C13 C01
$R /tmp/mut9/C07 C07-write-skips-index-during-join "$(T c07_demo_test.go '-run TestC07DemoWriteDuringTailOfJoin')" C07 C13 C01
$R /tmp/mut9/C08 C08-large-batch-merged-into-copy "$(T c08_demo_verif_test.go '-tags verif -run TestC08DemoWriteDuringMerge')" C08 C13 C02
$R /tmp/mut9/C09 C09-inmemory-cache-keyed-by-root "$(T c09_demo_test.go '-run TestC09SameManifestTwoPaths')" C09 C14
$R /tmp/mut9/C12 C12-refused-identities-memo "$(T c12_demo_test.go '-run TestC12MutatedIdentitySignature')" C12 C03
$R /tmp/mut9/C15 C15-limit-bounded-by-head-clock "$(T c15_limit_demo_test.go '-run TestC15LimitAboveHeadClockOnConcurrentHeads')" C15 C01
$R /tmp/mut9/C18 C18-drop-of-closed-store-is-noop "$(T c18_drop_after_close_demo_test.go '-run TestC18DemoDropAfterClose')" C18
$R /tmp/mut9/C20 C20-channel-id-append-aliasing "$(T c20_pairwise_names_demo_test.go '-tags c20demo -run TestC20PairwiseChannelNamesWithThreePeers')" C20
