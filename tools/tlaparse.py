#!/usr/bin/env python3
"""Parser for the TLA+ values TLC prints (simulation files, error traces).

Values become JSON-able Python: records/functions -> dict (function keys are
rendered with tla_key()), sequences -> list, sets -> {"#set": [...]} unless
set_as_list, strings/model values -> str, integers -> int, booleans -> bool.
"""
import json, re, sys

class P:
    def __init__(self, s, set_as_list=True):
        self.s = s; self.i = 0; self.set_as_list = set_as_list
    def ws(self):
        while self.i < len(self.s) and self.s[self.i] in ' \t\r\n':
            self.i += 1
    def peek(self, n=1):
        self.ws(); return self.s[self.i:self.i+n]
    def eat(self, tok):
        self.ws()
        assert self.s.startswith(tok, self.i), (tok, self.s[self.i:self.i+40])
        self.i += len(tok)
    def value(self):
        self.ws()
        s = self.s; c = s[self.i]
        if s.startswith('<<', self.i):
            self.i += 2; out = []
            while self.peek(2) != '>>':
                out.append(self.value())
                if self.peek() == ',': self.eat(',')
            self.eat('>>'); v = out
        elif c == '{':
            self.i += 1; out = []
            while self.peek() != '}':
                out.append(self.value())
                if self.peek() == ',': self.eat(',')
            self.eat('}')
            v = out if self.set_as_list else {"#set": out}
        elif c == '[':
            self.i += 1; out = {}
            while self.peek() != ']':
                self.ws()
                m = re.match(r'[A-Za-z_][A-Za-z0-9_]*', s[self.i:])
                k = m.group(0); self.i += len(k)
                self.eat('|->'); out[k] = self.value()
                if self.peek() == ',': self.eat(',')
            self.eat(']'); v = out
        elif c == '(':
            self.i += 1; out = {}
            while True:
                k = self.value(); self.eat(':>'); out[tla_key(k)] = self.value()
                if self.peek(2) == '@@': self.eat('@@'); continue
                break
            self.eat(')'); v = out
        elif c == '"':
            j = self.i + 1; buf = []
            while s[j] != '"':
                if s[j] == '\\': j += 1
                buf.append(s[j]); j += 1
            self.i = j + 1; v = ''.join(buf)
        else:
            m = re.match(r'-?[0-9]+', s[self.i:])
            if m:
                self.i += len(m.group(0)); v = int(m.group(0))
                if self.peek(2) == '..':
                    self.eat('..'); hi = self.value(); v = list(range(v, hi + 1))
            else:
                m = re.match(r'[A-Za-z_][A-Za-z0-9_]*', s[self.i:])
                assert m, s[self.i:self.i+40]
                self.i += len(m.group(0)); t = m.group(0)
                v = True if t == 'TRUE' else False if t == 'FALSE' else t
        return v

def tla_key(k):
    return k if isinstance(k, str) else json.dumps(k, separators=(',', ':'))

def parse_value(s, **kw):
    p = P(s, **kw); v = p.value(); p.ws()
    assert p.i == len(p.s), s[p.i:p.i+40]
    return v

def parse_action(hdr):
    """'<Write("c",[...]) line 1, col ...>' -> (name, [args])"""
    m = re.match(r'\\\*\s*<(\w+)(.*?)\s+line \d+, col \d+ to line \d+, col \d+ of module (\w+)>', hdr, re.S)
    if not m:
        return None
    name, rest = m.group(1), m.group(2).strip()
    args = []
    if rest.startswith('('):
        p = P(rest); p.eat('(')
        while p.peek() != ')':
            args.append(p.value())
            if p.peek() == ',': p.eat(',')
    return name, args

def parse_state(body):
    """'/\\ x = ...\n/\\ y = ...' -> dict"""
    out = {}
    parts = re.split(r'^/\\ ', body, flags=re.M)
    for part in parts:
        part = part.strip()
        if not part: continue
        m = re.match(r'(\w+) = ', part)
        out[m.group(1)] = parse_value(part[m.end():])
    return out

def parse_behaviour(text):
    """simulation file or error-trace text -> list of {action,args,state}"""
    steps = []
    # simulation file format
    chunks = re.split(r'^(\\\* <.*?>)\s*\nSTATE_\d+ ==\s*\n', text, flags=re.M | re.S)
    if len(chunks) > 1:
        for k in range(1, len(chunks), 2):
            hdr, body = chunks[k], chunks[k+1]
            body = body.split('\n\n')[0] if False else re.split(r'\n\s*\n', body)[0]
            a = parse_action(hdr)
            steps.append({"action": a[0], "args": a[1], "state": parse_state(body)})
        return steps
    # error trace format: 'State N: <Action line..>' blocks
    for m in re.finditer(r'^State \d+: <(.*?)>\s*\n(.*?)(?=^State \d+:|\Z)', text, flags=re.M | re.S):
        hdr = '\\* <' + m.group(1) + '>'
        if m.group(1).startswith('Initial predicate'):
            a = ('Init', [])
        else:
            a = parse_action(hdr) or (m.group(1).split()[0], [])
        body = re.split(r'\n\s*\n', m.group(2))[0]
        steps.append({"action": a[0], "args": a[1], "state": parse_state(body)})
    return steps

if __name__ == '__main__':
    out = []
    for f in sys.argv[1:]:
        out.append({"file": f, "steps": parse_behaviour(open(f).read())})
    json.dump(out, sys.stdout)
