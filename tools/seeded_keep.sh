#!/bin/sh
# seeded_keep.sh <id> <name> : copies patch + demo from /tmp/mut/<id> to /verif/seeded/<name>/
id=$1; name=$2
d=/verif/seeded/$name
mkdir -p $d/demo
cp /tmp/mut/$id/patch.diff $d/patch.diff
cp -r /tmp/mut/$id/demo/. $d/demo/ 2>/dev/null
ls $d $d/demo
