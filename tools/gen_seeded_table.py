#!/usr/bin/env python3
"""Rewrites the table of DESIGN.md section 14 from seeded/index.json."""
import json, os, re
ROOT = os.path.dirname(os.path.dirname(os.path.abspath(__file__)))
idx = json.load(open(os.path.join(ROOT, 'seeded', 'index.json')))
rows = ['| Seeded change | Property | What it does | Caught by (quick tier) | Missed at first / what was added |', '|---|---|---|---|---|']
for name in sorted(idx, key=lambda n: (idx[n]['property'], n)):
    m = idx[name]
    caught, missed = [], m.get('first_missed', '')
    for p, how in sorted(m['detected_by'].items()):
        if 'exit 1' not in how:
            continue
        if how.startswith('MISSED at first'):
            head, _, kind = how.rpartition(': ')
            if not head:
                head, kind = how, 'exit 1'
            caught.append('%s: %s' % (p, kind))
            missed = (missed + ' ' if missed else '') + '%s %s' % (p, head.replace('MISSED at first', 'missed at first'))
        else:
            caught.append('%s: %s' % (p, how.replace('exit 1: ', '')))
    caught = '; '.join(caught)
    notc = '; '.join('%s %s' % (p, how) for p, how in sorted(m['detected_by'].items()) if 'exit 1' not in how)
    if notc:
        missed = (missed + ' ' if missed else '') + '[' + notc + ']'
    rows.append('| `%s` | %s | %s | %s | %s |' % (name, m['property'], m['summary'].replace('|', '/'), caught.replace('|', '/') or '-', missed.replace('|', '/') or '-'))
p = os.path.join(ROOT, 'DESIGN.md')
s = open(p).read()
s = re.sub(r'<!-- seeded-table-begin -->.*?<!-- seeded-table-end -->', '<!-- seeded-table-begin -->\n' + '\n'.join(rows) + '\n<!-- seeded-table-end -->', s, flags=re.S)
open(p, 'w').write(s)
print('%d rows' % (len(rows) - 2))
