#!/bin/bash
# seeded_round.sh <dir> <name> "<demo command>" <check>... : confirm demo (with/without), keep, evaluate
dir=$1; name=$2; demo=$3; shift 3
export GOFLAGS=-mod=mod GOPROXY=off GOSUMDB=off GOTOOLCHAIN=local
cd $dir || exit 2
echo "== $name: demo with patch:"; bash -c "$demo" 2>&1 | grep -E "^(ok|FAIL|panic|---)" | tail -2
git apply -R patch.diff && { echo "== demo without patch:"; bash -c "$demo" 2>&1 | grep -E "^(ok|FAIL|panic|---)" | tail -2; git apply patch.diff; }
d=/verif/seeded/$name; mkdir -p $d/demo; cp patch.diff $d/; cp -r demo/. $d/demo/ 2>/dev/null
${VERIF_DIR:-/verif}/tools/seeded_eval.sh $d/patch.diff "$@"
