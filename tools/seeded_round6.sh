#!/bin/bash
# round 6: confirm each sub-agent's demo with and without its change, keep it, run the quick checks named
R=${VERIF_DIR:-/verif}/tools/seeded_round.sh
only=$1
run() { if [ -z "$only" ] || [ "$only" = "$1" ]; then shift; $R "$@"; fi; }
run C02 /tmp/mut6/C02 C02-direct-monitor-ends-on-unknown-address "go test -vet=off -count=1 -tags c02demo -run TestC02HeadsForAClosedStore ./demo/" C02 C12
run C05 /tmp/mut6/C05 C05-request-end-flushes-buffer "go test -vet=off -count=1 -tags c05demo -run TestC05ReplicatedEntriesSurviveRestart ./demo/" C05 C11 C16
run C06 /tmp/mut6/C06 C06-index-skipped-when-heads-unchanged "go test -vet=off -count=1 -tags demo ./demo/" C06 C15 C01
run C09 /tmp/mut6/C09 C09-shared-event-variable-in-listener "go test -tags c09demo -vet=off -count=1 -run TestC09 ./demo/" C09 C02
run C11 /tmp/mut6/C11 C11-idle-by-counter-not-decremented-on-failure "go test -vet=off -count=1 -tags c11demo -run TestC11 ./demo/" C11 C10
run C13 /tmp/mut6/C13 C13-closed-cache-swallows-snapshot-put "cp demo/c13_closed_cache_demo_test.go tests/ && go test -tags c13demo -vet=off -count=1 -run TestC13Demo ./tests/; rc=\$?; rm -f tests/c13_closed_cache_demo_test.go; exit \$rc" C13 C18
run C16 /tmp/mut6/C16 C16-write-event-before-index "cp demo/c16_demo_test.go tests/ && go test -vet=off -count=1 -run TestC16WriteEventNeverAheadOfState ./tests/; rc=\$?; rm -f tests/c16_demo_test.go; exit \$rc" C16 C17
run C17 /tmp/mut6/C17 C17-add-retries-after-partial-failure "go test -tags c17demo -vet=off -count=1 ./demo/" C17 C05
run C19 /tmp/mut6/C19 C19-snapshot-max-counts-held-entries-twice "go test -vet=off -count=1 -tags c19demo ./demo/" C19 C13
run C20 /tmp/mut6/C20 C20-direct-send-skips-repeated-payload "go test -vet=off -count=1 -tags demo ./demo/" C20 C02
