"""Shared machinery of the /verif checks: building the harness against /repo's
working tree, running TLC (model checking, simulation, trace validation),
known findings, replay files, evidence."""
import glob, hashlib, json, os, re, shutil, subprocess, sys, time

ROOT = os.path.dirname(os.path.dirname(os.path.abspath(__file__)))
REPO = os.environ.get('VERIF_REPO', '/repo')   # background sweeps may point this at a snapshot of /repo
WORK = os.path.join(ROOT, '.work')
SPEC = os.path.join(ROOT, 'spec')
sys.path.insert(0, os.path.join(ROOT, 'tools'))
import tlaparse  # noqa: E402

GOENV = dict(os.environ, GOFLAGS='-mod=mod', GOPROXY='off', GOSUMDB='off', GOTOOLCHAIN='local',
             GOCACHE=os.environ.get('GOCACHE', os.path.expanduser('~/.cache/go-build')))

SEED = int(os.environ.get('VERIF_SEED', '1') or 1)
NCPU = os.cpu_count() or 4


class Inconclusive(Exception):
    pass


def log(*a):
    print(*a, flush=True)


def tier_from(argv_tier=None):
    t = argv_tier or os.environ.get('VERIF_TIER') or 'quick'
    return 'thorough' if t.startswith('t') else 'quick'


# --------------------------------------------------------------------------
# harness build

def gen_gomod():
    s = open(os.path.join(REPO, 'go.mod')).read()
    reqs = re.findall(r'require \((.*?)\n\)', s, re.S)
    out = 'module verif/harness\n\ngo 1.22\n\nrequire berty.tech/go-orbit-db v0.0.0\n\nreplace berty.tech/go-orbit-db => ' + REPO + '\n\n'
    for r in reqs:
        out += 'require (' + r + '\n)\n\n'
    for m in re.findall(r'^replace .*$', s, re.M):
        out += m + '\n'
    hd = os.path.join(ROOT, 'harness')
    cur = None
    try:
        cur = open(os.path.join(hd, 'go.mod')).read()
    except OSError:
        pass
    if cur is None or not cur.startswith(out[:200]) or True:
        # always regenerate: the build must follow /repo's current module graph
        open(os.path.join(hd, 'go.mod'), 'w').write(out)
    shutil.copyfile(os.path.join(REPO, 'go.sum'), os.path.join(hd, 'go.sum'))


def build_harness():
    """(Re)build the harness binary against /repo's current working tree with
    the verif tag. Go's build cache makes this a no-op when nothing changed."""
    os.makedirs(os.path.join(WORK, 'bin'), exist_ok=True)
    gen_gomod()
    out = os.path.join(WORK, 'bin', 'vh')
    t0 = time.time()
    p = subprocess.run(['go', 'build', '-tags', 'verif', '-o', out, './cmd/vh'], cwd=os.path.join(ROOT, 'harness'),
                       env=GOENV, capture_output=True, text=True)
    if p.returncode != 0:
        raise Inconclusive('harness build failed against /repo working tree:\n' + p.stdout[-3000:] + p.stderr[-3000:])
    return out, time.time() - t0


def run_vh(cmd, inp, timeout=600, tag='job'):
    """Run a harness command on a JSON job; returns the parsed result."""
    vh = os.path.join(WORK, 'bin', 'vh')
    d = os.path.join(WORK, 'jobs')
    os.makedirs(d, exist_ok=True)
    ip = os.path.join(d, '%s-%d-in.json' % (tag, os.getpid()))
    op = os.path.join(d, '%s-%d-out.json' % (tag, os.getpid()))
    json.dump(inp, open(ip, 'w'))
    if os.path.exists(op):
        os.remove(op)
    mk = os.path.join(d, '%s-%d-marker.txt' % (tag, os.getpid()))
    if os.path.exists(mk):
        os.remove(mk)
    try:
        p = subprocess.run([vh, cmd, ip, op], capture_output=True, text=True, timeout=timeout, env=dict(GOENV, VH_MARKER=mk))
    except subprocess.TimeoutExpired:
        raise Inconclusive('harness command %s timed out after %ds' % (cmd, timeout))
    if not os.path.exists(op) and os.path.exists(mk) and re.search(r'^(panic:|fatal error:)', p.stderr, re.M):
        # the code under test crashed the process: that is an observation, attributed to the marked case
        case = open(mk).read()
        m = re.search(r'^(panic:.*|fatal error:.*)$', p.stderr, re.M)
        frames = [l.strip() for l in p.stderr.splitlines() if 'go-orbit-db' in l or 'go-ipfs-log' in l][:6]
        os.remove(ip)
        return {'command': cmd, 'behaviours': 0, 'steps': 0, 'comparisons': 0, 'inconclusive': [], 'notes': [], 'samples': [],
                'stats': {}, 'crashed': True,
                'violations': [{'property': inp.get('property'), 'kind': 'panic', 'behaviour': 'crash', 'step': -1,
                                'detail': 'process crashed (%s) while: %s; frames: %s' % (m.group(1)[:200], case, ' | '.join(frames)),
                                'case': case}]}
    if not os.path.exists(op):
        raise Inconclusive('harness command %s produced no result (exit %d):\n%s\n%s' % (cmd, p.returncode, p.stdout[-2000:], p.stderr[-4000:]))
    res = json.load(open(op))
    res['_stderr'] = p.stderr[-2000:]
    res['_exit'] = p.returncode
    os.remove(ip)
    os.remove(op)
    return res


# --------------------------------------------------------------------------
# TLC

_scratch_n = 0


def scratch(tag):
    global _scratch_n
    _scratch_n += 1
    d = os.path.join(WORK, 'tlc', '%s-%d-%d' % (tag, os.getpid(), _scratch_n))
    shutil.rmtree(d, ignore_errors=True)
    os.makedirs(d)
    for f in glob.glob(os.path.join(SPEC, '*.tla')) + glob.glob(os.path.join(SPEC, '*.cfg')):
        shutil.copy(f, d)
    return d


def _tlc(d, args, timeout, java_opts=None):
    env = dict(os.environ)
    if java_opts:
        env['JAVA_TOOL_OPTIONS'] = java_opts
    cmd = ['timeout', str(timeout), 'tlc'] + args
    p = subprocess.run(cmd, cwd=d, capture_output=True, text=True, env=env)
    return p.returncode, p.stdout + p.stderr


def parse_tlc(out):
    r = {'generated': 0, 'distinct': 0, 'depth': 0, 'violated': None, 'error': None, 'complete': False}
    m = re.search(r'(\d[\d,]*) states generated, (\d[\d,]*) distinct states found', out)
    if m:
        r['generated'] = int(m.group(1).replace(',', ''))
        r['distinct'] = int(m.group(2).replace(',', ''))
    m = re.search(r'depth of the complete state graph search is (\d+)', out)
    if m:
        r['depth'] = int(m.group(1))
    r['complete'] = 'Model checking completed. No error has been found.' in out
    m = re.search(r'Invariant (\w+) is violated', out)
    if m:
        r['violated'] = m.group(1)
    m = re.search(r'Action property (\w+) is violated|Temporal properties were violated', out)
    if m and not r['violated']:
        r['violated'] = m.group(1) or 'temporal'
    if 'Error:' in out and not r['violated'] and not r['complete']:
        m = re.search(r'Error: (.*)', out)
        r['error'] = m.group(1) if m else 'error'
    return r


def _cfg(d, cfg):
    """cfg is either the name of a file in spec/ or (name, text) generated by the check."""
    if isinstance(cfg, tuple):
        open(os.path.join(d, cfg[0]), 'w').write(cfg[1])
        return cfg[0]
    return cfg


def tlc_check(module, cfg, tag, workers=None, timeout=600, keep=False, extra=None):
    """Exhaustive model checking. Returns parsed result + raw output."""
    d = scratch(tag)
    cfg = _cfg(d, cfg)
    t0 = time.time()
    args = ['-workers', str(workers or NCPU), '-metadir', os.path.join(d, 'meta'), '-config', cfg] + (extra or []) + [module]
    rc, out = _tlc(d, args, timeout)
    r = parse_tlc(out)
    r.update(rc=rc, out=out, wall=time.time() - t0, dir=d, cfg=cfg, module=module)
    if rc == 124:
        r['error'] = 'timeout'
    if r['violated']:
        r['trace'] = tlaparse.parse_behaviour(out)
    if not keep:
        shutil.rmtree(d, ignore_errors=True)
    return r


def tlc_simulate(module, cfg, tag, num, depth, seed, timeout=300, rename=None):
    """Random behaviours of the specification as parsed step lists."""
    d = scratch(tag)
    cfg = _cfg(d, cfg)
    args = ['-workers', '1', '-simulate', 'file=%s,num=%d' % (os.path.join(d, 'sim'), num), '-depth', str(depth),
            '-seed', str(seed), '-metadir', os.path.join(d, 'meta'), '-config', cfg, module]
    rc, out = _tlc(d, args, timeout)
    files = sorted(glob.glob(os.path.join(d, 'sim_*')), key=lambda f: [int(x) for x in re.findall(r'\d+', os.path.basename(f))])
    bs = []
    for f in files:
        steps = tlaparse.parse_behaviour(open(f).read())
        for s in steps:
            if rename:
                s['action'] = rename.get(s['action'], s['action'])
        bs.append({'id': '%s-seed%d-%s' % (tag, seed, os.path.basename(f)), 'steps': steps})
    r = parse_tlc(out)
    if not bs:
        shutil.rmtree(d, ignore_errors=True)
        raise Inconclusive('TLC simulation produced no behaviours (%s %s):\n%s' % (module, cfg, out[-2000:]))
    shutil.rmtree(d, ignore_errors=True)
    return bs, r


def tlc_table(module, tag, out_name, timeout=300):
    """Runs TLC on a module whose ASSUMEs prove properties of a pure operator over a
    finite domain and serialise its complete table as JSON; returns (table, result)."""
    d = scratch(tag)
    open(os.path.join(d, 'table.cfg'), 'w').write('SPECIFICATION Spec\n')
    t0 = time.time()
    rc, out = _tlc(d, ['-metadir', os.path.join(d, 'meta'), '-config', 'table.cfg', module], timeout)
    r = parse_tlc(out)
    r.update(rc=rc, out=out, wall=time.time() - t0, module=module, cfg='(assumptions)')
    table = None
    p = os.path.join(d, out_name)
    if os.path.exists(p) and r['complete']:
        table = json.load(open(p))
    shutil.rmtree(d, ignore_errors=True)
    return table, r


def tlc_trace(module, cfg, tag, trace_file, timeout=300, dfs=False):
    """Trace validation: is the recorded implementation trace a behaviour of the
    specification, with every conformance invariant true in every state?"""
    d = scratch(tag)
    cfg = _cfg(d, cfg)
    shutil.copy(trace_file, os.path.join(d, 'trace.ndjson'))
    args = ['-workers', '1', '-metadir', os.path.join(d, 'meta'), '-config', cfg, module]
    jo = '-Dtlc2.tool.queue.IStateQueue=StateDeque' if dfs else None
    t0 = time.time()
    rc, out = _tlc(d, args, timeout, java_opts=jo)
    r = parse_tlc(out)
    r.update(rc=rc, out=out, wall=time.time() - t0)
    r['accepted'] = r['complete'] and 'Postcondition' not in out and not r['violated'] and 'violated' not in out
    if r['violated']:
        r['trace'] = tlaparse.parse_behaviour(out)
    m = re.search(r'The depth of the complete state graph search is (\d+)', out)
    shutil.rmtree(d, ignore_errors=True)
    return r


# --------------------------------------------------------------------------
# known findings, replays, evidence

def known_findings():
    """{(property, key): description} for 'finding:' lines; 'fixed:' lines suppress nothing."""
    out = {}
    p = os.path.join(ROOT, 'KNOWN_FINDINGS.txt')
    if not os.path.exists(p):
        return out
    for line in open(p):
        line = line.strip()
        m = re.match(r'finding:\s+property=(\S+)\s+key=(\S+)\s+(.*)', line)
        if m:
            out[(m.group(1), m.group(2))] = m.group(3)
    return out


def write_replay(prop, payload):
    os.makedirs(os.path.join(ROOT, 'replays'), exist_ok=True)
    b = json.dumps(payload, sort_keys=True, default=str).encode()
    h = hashlib.sha256(b).hexdigest()[:12]
    p = os.path.join(ROOT, 'replays', '%s-%s.json' % (prop, h))
    open(p, 'wb').write(b)
    return p


class Check:
    """Accumulates the results of one property check and produces the verdict."""

    def __init__(self, prop, tier):
        self.prop, self.tier = prop, tier
        self.t0 = time.time()
        self.states = 0
        self.transitions = 0
        self.traces_validated = 0
        self.evaluations = 0
        self.distinct = set()
        self.samples = []
        self.violations = []      # (key or None, description, replay payload)
        self.inconclusive = []
        self.notes = []
        self.assumptions = []
        self.tlc_runs = []
        self.extra = {}
        self.rule = ''

    def add_tlc(self, r, what):
        self.states += r.get('distinct', 0)
        self.transitions += r.get('generated', 0)
        self.tlc_runs.append({'what': what, 'module': r.get('module'), 'cfg': r.get('cfg'), 'distinct': r.get('distinct'),
                              'generated': r.get('generated'), 'depth': r.get('depth'), 'wall_s': round(r.get('wall', 0), 1),
                              'complete': r.get('complete'), 'violated': r.get('violated')})

    def require_model_ok(self, r, what):
        """The model must satisfy the property on the small configuration; a
        model-level failure is a defect of the machinery (exit 2), not of the code."""
        self.add_tlc(r, what)
        if r.get('violated'):
            self.inconclusive.append('%s: TLC reports %s violated on the model (%s)' % (what, r['violated'], r.get('cfg')))
        elif not r.get('complete'):
            self.inconclusive.append('%s: TLC did not complete (%s): %s' % (what, r.get('cfg'), r.get('error') or r['out'][-400:]))

    def add_harness(self, res, payload_for=None, what=''):
        self.evaluations += res.get('steps', 0) + res.get('comparisons', 0)
        for s in res.get('samples', [])[:3]:
            if len(self.samples) < 6:
                self.samples.append(s)
        for n in res.get('notes', [])[:20]:
            self.notes.append(n)
        for inc in res.get('inconclusive', []):
            self.inconclusive.append(what + ': ' + inc)
        for v in res.get('violations', []):
            payload = payload_for(v) if payload_for else {'violation': v}
            self.violations.append((v.get('key'), v, payload))

    def finish(self, level='model_checking'):
        kf = known_findings()
        rc = 0
        seen_known = set()
        unknown = []
        for key, v, payload in self.violations:
            if key and (self.prop, key) in kf:
                seen_known.add(key)
            else:
                unknown.append((key, v, payload))
        for key in sorted(seen_known):
            log('KNOWN-FINDING: property=%s key=%s %s' % (self.prop, key, kf[(self.prop, key)]))
        reported = set()
        for key, v, payload in unknown:
            sig = (v.get('kind'), key)
            if sig in reported:
                continue
            reported.add(sig)
            path = write_replay(self.prop, payload)
            log('VIOLATION property=%s replay=%s' % (self.prop, path))
            log('  kind=%s %s' % (v.get('kind'), v.get('detail', '')[:300]))
            rc = 1
        if rc == 0 and self.inconclusive:
            for i in self.inconclusive[:10]:
                log('INCONCLUSIVE: ' + str(i)[:600])
            rc = 2
        ev = {
            'property_id': self.prop,
            'tier': self.tier,
            'seed': SEED,
            'level': level,
            'coverage': {
                'states': max(self.states, 0),
                'transitions': max(self.transitions, 0),
                'traces_validated_against_impl': self.traces_validated,
                'samples': self.samples or [{'note': 'no sample recorded'}],
                'evaluations': self.evaluations,
                'distinct_nontrivial': len(self.distinct),
                'rule': self.rule,
                'tlc_runs': self.tlc_runs,
                'known_findings_reproduced': sorted(seen_known),
                'model_drift_notes': self.notes[:20],
            },
            'assumptions': self.assumptions,
            'wall_s': round(time.time() - self.t0, 1),
            'violations': len(unknown),
        }
        ev['coverage'].update(self.extra)
        os.makedirs(os.path.join(ROOT, 'evidence'), exist_ok=True)
        json.dump(ev, open(os.path.join(ROOT, 'evidence', self.prop + '.json'), 'w'), indent=1, default=str)
        log('%s tier=%s seed=%d states=%d transitions=%d traces=%d evaluations=%d distinct=%d wall=%.1fs -> exit %d' % (
            self.prop, self.tier, SEED, self.states, self.transitions, self.traces_validated, self.evaluations,
            len(self.distinct), time.time() - self.t0, rc))
        return rc


def beh_signature(b):
    return hashlib.sha256(json.dumps([[s['action'], s['args']] for s in b['steps']], sort_keys=True, default=str).encode()).hexdigest()[:16]
