"""C16 (and later C17, C11): schedule-quantified properties decided with small
TLA+ machines whose behaviours are forced on the real goroutines with gates."""
import time
import json, os
import vlib
from vlib import log, Check, SEED


def em_cfg(name, spec, n, c, buscap, bypass, inv='Ordered Lossless', props='', deadlock=False, stall=None):
    return (name, '''SPECIFICATION %s
CONSTANTS N = %d  C = %d  BusCap = %d  Bypass = %s%s
INVARIANTS %s
%s
CHECK_DEADLOCK FALSE
''' % (spec, n, c, buscap, 'TRUE' if bypass else 'FALSE', ('  Stall = %d' % stall) if stall is not None else '', inv, ('PROPERTIES ' + props) if props else ''))


def c16(prop, tier):
    ck = Check(prop, tier)
    ck.rule = ('interleavings of the legacy emitter goroutines (spec/Emitter.tla) forced on the real handleSubscriber with gates; '
               'bus subscribers observed at emission time; non-trivial = behaviour in which the overflow queue is used')
    thorough = tier == 'thorough'
    # (a) the repaired design: exhaustive at small capacity incl. liveness, and at the real capacity
    r = vlib.tlc_check('Emitter.tla', em_cfg('Emitter.small.cfg', 'FairSpec', 6 if thorough else 5, 2, 2, False, props='Delivered'), 'C16-small')
    ck.require_model_ok(r, 'Emitter small (fair)')
    r = vlib.tlc_check('Emitter.tla', em_cfg('Emitter.real.cfg', 'Spec', 20 if thorough else 19, 16, 16, False), 'C16-real')
    ck.require_model_ok(r, 'Emitter capacity 16')
    # (b) adversarial schedule: TLC's counterexample for the unrepaired variant, restricted to forcible schedules
    bs = []
    r = vlib.tlc_check('SimEmitter.tla', em_cfg('Emitter.bypass.cfg', 'SimSpec', 19, 16, 16, True, inv='Ordered', stall=0), 'C16-bypass')
    ck.add_tlc(r, 'Emitter with bypass (mutant specification)')
    if r.get('violated') == 'Ordered' and r.get('trace'):
        bs.append({'id': 'bypass-counterexample', 'steps': r['trace']})
    else:
        ck.inconclusive.append('mutant specification (Bypass) not refuted by TLC: vacuity guard failed')
    # free pacing, and a reader that stalls until the 16-slot channel has overflowed
    for k, stall in enumerate((0, 17, 18)):
        sims, _ = vlib.tlc_simulate('SimEmitter.tla', em_cfg('Emitter.sim.cfg', 'SimSpec', 20, 16, 16, False, stall=stall), 'C16-sim%d' % k,
                                    (120 if thorough else 14), 110, SEED + k)
        bs += sims
    for b in bs:
        for st in b['steps']:
            st['action'] = {'SPlace': 'Place', 'SRead': 'Read'}.get(st['action'], st['action'])
    for b in bs:
        if any(len(s['state'].get('q', [])) > 0 for s in b['steps']):
            ck.distinct.add(vlib.beh_signature(b))
    trace_path = os.path.join(vlib.WORK, 'jobs', 'C16-%d-trace.ndjson' % os.getpid())
    os.makedirs(os.path.dirname(trace_path), exist_ok=True)
    inp = {'property': prop, 'seed': SEED, 'n': 20, 'behaviours': bs, 'free_runs': 200 if thorough else 40, 'trace_out': trace_path}
    res = vlib.run_vh('emitter', inp, tag='C16')
    byid = {b['id']: b for b in bs}

    def payload(v):
        b = byid.get(v['behaviour'])
        return {'command': 'emitter', 'input': dict(inp, behaviours=[b] if b else [], free_runs=0 if b else inp['free_runs'], trace_out=''), 'violation': v}
    ck.add_harness(res, payload, 'emitter replay')
    if not res.get('inconclusive'):
        ck.traces_validated += res.get('behaviours', 0)
    log('  emitter: %d forced behaviours (%d steps), %d free runs, %d violations, drift %d' % (
        res['behaviours'], res['steps'], res.get('traces', 0), len(res['violations']), res['stats'].get('drift', 0)))
    if os.path.exists(trace_path):
        os.remove(trace_path)
    # (c) store events: emitted after the state they announce, once each, in order for slow bus subscribers
    run_writepath(ck, prop, tier, 2, [2, 3], 60 if thorough else 10, crash_points=False, restart=False)
    # (d) replicated events of batches that are accepted in part only (DAG B of the replicator: refused head, refused ancestor)
    run_replicator(ck, prop, tier, 'B', 0, 40 if thorough else 6, 40)
    # (e) replicated events of batches that fill in entries BELOW heads the store already holds (block reads that failed are
    # retried with the next request: DAG G with its fetch-error phases): the heads do not move, the view must
    run_replicator(ck, prop, tier, 'G', 0, 30 if thorough else 6, 40)
    return ck.finish()


def replay(prop, path):
    p = json.load(open(path))
    res = vlib.run_vh(p['command'], p['input'], tag='replay')
    vs = res.get('violations', [])
    if p.get('kinds'):
        vs = [v for v in vs if v['kind'] in p['kinds']]
    for v in vs[:5]:
        log('VIOLATION property=%s replay=%s' % (prop, path))
        log('  kind=%s %s' % (v['kind'], v['detail']))
    return 1 if vs else (2 if res.get('inconclusive') else 0)


# ---------------------------------------------------------------------------
# WritePath: C17, C05 and the store-event half of C16

def wp_cfg(name, spec, g, remote, serialised, invs='Durable NoPhantom AckedVisible AckedInView',
           props='WriteEventAfterState ReplEventAfterState ReturnAfterAll'):
    return (name, '''SPECIFICATION %s
CONSTANTS G = {%s}  Remote <- Remote%d  RemotePar <- RemotePar%d  SerialisedPersist = %s
INVARIANTS %s
%s
CHECK_DEADLOCK FALSE
''' % (spec, ', '.join(str(i) for i in range(1, g + 1)), remote, remote, 'TRUE' if serialised else 'FALSE', invs,
       ('PROPERTIES ' + props) if props else ''))


WP_KINDS = {
    'C17': {'ack-invisible', 'append-count', 'lost-ack', 'write-error', 'recover-error', 'recover-open', 'recover-hang'},
    'C05': {'lost-ack', 'phantom', 'not-closed', 'recover-view', 'recover-error', 'recover-open', 'recover-hang', 'identity'},
    'C16': {'event-ahead', 'bus-order', 'event-count'},
}


def run_writepath(ck, prop, tier, g_small, g_sim, n_sim, crash_points, restart=True):
    thorough = tier == 'thorough'
    r = vlib.tlc_check('MCWritePath.tla', wp_cfg('WritePath.small.cfg', 'Spec', g_small, 2, True), prop + '-wp-small', timeout=900)
    ck.require_model_ok(r, 'WritePath %d writers, crash at every state' % g_small)
    log('  TLC WritePath: %d distinct / %d generated, %.0fs' % (r['distinct'], r['generated'], r['wall']))
    bs, adversarial = [], []
    m = vlib.tlc_check('MCWritePath.tla', wp_cfg('WritePath.mutant.cfg', 'Spec', 2, 2, False, invs='Durable', props=''), prop + '-wp-mutant')
    ck.add_tlc(m, 'WritePath without serialised persist (mutant specification)')
    if m.get('violated') == 'Durable' and m.get('trace'):
        steps = [s for s in m['trace'] if s['action'] not in ('Crash', 'Recover')]
        bs.append({'id': 'persist-inversion-counterexample', 'steps': steps})
        adversarial.append('persist-inversion-counterexample')
    else:
        ck.inconclusive.append('mutant specification (unserialised persist) not refuted by TLC: vacuity guard failed')
    t = vlib.tlc_check('MCWritePath.tla', wp_cfg('WritePath.trap.cfg', 'Spec', 2, 2, True, invs='NoOvertakeAfterPersist', props=''), prop + '-wp-trap')
    if t.get('violated') == 'NoOvertakeAfterPersist' and t.get('trace'):
        steps = [s for s in t['trace'] if s['action'] not in ('Crash', 'Recover')]
        bs.append({'id': 'overtaken-between-persist-and-index', 'steps': steps})
    else:
        ck.inconclusive.append('trap NoOvertakeAfterPersist not reached by TLC: the overtaking behaviour is missing from this run')
    for k, g in enumerate(g_sim):
        sims, _ = vlib.tlc_simulate('SimWritePath.tla', wp_cfg('WritePath.sim.cfg', 'SimSpec', g, 3, True, invs='Durable', props=''),
                                    '%s-wp-sim%d' % (prop, k), n_sim, 6 * g + 14, SEED * 13 + k)
        bs += sims
    for b in bs:
        acts = [s['action'] for s in b['steps']]
        # non-trivial: two calls overlap (a second append before the first call has returned) or a batch overlaps a call
        open_calls, overlap = 0, False
        for a in acts:
            if a == 'WAppend':
                open_calls += 1
                overlap = overlap or open_calls > 1
            elif a == 'WReturn':
                open_calls -= 1
            elif a in ('BJoin', 'BPersist') and open_calls > 0:
                overlap = True
        if overlap:
            ck.distinct.add(vlib.beh_signature(b))
    inp = {'property': prop, 'seed': SEED, 'remote': 3, 'behaviours': bs, 'crash_points': crash_points, 'restart': restart, 'adversarial': adversarial}
    res = vlib.run_vh('writepath', inp, tag=prop + '-wp', timeout=600 if tier == 'quick' else 3000)
    if restart:
        # the same behaviours with the replica's cache (leveldb) and keystore in a real directory: clean close / reopen / load
        dd = os.path.join(vlib.WORK, 'disk')
        os.makedirs(dd, exist_ok=True)
        dinp = dict(inp, behaviours=bs[:(len(bs) if thorough else 10)], crash_points=False, disk_dir=dd)
        dres = vlib.run_vh('writepath', dinp, tag=prop + '-wp-disk', timeout=600 if tier == 'quick' else 3000)
        for v in dres.get('violations', []):
            v['detail'] = '[cache and keystore on disk] ' + v.get('detail', '')
            v['on_disk'] = True
        res['violations'] = res.get('violations', []) + dres.get('violations', [])
        res['inconclusive'] = res.get('inconclusive', []) + dres.get('inconclusive', [])
        for k in ('behaviours', 'steps', 'comparisons'):
            res[k] = res.get(k, 0) + dres.get(k, 0)
        res['stats']['on_disk'] = dres.get('stats', {}).get('on_disk', 0)
        res['stats']['restarts'] = res['stats'].get('restarts', 0) + dres.get('stats', {}).get('restarts', 0)
        ck.extra['on_disk_restarts'] = ck.extra.get('on_disk_restarts', 0) + dres.get('stats', {}).get('on_disk', 0)
    allv = res.get('violations', [])
    res['violations'] = [v for v in allv if v['kind'] in WP_KINDS[prop]]
    byid = {b['id']: b for b in bs}

    def payload(v):
        b = byid.get(v['behaviour'])
        one = dict(inp, behaviours=[b] if b else [])
        if v.get('on_disk'):
            one.update(crash_points=False, disk_dir=os.path.join(vlib.WORK, 'disk'))
        return {'command': 'writepath', 'input': one, 'violation': v, 'kinds': sorted(WP_KINDS[prop])}
    ck.add_harness(res, payload, 'writepath replay')
    if not res.get('inconclusive'):
        ck.traces_validated += res.get('behaviours', 0)
    ck.extra['crash_points_rebuilt'] = ck.extra.get('crash_points_rebuilt', 0) + res['stats'].get('crash_points', 0)
    log('  writepath: %d behaviours, %d steps, %d comparisons, crash points %d, %d violations (%d outside this property), drift %d' % (
        res['behaviours'], res['steps'], res['comparisons'], res['stats'].get('crash_points', 0), len(res['violations']),
        len(allv) - len(res['violations']), res['stats'].get('drift', 0)))
    return res



# ---------------------------------------------------------------------------
# the index update itself (C06 / C16 / C17): spec/IndexRace.tla

IR_KEYS = {'KeySame': {'1': 'k', '2': 'k', '3': 'k'}, 'KeyMixed': {'1': 'k', '2': 'k', '3': 'j'}}
IR_KINDS = {'C01': {'convergence'}, 'C06': {'rest-view'}, 'C16': {'ack-not-shown'}, 'C17': {'rest-view', 'ack-not-shown', 'write-error'}}


def ir_cfg(name, writers, keys, batch, atomic, invs='RestLWW StaysShown', props='AckShown', spec='Spec'):
    return (name, """SPECIFICATION %s
CONSTANTS G = {%s}  KeyOf <- %s  Batch = %s  AtomicIndex = %s
INVARIANTS %s
%s
CHECK_DEADLOCK FALSE
""" % (spec, ', '.join(str(g) for g in range(1, writers + 1)), keys, 'TRUE' if batch else 'FALSE', 'TRUE' if atomic else 'FALSE', invs,
       ('PROPERTIES ' + props) if props else ''))


def run_indexrace(ck, prop, tier):
    """Concurrent writers (some on the same key) and one replication batch at the grain of Index.UpdateIndex:
    reading the log and patching the map are separate steps of the pinned tree."""
    thorough = tier == 'thorough'
    r = vlib.tlc_check('MCIndexRace.tla', ir_cfg('IndexRace.cfg', 3, 'KeySame', True, True), prop + '-ir', timeout=600)
    ck.require_model_ok(r, 'IndexRace: read and patch under the index lock, 3 writers on one key plus a batch')
    log('  TLC IndexRace: %d distinct / %d generated, %.0fs' % (r['distinct'], r['generated'], r['wall']))
    tot = {'behaviours': 0, 'steps': 0, 'violations': 0, 'drift': 0}
    for stype in (['kv', 'doc', 'log'] if (thorough or prop == 'C17') else ['kv']):
        bs, adversarial = [], []
        for inv in ('RestLWW', 'StaysShown'):
            m = vlib.tlc_check('MCIndexRace.tla', ir_cfg('IndexRace.mutant.cfg', 2, 'KeySame', inv == 'StaysShown', False, invs=inv, props=''), '%s-ir-mutant-%s' % (prop, inv))
            ck.add_tlc(m, 'IndexRace with the log read before the lock (mutant specification), %s' % inv)
            if m.get('violated') == inv and m.get('trace'):
                bs.append({'id': 'stale-index-counterexample-' + inv, 'steps': m['trace'], 'batch': inv == 'StaysShown'})
                adversarial.append('stale-index-counterexample-' + inv)
            else:
                ck.inconclusive.append('mutant specification (log read before the index lock) not refuted by TLC: vacuity guard failed')
        for k, (keys, batch) in enumerate([('KeySame', True), ('KeyMixed', True), ('KeySame', False)]):
            sims, _ = vlib.tlc_simulate('MCIndexRace.tla', ir_cfg('IndexRace.sim.cfg', 3, keys, batch, True, invs='RestLWW', props='', spec='SimSpec'),
                                        '%s-ir-sim%d' % (prop, k), 40 if thorough else 6, 20, SEED * 19 + k)
            for b in sims:
                b['keys'], b['batch'] = keys, batch
                for st in b['steps']:
                    st['action'] = {'SWIndexWait': 'WIndexWait', 'SBIndexWait': 'BIndexWait', 'SWIndexRead': 'WIndexRead', 'SBIndexRead': 'BIndexRead'}.get(st['action'], st['action'])
            bs += sims
        for b in bs:
            acts = [(s['action'], tuple(s['args'])) for s in b['steps']]
            # non-trivial: an index update begins while another call or the batch is between its append/join and its return
            if sum(1 for a, _ in acts if a in ('WIndexRead', 'BIndexRead')) >= 2 and any(a in ('WIndexWait', 'BIndexWait', 'SWIndexWait', 'SBIndexWait') for a, _ in acts):
                ck.distinct.add(vlib.beh_signature(b))
        groups = {}
        for b in bs:
            groups.setdefault((b.get('keys', 'KeySame'), b.get('batch', True)), []).append(b)
        for (keys, batch), sub in sorted(groups.items()):
            inp = {'property': prop, 'seed': SEED, 'type': stype, 'keys': IR_KEYS[keys], 'batch': batch, 'behaviours': sub, 'adversarial': adversarial}
            res = vlib.run_vh('indexrace', inp, tag='%s-ir-%s' % (prop, stype), timeout=600 if not thorough else 2400)
            allv = res.get('violations', [])
            res['violations'] = [v for v in allv if v['kind'] in IR_KINDS[prop]]

            def payload(v, inp=inp, sub=sub):
                b = [x for x in sub if x['id'] == v['behaviour']]
                return {'command': 'indexrace', 'input': dict(inp, behaviours=b), 'violation': v, 'kinds': sorted(IR_KINDS[prop])}
            ck.add_harness(res, payload, 'indexrace %s' % stype)
            if not res.get('inconclusive'):
                ck.traces_validated += res.get('behaviours', 0)
            tot['behaviours'] += res.get('behaviours', 0)
            tot['steps'] += res.get('steps', 0)
            tot['violations'] += len(res['violations'])
            tot['drift'] += res.get('stats', {}).get('drift', 0)
    ck.extra['indexrace_behaviours'] = tot['behaviours']
    log('  indexrace: %(behaviours)d behaviours, %(steps)d steps, %(violations)d violations, drift %(drift)d' % tot)

# readers of the document store against the rebuilds of its view (C07): spec/ReadView.tla

def rv_cfg(name, snapshot, mode, maxver=4, nreads=2, inv=True):
    return (name, """SPECIFICATION Spec
CONSTANTS Keys = {"a", "b", "c"}  MaxVer = %d  NReads = %d  SnapshotRead = %s  Mode = "%s"
%s
CHECK_DEADLOCK FALSE
""" % (maxver, nreads, 'TRUE' if snapshot else 'FALSE', mode, 'INVARIANTS OneState' if inv else ''))


def run_tornread(ck, prop, tier):
    """Get and Query while writes rebuild the view: the answer is the view of one moment of the call."""
    thorough = tier == 'thorough'
    bs = []
    for mode in ('get', 'query'):
        r = vlib.tlc_check('ReadView.tla', rv_cfg('ReadView.%s.cfg' % mode, True, mode), '%s-rv-%s' % (prop, mode), timeout=600)
        ck.require_model_ok(r, 'ReadView (%s): the call answers from the map published at one moment' % mode)
        m = vlib.tlc_check('ReadView.tla', rv_cfg('ReadView.%s.mutant.cfg' % mode, False, mode), '%s-rv-mutant-%s' % (prop, mode), timeout=600)
        ck.add_tlc(m, 'ReadView (%s) with the keys and the values read in separate steps (mutant specification)' % mode)
        if m.get('violated') == 'OneState' and m.get('trace'):
            bs.append({'id': 'torn-read-counterexample-' + mode, 'steps': m['trace']})
        else:
            ck.inconclusive.append('mutant specification (keys and values read separately, %s) not refuted by TLC: vacuity guard failed' % mode)
    sims, _ = vlib.tlc_simulate('ReadView.tla', rv_cfg('ReadView.sim.cfg', True, 'get', maxver=10, nreads=6, inv=False), prop + '-rv-sim',
                                24 if thorough else 6, 30, SEED * 23 + 5)
    bs += sims
    for b in bs:
        acts = [s['action'] for s in b['steps']]
        # non-trivial: a read begins and at least two views are published
        if 'ReadBegin' in acts and sum(1 for a in acts if a in ('PutAll', 'PutOne', 'Del')) >= 2:
            ck.distinct.add(vlib.beh_signature(b))
    inp = {'property': prop, 'seed': SEED, 'keys': ['a', 'b', 'c'], 'behaviours': bs, 'repeat': 12 if thorough else 6}
    res = vlib.run_vh('tornread', inp, tag=prop + '-tornread', timeout=900)

    def payload(v, inp=inp):
        b = [x for x in bs if x['id'] == v['behaviour']]
        return {'command': 'tornread', 'input': dict(inp, behaviours=b), 'violation': v}
    ck.add_harness(res, payload, 'readers against rebuilds of the view')
    if not res.get('inconclusive'):
        ck.traces_validated += res.get('behaviours', 0)
    ck.extra['tornread_reads'] = res.get('stats', {}).get('reads', 0)
    log('  tornread: %d behaviours, %d writer steps, %d reads, %d violations' % (res.get('behaviours', 0), res.get('steps', 0), ck.extra['tornread_reads'], len(res.get('violations', []))))


def c17(prop, tier):
    ck = Check(prop, tier)
    thorough = tier == 'thorough'
    ck.rule = ('interleavings of concurrent AddOperation calls (spec/WritePath.tla: append | persist | index | emit | return) and '
               'replication batches forced on a real store with gates, then close/reopen/load; non-trivial = behaviour in which '
               'two calls, or a call and a batch, overlap')
    run_writepath(ck, prop, tier, 3, [2, 3, 4, 5] if not thorough else [2, 3, 4, 5, 6, 8], 12 if not thorough else 80, crash_points=False)
    run_indexrace(ck, prop, tier)
    return ck.finish()


def c05(prop, tier):
    ck = Check(prop, tier)
    thorough = tier == 'thorough'
    ck.rule = ('for every forced behaviour of spec/WritePath.tla the peer\'s ordered effect log (block writes, cache puts) is cut at '
               'every prefix, a fresh instance is started on exactly that durable state and loaded; recovered log compared with the '
               'acknowledgements issued before the cut; plus clean close/reopen/load, also with the cache (leveldb) and keystore kept in a real directory; '
               'plus behaviours of spec/HeadsCache.tla (several runs of the process; replications before Load, limited loads on the live instance) replayed call by call, '
               'a copy of the durable state recovered after every step and after every persistence effect inside a step; non-trivial = overlapping calls/batches, or a cache put while the log in memory is not the whole database')
    ck.assumptions = ['each persistence effect is durable once its call returns (the property\'s own assumption); effects are recorded by the simulated block store and cache']
    run_writepath(ck, prop, tier, 3, [1, 2, 3] if not thorough else [1, 2, 3, 4], 10 if not thorough else 60, crash_points=True)
    # several runs of the process: what the cache says the heads are when the log in memory is not the whole database
    run_headscache(ck, prop, tier, 120 if thorough else 24)
    return ck.finish(level='model_checking')



# ---------------------------------------------------------------------------
# HeadsCache: cached heads against the log in memory, over several runs of one replica (C05, C15, C01)

def hc_cfg(name, keep, stops=2, nlocal=2, invs='Durable NoPhantom FullIsFull', readfirst=True):
    return (name, '''SPECIFICATION Spec
CONSTANTS NLocal = %d RemoteIds <- RIds RemotePar <- RPar RemoteClock <- RClock RemoteWriter <- RWriter MaxStops = %d KeepCachedHeads = %s ReadFirst = %s
INVARIANTS %s
CHECK_DEADLOCK FALSE
''' % (nlocal, stops, 'TRUE' if keep else 'FALSE', 'TRUE' if readfirst else 'FALSE', invs))


HC_KINDS = {
    'C05': {'lost-ack', 'phantom', 'not-closed', 'recover-view', 'recover-error', 'write-error', 'panic'},
    'C15': {'limit-count', 'view-differs', 'panic'},
    'C01': {'view-differs'},
}


def run_headscache(ck, prop, tier, n_sim):
    """spec/HeadsCache.tla: one replica over several runs (open, full and limited loads on the live instance, writes, replications
    before and after a load, stops); every behaviour is replayed call by call, a copy of the durable state is recovered after every step."""
    thorough = tier == 'thorough'
    r = vlib.tlc_check('MCHeadsCache.tla', hc_cfg('HeadsCache.cfg', True, 3 if thorough else 2, 3 if thorough else 2), prop + '-hc', timeout=900)
    ck.require_model_ok(r, 'HeadsCache (cached heads outside the log are kept): acknowledged entries are reached from the cached heads in every state')
    log('  TLC HeadsCache: %d distinct / %d generated, %.0fs' % (r['distinct'], r['generated'], r['wall']))
    bs, mutants = [], []
    for stops, what in ((2, 'a replication between reopening and loading'), (0, 'a limited load on the live instance')):
        m = vlib.tlc_check('MCHeadsCache.tla', hc_cfg('HeadsCache.mutant%d.cfg' % stops, False, stops, invs='Durable'), '%s-hc-mutant%d' % (prop, stops))
        ck.add_tlc(m, 'HeadsCache with cache puts that replace the cached heads (mutant specification, %s)' % what)
        if m.get('violated') == 'Durable' and m.get('trace'):
            bs.append({'id': 'replaced-heads-counterexample-%d' % stops, 'steps': m['trace']})
            mutants.append('replaced-heads-counterexample-%d' % stops)
        else:
            ck.inconclusive.append('mutant specification (HeadsCache, replaced heads, %d stops) not refuted by TLC: vacuity guard failed' % stops)
    m = vlib.tlc_check('MCHeadsCache.tla', hc_cfg('HeadsCache.mutantR.cfg', True, 1, invs='Durable', readfirst=False), '%s-hc-mutantR' % prop)
    ck.add_tlc(m, 'HeadsCache with the cached heads read after the append (mutant specification: a Load between the two steps of a write)')
    if m.get('violated') == 'Durable' and m.get('trace'):
        bs.append({'id': 'read-after-append-counterexample', 'steps': m['trace']})
        mutants.append('read-after-append-counterexample')
    else:
        ck.inconclusive.append('mutant specification (HeadsCache, read after append) not refuted by TLC: vacuity guard failed')
    sims, _ = vlib.tlc_simulate('MCHeadsCache.tla', hc_cfg('HeadsCache.sim.cfg', True, invs='Durable'), prop + '-hc-sim', n_sim, 14, SEED * 11 + 3)
    bs += sims
    lcfg = hc_cfg('HeadsCache.loads.cfg', True, invs='Durable')
    lsims, _ = vlib.tlc_simulate('MCHeadsCache.tla', (lcfg[0], lcfg[1].replace('SPECIFICATION Spec', 'SPECIFICATION LoadsSpec')),
                                 prop + '-hc-loads', max(6, n_sim // 3), 14, SEED * 17 + 5)
    for b in lsims:
        for st in b['steps']:
            st['action'] = {'LWrite': 'Write', 'LReplicate': 'Replicate', 'LLoadFull': 'LoadFull', 'LLoadLimited': 'LoadLimited', 'LStop': 'Stop'}.get(st['action'], st['action'])
    bs += lsims
    for b in bs:
        acts = [s['action'] for s in b['steps']]
        # non-trivial: something happens between a reopening and the next full load, or a limited load is followed by a put of the cache
        unloaded, nt = False, False
        for a in acts:
            if a in ('Open', 'LoadLimited'):
                unloaded = True
            elif a == 'LoadFull':
                unloaded = False
            elif a in ('Replicate', 'Write', 'WriteEnd') and unloaded:
                nt = True
        if nt:
            ck.distinct.add(vlib.beh_signature(b))
    inp = {'property': prop, 'seed': SEED, 'behaviours': bs, 'mutant': mutants}
    res = vlib.run_vh('headscache', inp, tag=prop + '-hc', timeout=600 if tier == 'quick' else 3000)
    allv = res.get('violations', [])
    res['violations'] = [v for v in allv if v['kind'] in HC_KINDS[prop]]
    for v in allv:
        if v['kind'] == 'log-differs':
            # the log in memory is not the specification's: a disagreement of the model with the code, not a verdict on a property
            ck.notes.append('headscache %s step %s: %s' % (v.get('behaviour'), v.get('step'), v.get('detail', '')[:200]))
    byid = {b['id']: b for b in bs}

    def payload(v):
        b = byid.get(v['behaviour'])
        return {'command': 'headscache', 'input': dict(inp, behaviours=[b] if b else []), 'violation': v, 'kinds': sorted(HC_KINDS[prop])}
    ck.add_harness(res, payload, 'headscache replay')
    if not res.get('inconclusive'):
        ck.traces_validated += res.get('behaviours', 0)
    ck.extra['recoveries_after_steps'] = ck.extra.get('recoveries_after_steps', 0) + res['stats'].get('recoveries', 0)
    ck.extra['crash_points_rebuilt'] = ck.extra.get('crash_points_rebuilt', 0) + res['stats'].get('crash_points', 0)
    log('  headscache: %d behaviours, %d steps, %d comparisons, %d recoveries after steps + %d inside steps, %d violations (%d outside this property), drift %d' % (
        res['behaviours'], res['steps'], res['comparisons'], res['stats'].get('recoveries', 0), res['stats'].get('crash_points', 0), len(res['violations']),
        len(allv) - len(res['violations']), res['stats'].get('drift', 0)))
    return res

# ---------------------------------------------------------------------------
# C19: replication status

def st_cfg(name, spec, l, r, elseif, invs='RestOK SingleWriterCount ProgLeMax', props='Monotone', atomic=True):
    return (name, '''SPECIFICATION %s
CONSTANTS L = %d  R = %d  ElseIf = %s  AtomicRecalc = %s
INVARIANTS %s
%s
CHECK_DEADLOCK FALSE
''' % (spec, l, r, 'TRUE' if elseif else 'FALSE', 'TRUE' if atomic else 'FALSE', invs, ('PROPERTIES ' + props) if props else ''))


def apalache_status(ck):
    """spec/StatusInd.tla: the arithmetic of Status.tla with type annotations. Apalache checks that IndInv holds initially, is
    preserved by every action from ANY state satisfying it (so for any number of local writes, remote chains of up to 8
    entries), and that no action lowers the maximum or the progress from such a state; the variant in which a write may fall
    between the reads and the set of a recalculation must not pass (vacuity guard)."""
    import subprocess, shutil, tempfile
    d = tempfile.mkdtemp(prefix='apalache-', dir=vlib.WORK)
    try:
        src = open(os.path.join(vlib.ROOT, 'spec', 'StatusInd.tla')).read()
        open(os.path.join(d, 'StatusInd.tla'), 'w').write(src)
        mut = src.replace('MODULE StatusInd ', 'MODULE StatusIndMut ').replace('Write == /\\ pend = 0\n', 'Write == /\\ TRUE\n')
        open(os.path.join(d, 'StatusIndMut.tla'), 'w').write(mut)

        def run(module, init, inv, length):
            t0 = time.time()
            try:
                p = subprocess.run(['apalache-mc', 'check', '--cinit=ConstInit', '--init=' + init, '--inv=' + inv, '--length=%d' % length, module + '.tla'],
                                   cwd=d, capture_output=True, text=True, timeout=600)
            except Exception as e:
                return None, str(e), time.time() - t0
            out = p.stdout + p.stderr
            if 'EXITCODE: OK' in out:
                return True, out, time.time() - t0
            if 'violated' in out or 'EXITCODE: ERROR (12)' in out:
                return False, out, time.time() - t0
            return None, out[-400:], time.time() - t0
        results = []
        for what, module, init, inv, length, want in [
                ('Init => IndInv', 'StatusInd', 'Init', 'IndInv', 0, True),
                ('IndInv /\\ Next => IndInv\'', 'StatusInd', 'IndInit', 'IndInv', 1, True),
                ('IndInv /\\ Next => max\' >= max /\\ prog\' >= prog', 'StatusInd', 'IndInit', 'Monotone', 1, True),
                ('two-step recalculation: IndInv is not inductive (vacuity guard)', 'StatusIndMut', 'IndInit', 'IndInv', 1, False)]:
            ok, out, wall = run(module, init, inv, length)
            results.append({'what': what, 'holds': ok, 'wall_s': round(wall, 1)})
            if ok is None:
                # the tool did not run to a verdict: the unbounded argument is missing from this run, the bounded ones are not
                ck.notes.append('apalache (%s): no verdict (%s)' % (what, out[-200:].replace('\n', ' ')))
            elif ok != want:
                ck.inconclusive.append('apalache (%s): %s on the model' % (what, 'refuted' if want else 'not refuted'))
        ck.extra['apalache_inductive_invariant'] = results
        log('  Apalache StatusInd: %s' % ', '.join('%s=%s' % (r['what'].split(':')[0][:28], r['holds']) for r in results))
    finally:
        shutil.rmtree(d, ignore_errors=True)


def c19(prop, tier):
    ck = Check(prop, tier)
    thorough = tier == 'thorough'
    ck.rule = ('flows of spec/Status.tla (local writes interleaved with the announcement, per-entry fetch and join of a remote chain) '
               'realised on a real store with driver-controlled fetch completion; every individual SetMax/SetProgress is recorded by a '
               'hook and checked for regressions; at rest progress = max within [largest time, entry count]; non-trivial = behaviour '
               'with a local write between announcement and join')
    r = vlib.tlc_check('Status.tla', st_cfg('Status.small.cfg', 'Spec', 6 if thorough else 4, 6 if thorough else 4, False), 'C19-small')
    ck.require_model_ok(r, 'Status arithmetic and flows')
    apalache_status(ck)
    m = vlib.tlc_check('SimStatus.tla', st_cfg('Status.mutant.cfg', 'SimSpec', 3, 4, True, invs='ProgLeMax'), 'C19-mutant')
    ck.add_tlc(m, 'Status with else-if (mutant specification)')
    bs = []
    if m.get('violated') == 'Monotone' and m.get('trace'):
        bs.append({'id': 'elseif-counterexample', 'steps': m['trace']})
    else:
        ck.inconclusive.append('mutant specification (else-if) not refuted by TLC: vacuity guard failed')
    m2 = vlib.tlc_check('SimStatus.tla', st_cfg('Status.mutant2.cfg', 'SimSpec', 3, 1, False, invs='ProgLeMax', atomic=False), 'C19-mutant2')
    ck.add_tlc(m2, 'Status with recalculations that read and set in two steps (mutant specification)')
    if m2.get('violated') in ('Monotone', 'ProgLeMax') and m2.get('trace'):
        bs.append({'id': 'two-step-recalc-counterexample', 'steps': m2['trace'], 'r': 1})
    else:
        ck.inconclusive.append('mutant specification (two-step recalculation) not refuted by TLC: vacuity guard failed')
    sims, _ = vlib.tlc_simulate('SimStatus.tla', st_cfg('Status.sim.cfg', 'SimSpec', 4, 4, False, props=''), 'C19-sim', 400 if thorough else 14, 14, SEED)
    bs += sims
    for b in bs:
        for st in b['steps']:
            st['action'] = {'SWrite': 'Write', 'SProgress': 'Progress', 'SJoinAll': 'JoinAll', 'SAnnounce': 'Announce', 'SAnnRead': 'AnnRead'}.get(st['action'], st['action'])
        acts = [s['action'] for s in b['steps']]
        if 'Announce' in acts and 'Write' in acts[acts.index('Announce'):]:
            ck.distinct.add(vlib.beh_signature(b))
    short = [b for b in bs if b.get('r') == 1]
    bs = [b for b in bs if b.get('r') != 1]
    inp = {'property': prop, 'seed': SEED, 'r': 4, 'behaviours': bs}
    res = vlib.run_vh('status', inp, tag='C19')
    if short:
        # the counterexample of the two-step recalculation needs a remote chain of one entry
        res1 = vlib.run_vh('status', dict(inp, r=1, behaviours=short), tag='C19-r1')
        for k in ('behaviours', 'steps', 'comparisons'):
            res[k] = res.get(k, 0) + res1.get(k, 0)
        for k in ('violations', 'inconclusive', 'notes'):
            res[k] = res.get(k, []) + res1.get(k, [])
        res['stats']['drift'] = res['stats'].get('drift', 0) + res1.get('stats', {}).get('drift', 0)
    byid = {b['id']: b for b in bs + short}

    def payload(v):
        b = byid.get(v['behaviour'])
        return {'command': 'status', 'input': dict(inp, r=b.get('r', 4) if b else 4, behaviours=[b] if b else []), 'violation': v}
    ck.add_harness(res, payload, 'status replay')
    if not res.get('inconclusive'):
        ck.traces_validated += res.get('behaviours', 0)
    log('  status: %d behaviours, %d steps, %d comparisons, %d violations, drift %d' % (
        res['behaviours'], res['steps'], res['comparisons'], len(res['violations']), res['stats'].get('drift', 0)))
    return ck.finish()


# ---------------------------------------------------------------------------
# Replicator: C11 (cancellation) and C10 (refused entries)

DAGS = {
    'A': dict(hashes='{1,2,3,4}', links='LinksDef', heads='HeadsA', local='{2,3,4}', bad='{}', abort='{}', syncpass='{}', cached='{}',
              jl={'1': [], '2': [1], '3': [1, 2], '4': [1, 2]}, jh={'1': [3], '2': [2, 4], '3': [3, 4]}, jbad=[]),
    'B': dict(hashes='{1,2,3,4,5}', links='LinksB', heads='HeadsB', local='{3,4}', bad='{2,5}', abort='{}', syncpass='{}',
              jl={'1': [], '2': [], '3': [1], '4': [1, 5], '5': []}, jh={'1': [2, 3], '2': [4, 3, 2], '3': [3, 4]}, jbad=[2, 5]),
    'G': dict(hashes='{1,2,3,4}', links='LinksDef', heads='HeadsA', local='{2,3,4}', bad='{}', abort='{}', syncpass='{}', flaky='{2}',
              jl={'1': [], '2': [1], '3': [1, 2], '4': [1, 2]}, jh={'1': [3], '2': [2, 4], '3': [3, 4]}, jbad=[]),
    'H': dict(hashes='{1,2,3,4}', links='LinksDef', heads='HeadsA', local='{2,3,4}', bad='{}', abort='{}', syncpass='{}', flaky='{1,2,3}',
              jl={'1': [], '2': [1], '3': [1, 2], '4': [1, 2]}, jh={'1': [3], '2': [2, 4], '3': [3, 4]}, jbad=[]),
    'I': dict(hashes='{1,2,3,4,5}', links='LinksI', heads='HeadsA', local='{2,3,4}', bad='{}', abort='{}', syncpass='{}', ghost='{5}',
              jl={'1': [], '2': [1], '3': [1, 2], '4': [2, 5], '5': []}, jh={'1': [3], '2': [2, 4], '3': [3, 4]}, jbad=[]),
    'F': dict(hashes='{1,2,3,4}', links='LinksDef', heads='HeadsA', local='{2,3,4}', bad='{}', abort='{}', syncpass='{}', cached='{1,2,3}',
              jl={'1': [], '2': [1], '3': [1, 2], '4': [1, 2]}, jh={'1': [3], '2': [2, 4], '3': [3, 4]}, jbad=[]),
    'E': dict(hashes='{1,2,3,4,5}', links='LinksB', heads='HeadsB', local='{3,4}', bad='{2,5}', abort='{}', syncpass='{}',
              jl={'1': [], '2': [], '3': [1], '4': [1, 5], '5': []}, jh={'1': [2, 3], '2': [4, 3, 2], '3': [3, 4]}, jbad=[2, 5]),
    'D': dict(hashes='{1,2,3,4,5,7}', links='LinksD', heads='HeadsD', local='{3,4,7}', bad='{2,5,7}', abort='{}', syncpass='{7}',
              jl={'1': [], '2': [], '3': [1], '4': [1, 5], '5': [], '7': []}, jh={'1': [7, 3], '2': [4, 7, 2], '3': [3, 4]}, jbad=[2, 5, 7]),
    'C': dict(hashes='{1,2,3,4,5}', links='LinksB', heads='HeadsC', local='{3,4}', bad='{2,5}', abort='{6}', syncpass='{}',
              jl={'1': [], '2': [], '3': [1], '4': [1, 5], '5': []}, jh={'1': [3, 6], '2': [4, 3, 2], '3': [3, 4]}, jbad=[2, 5]),
}


def rp_cfg(name, spec, dag, conc, cancels, pinned, invs='NoWedge NoHang SemOK QueueMatchesWorkers NoDeadWorkers', maxw=10, forget=True, bounded=True):
    d = DAGS[dag]
    return (name, '''SPECIFICATION %s
CONSTANTS Hash = %s  Links <- %s  Local = %s  Bad = %s  SyncPass = %s  Cached = %s  Flaky = %s  Forget = %s  Ghost = %s  Bounded = %s  Abort = %s  NReq = 3  ReqHeads <- %s  Conc = %d  MaxCancel = %d  MaxW = %d  Pinned = %s
INVARIANTS %s
CHECK_DEADLOCK FALSE
''' % (spec, d['hashes'], d['links'], d['local'], d['bad'], d['syncpass'], d.get('cached', '{}'), d.get('flaky', '{}'), 'TRUE' if forget else 'FALSE', d.get('ghost', '{}'), 'TRUE' if bounded else 'FALSE', d['abort'], d['heads'], conc, cancels, maxw, 'TRUE' if pinned else 'FALSE', invs))


RP_KINDS = {'C16': {'replicated-event'}, 'C11': {'wedged', 'missing', 'view-stale'}, 'C10': {'wedged', 'missing', 'bad-merged', 'view-stale'}}


def run_replicator(ck, prop, tier, dag, cancels, n_sim, depth):
    thorough = tier == 'thorough'
    d = DAGS[dag]
    r = vlib.tlc_check('MCReplicator.tla', rp_cfg('Replicator.%s.cfg' % dag, 'Spec', dag, 2, cancels, False), '%s-rp-%s' % (prop, dag), timeout=900)
    ck.require_model_ok(r, 'Replicator (repaired design) dag %s, concurrency 2, %d cancels' % (dag, cancels))
    log('  TLC Replicator %s: %d distinct / %d generated, %.0fs' % (dag, r['distinct'], r['generated'], r['wall']))
    if thorough:
        r1 = vlib.tlc_check('MCReplicator.tla', rp_cfg('Replicator.%s.c1.cfg' % dag, 'Spec', dag, 1, cancels, False), '%s-rp-%s-c1' % (prop, dag), timeout=900)
        ck.require_model_ok(r1, 'Replicator dag %s, concurrency 1' % dag)
    bs, mutants = [], []
    if dag == 'I':
        m = vlib.tlc_check('SimReplicator.tla', rp_cfg('Replicator.%s.pinned.cfg' % dag, 'SimSpec', dag, 2, cancels, False, invs='NoWedge', bounded=False), '%s-rp-%s-pinned' % (prop, dag))
        ck.add_tlc(m, 'Replicator whose fetches are not bounded (mutant specification) dag %s' % dag)
    elif dag in 'GH':
        m = vlib.tlc_check('SimReplicator.tla', rp_cfg('Replicator.%s.pinned.cfg' % dag, 'SimSpec', dag, 2, cancels, False, invs='NoWedge', forget=False), '%s-rp-%s-pinned' % (prop, dag))
        ck.add_tlc(m, 'Replicator that records failed fetches as fetched (mutant specification) dag %s' % dag)
    else:
        m = vlib.tlc_check('SimReplicator.tla', rp_cfg('Replicator.%s.pinned.cfg' % dag, 'SimSpec', dag, 2, cancels, True, invs='NoWedge'), '%s-rp-%s-pinned' % (prop, dag))
        ck.add_tlc(m, 'Replicator as pinned (mutant specification) dag %s' % dag)
    if m.get('violated') == 'NoWedge' and m.get('trace'):
        bs.append({'id': 'pinned-counterexample-%s' % dag, 'steps': m['trace']})
        mutants.append('pinned-counterexample-%s' % dag)
    else:
        ck.inconclusive.append('mutant specification (Pinned, dag %s) not refuted by TLC: vacuity guard failed' % dag)
    for conc in (1, 2):
        sims, _ = vlib.tlc_simulate('SimReplicator.tla', rp_cfg('Replicator.%s.sim.cfg' % dag, 'SimSpec', dag, conc, cancels, False, invs='SemOK'),
                                    '%s-rp-%s-sim%d' % (prop, dag, conc), n_sim, depth, SEED * 7 + conc)
        bs += sims
    for b in bs:
        for st in b['steps']:
            pass
        acts = [s['action'] for s in b['steps']]
        if ('Cancel' in acts) or (dag in 'BCDE' and 'JoinBatch' in acts) or (dag == 'F' and 'StoreLoad' in acts) or (dag in 'GH' and 'SFetchErr' in acts) or (dag == 'I' and 'SFetchTimeout' in acts):
            ck.distinct.add(vlib.beh_signature(b))
    inp = {'property': prop, 'seed': SEED, 'dag': dag, 'req_heads': d['jh'], 'nreq': 3, 'bad': d['jbad'], 'abort': [6] if dag == 'C' else [], 'ghost': [5] if dag == 'I' else [], 'links': d['jl'],
           'behaviours': bs, 'mutant': mutants, 'long_outage_s': 25 if (thorough and prop == 'C11') else 0}
    res = vlib.run_vh('replicator', inp, tag='%s-rp-%s' % (prop, dag), timeout=600 if tier == 'quick' else 3000)
    allv = res.get('violations', [])
    res['violations'] = [v for v in allv if v['kind'] in RP_KINDS[prop]]
    byid = {b['id']: b for b in bs}

    def payload(v):
        b = byid.get(v['behaviour'])
        return {'command': 'replicator', 'input': dict(inp, behaviours=[b] if b else []), 'violation': v, 'kinds': sorted(RP_KINDS[prop])}
    ck.add_harness(res, payload, 'replicator replay %s' % dag)
    if not res.get('inconclusive'):
        ck.traces_validated += res.get('behaviours', 0)
    log('  replicator %s: %d behaviours, %d steps, %d violations, drift %d' % (dag, res['behaviours'], res['steps'], len(res['violations']), res['stats'].get('drift', 0)))
    return res



def loadpath_model(ck, prop):
    """spec/LoadPath.tla: loads of one instance one after the other; the pinned Join-only variant must be refuted."""
    def cfg(fill):
        return ('LoadPath.cfg', 'SPECIFICATION Spec\nCONSTANTS N = 6 FillBelow = %s\nINVARIANTS FullLoadsEverything\nCHECK_DEADLOCK FALSE\n' % ('TRUE' if fill else 'FALSE'))
    r = vlib.tlc_check('LoadPath.tla', cfg(True), prop + '-loadpath')
    ck.require_model_ok(r, 'LoadPath: a complete unlimited load makes everything visible whatever was loaded before')
    m = vlib.tlc_check('LoadPath.tla', cfg(False), prop + '-loadpath-mutant')
    ck.add_tlc(m, 'LoadPath with Join only (mutant specification)')
    if m.get('violated') != 'FullLoadsEverything':
        ck.inconclusive.append('mutant specification (LoadPath, Join only) not refuted by TLC: vacuity guard failed')

def replicator_liveness(ck, prop, dag, cancels, mutant=False):
    """Replicator.tla under weak fairness of workers, requests and the main loop: everything reachable from the final request is
    eventually and for good in the log (the safety runs say 'at rest'; this says that rest is reached)."""
    name, cfg = rp_cfg('Replicator.%s.live.cfg' % dag, 'FairSpec', dag, 2, cancels, False, invs='SemOK', bounded=not mutant)
    cfg = cfg.replace('CHECK_DEADLOCK FALSE', 'PROPERTIES Eventually\nCHECK_DEADLOCK FALSE')
    r = vlib.tlc_check('MCReplicator.tla', (name, cfg), '%s-rp-live-%s%s' % (prop, dag, '-mutant' if mutant else ''), timeout=1500)
    if mutant:
        ck.add_tlc(r, 'Replicator liveness with unbounded fetches (mutant specification) dag %s' % dag)
        if 'Temporal property' not in (r.get('error') or '') and not r.get('violated'):
            ck.inconclusive.append('mutant specification (unbounded fetches, liveness, dag %s) not refuted by TLC: vacuity guard failed' % dag)
    else:
        ck.require_model_ok(r, 'Replicator liveness (FairSpec => Eventually) dag %s, %d cancels' % (dag, cancels))
    log('  TLC Replicator liveness %s%s: %d distinct, %.0fs' % (dag, ' (mutant, refuted)' if mutant else '', r['distinct'], r['wall']))


def c11(prop, tier):
    ck = Check(prop, tier)
    thorough = tier == 'thorough'
    ck.rule = ('behaviours of spec/Replicator.tla (3 requests over a chain with refs and a fork, workers gated before the semaphore, '
               'before and after the fetch; Cancel at any step) forced on a real store, then run to rest and the final uncancelled '
               'request issued again; non-trivial = behaviour containing a Cancel')
    loadpath_model(ck, prop)
    replicator_liveness(ck, prop, 'A', 1)
    if thorough:
        replicator_liveness(ck, prop, 'I', 1)
        replicator_liveness(ck, prop, 'I', 1, mutant=True)
    run_replicator(ck, prop, tier, 'A', 2, 100 if thorough else 16, 40)
    # a replica that has been restarted: requests for heads it holds in its cache arrive before, while and after its own Load (DAG F)
    run_replicator(ck, prop, tier, 'F', 1, 60 if thorough else 10, 40)
    # a request that fails part-way: its announcement lists a valid head before one whose hash does not match (DAG C of C10)
    run_replicator(ck, prop, tier, 'C', 1, 40 if thorough else 6, 40)
    # block reads that fail while a request is served (constant Flaky): the hash stays wanted and is queued again (DAG G / H)
    run_replicator(ck, prop, tier, 'H' if thorough else 'G', 0, 60 if thorough else 10, 40)
    # a request that gets no answer: a head links to a block nobody provides (constants Ghost, Bounded; DAG I)
    run_replicator(ck, prop, tier, 'I', 1, 60 if thorough else 8, 44)
    return ck.finish()


def c10(prop, tier):
    ck = Check(prop, tier)
    thorough = tier == 'thorough'
    ck.rule = ('announcements mixing valid heads with a non-writer\'s head and with a valid-looking head that links to a non-writer\'s '
               'entry (real entries built with a second keystore), every list position of the specification\'s request table and '
               'every fetch-completion order of the simulated behaviours, then honest re-announcement; non-trivial = a batch containing a refused entry is joined')
    run_replicator(ck, prop, tier, 'B', 0, 120 if thorough else 20, 40)
    # the same with a first announcement that is given up as a whole (valid head listed before a wrong-hash head)
    run_replicator(ck, prop, tier, 'C', 0, 120 if thorough else 20, 40)
    # ... and with a head written for another database by an authorised writer, which passes Sync and is refused at the join (DAG D)
    run_replicator(ck, prop, tier, 'D', 0, 120 if thorough else 14, 44)
    # ... and the request tables of DAG B with the refused head 2 forged: it names the authorised writer of entries 1, 3, 4 as its author
    run_replicator(ck, prop, tier, 'E', 0, 60 if thorough else 8, 40)
    if thorough:
        # ... and with a head that links to a block nobody provides (DAG I)
        run_replicator(ck, prop, tier, 'I', 0, 40, 44)
    return ck.finish()
