"""C20: transport adapters, decided with spec/Transport.tla and the real
adapters driven through a scripted pubsub API / libp2p mocknet streams."""
import json, os
import vlib
from vlib import log, Check, SEED

FRAME_KINDS = '{"empty", "one", "max-1", "max", "max+1", "truncated", "overflow63", "overflow64"}'


def tr_cfg(peers, polls, msgs, frames):
    return ('Transport.cfg', '''SPECIFICATION Spec
CONSTANTS Peers = {%s}  Self = "me"  MaxPolls = %d  MaxMsgs = %d  MaxFrames = %d
  FrameKinds = %s
INVARIANTS MembershipExact NoOwnMessages OncePerMessage InOrder
CHECK_DEADLOCK FALSE
''' % (', '.join('"%s"' % p for p in peers), polls, msgs, frames, FRAME_KINDS))


def c20(prop, tier):
    ck = Check(prop, tier)
    thorough = tier == 'thorough'
    ck.rule = ('sequences of membership snapshots (lists over 2-3 peers, duplicates allowed) and interleaved publishes by the local and '
               'remote peers generated from spec/Transport.tla and fed to the real pubsubcoreapi adapter through a scripted PubSubAPI '
               '(gated polls); pairwise channels over the same scripted API (name symmetry for random peer ids, attribution, own messages); '
               'frames of sizes 0, 1, limit-1, limit, limit+1 and malformed frames over real libp2p streams (mocknet); '
               'non-trivial = behaviour with a membership change and a message')
    r = vlib.tlc_check('Transport.tla', tr_cfg(['p1', 'p2'], 3, 3, 2), 'C20-small')
    ck.require_model_ok(r, 'Transport: membership/messages/frames outcome')
    sims, _ = vlib.tlc_simulate('Transport.tla', tr_cfg(['p1', 'p2', 'p3'], 5, 5, 0), 'C20-sim', 200 if thorough else 40, 10, SEED)
    for b in sims:
        acts = [s['action'] for s in b['steps']]
        if 'Poll' in acts and 'Publish' in acts:
            ck.distinct.add(vlib.beh_signature(b))
    # message path against a reader that stalls: spec/TransportFlow.tla (one unit of the model = 64 messages, channel of 2 x 64)
    def flow_cfg(spec, drop, msgs=6):
        return ('TransportFlow.cfg', '''SPECIFICATION %s
CONSTANTS Peers = {"p1", "p2"}  Self = "me"  MaxMsgs = %d  Cap = 2  DropWhenFull = %s
INVARIANTS Lossless
CHECK_DEADLOCK FALSE
''' % (spec, msgs, 'TRUE' if drop else 'FALSE'))
    fr = vlib.tlc_check('TransportFlow.tla', flow_cfg('Spec', False), 'C20-flow')
    ck.require_model_ok(fr, 'TransportFlow: Lossless with a waiting forwarder')
    flows = []
    fm = vlib.tlc_check('TransportFlow.tla', flow_cfg('SimSpec', True), 'C20-flow-mutant')
    ck.add_tlc(fm, 'TransportFlow with DropWhenFull (mutant specification)')
    if fm.get('violated') == 'Lossless' and fm.get('trace'):
        flows.append({'id': 'drop-when-full-counterexample', 'steps': fm['trace']})
    else:
        ck.inconclusive.append('mutant specification (DropWhenFull) not refuted by TLC: vacuity guard failed')
    fsims, _ = vlib.tlc_simulate('TransportFlow.tla', flow_cfg('SimSpec', False, 8), 'C20-flow-sim', 60 if thorough else 12, 24, SEED + 5)
    flows += fsims
    for b in flows:
        # non-trivial: the channel was full at some point (the forwarder had to wait)
        if any(len(s['state'].get('chan', [])) >= 2 and len(s['state'].get('wire', [])) > 0 for s in b['steps']):
            ck.distinct.add(vlib.beh_signature(b))
    inp = {'property': prop, 'seed': SEED, 'behaviours': sims, 'frames': True, 'names': 6 if thorough else 2, 'flows': flows, 'flow_unit': 64}
    res = vlib.run_vh('transport', inp, tag='C20', timeout=900 if not thorough else 3000)

    def payload(v):
        return {'command': 'transport', 'input': inp, 'violation': v}
    ck.add_harness(res, payload, 'transport')
    if not res.get('inconclusive') and not res.get('crashed'):
        ck.traces_validated += res.get('behaviours', 0)
    log('  transport: %d behaviours, %d steps, %d comparisons, %d violations' % (res.get('behaviours', 0), res.get('steps', 0), res.get('comparisons', 0), len(res['violations'])))
    return ck.finish()


def replay(prop, path):
    p = json.load(open(path))
    res = vlib.run_vh(p['command'], p['input'], tag='replay')
    vs = res.get('violations', [])
    for v in vs[:5]:
        log('VIOLATION property=%s replay=%s' % (prop, path))
        log('  kind=%s %s' % (v['kind'], v['detail']))
    return 1 if vs else (2 if res.get('inconclusive') else 0)
