"""C20: transport adapters, decided with spec/Transport.tla and the real
adapters driven through a scripted pubsub API / libp2p mocknet streams."""
import json, os, re
import vlib
from vlib import log, Check, SEED

FRAME_KINDS = '{"empty", "one", "max-1", "max", "max+1", "truncated", "overflow63", "overflow64"}'


def tr_cfg(peers, polls, msgs, frames):
    return ('Transport.cfg', '''SPECIFICATION Spec
CONSTANTS Peers = {%s}  Self = "me"  MaxPolls = %d  MaxMsgs = %d  MaxFrames = %d
  FrameKinds = %s
INVARIANTS MembershipExact NoOwnMessages OncePerMessage InOrder
CHECK_DEADLOCK FALSE
''' % (', '.join('"%s"' % p for p in peers), polls, msgs, frames, FRAME_KINDS))


def c20(prop, tier):
    ck = Check(prop, tier)
    thorough = tier == 'thorough'
    ck.rule = ('sequences of membership snapshots (lists over 2-3 peers, duplicates allowed) and interleaved publishes by the local and '
               'remote peers generated from spec/Transport.tla and fed to the real pubsubcoreapi adapter through a scripted PubSubAPI '
               '(gated polls); pairwise channels over the same scripted API (name symmetry for random peer ids, attribution, own messages); '
               'frames of sizes 0, 1, limit-1, limit, limit+1 and malformed frames over real libp2p streams (mocknet); '
               'non-trivial = behaviour with a membership change and a message')
    r = vlib.tlc_check('Transport.tla', tr_cfg(['p1', 'p2'], 3, 3, 2), 'C20-small')
    ck.require_model_ok(r, 'Transport: membership/messages/frames outcome')
    sims, _ = vlib.tlc_simulate('Transport.tla', tr_cfg(['p1', 'p2', 'p3'], 5, 5, 0), 'C20-sim', 200 if thorough else 40, 10, SEED)
    for b in sims:
        acts = [s['action'] for s in b['steps']]
        if 'Poll' in acts and 'Publish' in acts:
            ck.distinct.add(vlib.beh_signature(b))
    # message path against a reader that stalls: spec/TransportFlow.tla (one unit of the model = 64 messages, channel of 2 x 64)
    def flow_cfg(spec, drop, msgs=6):
        return ('TransportFlow.cfg', '''SPECIFICATION %s
CONSTANTS Peers = {"p1", "p2"}  Self = "me"  MaxMsgs = %d  Cap = 2  DropWhenFull = %s
INVARIANTS Lossless
CHECK_DEADLOCK FALSE
''' % (spec, msgs, 'TRUE' if drop else 'FALSE'))
    fr = vlib.tlc_check('TransportFlow.tla', flow_cfg('Spec', False), 'C20-flow')
    ck.require_model_ok(fr, 'TransportFlow: Lossless with a waiting forwarder')
    flows = []
    fm = vlib.tlc_check('TransportFlow.tla', flow_cfg('SimSpec', True), 'C20-flow-mutant')
    ck.add_tlc(fm, 'TransportFlow with DropWhenFull (mutant specification)')
    if fm.get('violated') == 'Lossless' and fm.get('trace'):
        flows.append({'id': 'drop-when-full-counterexample', 'steps': fm['trace']})
    else:
        ck.inconclusive.append('mutant specification (DropWhenFull) not refuted by TLC: vacuity guard failed')
    fsims, _ = vlib.tlc_simulate('TransportFlow.tla', flow_cfg('SimSpec', False, 8), 'C20-flow-sim', 60 if thorough else 12, 24, SEED + 5)
    flows += fsims
    for b in flows:
        # non-trivial: the channel was full at some point (the forwarder had to wait)
        if any(len(s['state'].get('chan', [])) >= 2 and len(s['state'].get('wire', [])) > 0 for s in b['steps']):
            ck.distinct.add(vlib.beh_signature(b))
    inp = {'property': prop, 'seed': SEED, 'behaviours': sims, 'frames': True, 'names': 6 if thorough else 2, 'flows': flows, 'flow_unit': 64}
    res = vlib.run_vh('transport', inp, tag='C20', timeout=900 if not thorough else 3000)

    def payload(v):
        return {'command': 'transport', 'input': inp, 'violation': v}
    ck.add_harness(res, payload, 'transport')
    if not res.get('inconclusive') and not res.get('crashed'):
        ck.traces_validated += res.get('behaviours', 0)
    log('  transport: %d behaviours, %d steps, %d comparisons, %d violations' % (res.get('behaviours', 0), res.get('steps', 0), res.get('comparisons', 0), len(res['violations'])))
    # pubsubraw over real libp2p gossipsub (mock network), free-running: its reports are recorded and validated against spec/TransportTrace.tla
    raw_trace(ck, prop, 40 if thorough else 8, 60 if thorough else 30)
    return ck.finish()


TT_CFG = ('TransportTrace.cfg', '''SPECIFICATION TraceSpec
CONSTANTS Self = "me"
POSTCONDITION TraceAccepted
CHECK_DEADLOCK FALSE
''')


def validate_raw(trace_path, tag):
    t = vlib.tlc_trace('TransportTrace.tla', TT_CFG, tag, trace_path)
    m = re.search(r'The depth of the complete state graph search is (\d+)', t['out'])
    t['line'] = int(m.group(1)) if m else None
    return t


def raw_trace(ck, prop, runs, steps):
    tp = os.path.join(vlib.WORK, 'jobs', 'C20-raw-%d.ndjson' % os.getpid())
    os.makedirs(os.path.dirname(tp), exist_ok=True)
    inp = {'property': prop, 'seed': SEED, 'runs': runs, 'steps': steps, 'trace_out': tp}
    res = vlib.run_vh('pubsubraw', inp, tag='C20-raw', timeout=900)
    ck.add_harness(res, lambda v: {'command': 'pubsubraw', 'input': dict(inp, trace_out=''), 'violation': v}, 'pubsubraw')
    lines = [l for l in open(tp)] if os.path.exists(tp) else []
    if lines and not res.get('violations'):
        t = validate_raw(tp, 'C20-raw-trace')
        ck.add_tlc(t, 'trace validation of the pubsubraw adapter (%d events)' % len(lines))
        if t['accepted']:
            ck.traces_validated += res.get('traces', 0)
            log('  pubsubraw: %d runs, %d events recorded, accepted by TransportTrace' % (res.get('traces', 0), len(lines)))
        elif 'Postcondition' in t['out'] and t['line'] and t['line'] <= len(lines):
            bad = lines[t['line'] - 1].strip()
            v = {'property': prop, 'kind': 'trace', 'detail': 'event %d of the recorded trace is not a step the specification allows after the events before it: %s' % (t['line'], bad)}
            ck.violations.append((None, v, {'command': 'transport-trace', 'trace': ''.join(lines)}))
        else:
            ck.inconclusive.append('trace validation of pubsubraw: TLC failed: %s' % t['out'][-500:])
    elif not lines:
        ck.inconclusive.append('pubsubraw recorded no trace')
    ck.extra['pubsubraw_events'] = len(lines)
    if os.path.exists(tp):
        os.remove(tp)


def replay(prop, path):
    p = json.load(open(path))
    if p.get('command') == 'transport-trace':
        tp = os.path.join(vlib.WORK, 'jobs', 'replay-raw.ndjson')
        os.makedirs(os.path.dirname(tp), exist_ok=True)
        open(tp, 'w').write(p['trace'])
        t = validate_raw(tp, 'replay-raw')
        if not t['accepted'] and 'Postcondition' in t['out']:
            log('VIOLATION property=%s replay=%s' % (prop, path))
            log('  kind=trace event %s of the recorded trace is not a step of TransportTrace' % t['line'])
            return 1
        return 0 if t['accepted'] else 2
    res = vlib.run_vh(p['command'], p['input'], tag='replay')
    vs = res.get('violations', [])
    for v in vs[:5]:
        log('VIOLATION property=%s replay=%s' % (prop, path))
        log('  kind=%s %s' % (v['kind'], v['detail']))
    return 1 if vs else (2 if res.get('inconclusive') else 0)
