# property id -> (module, function)
PROPS = {
    'C01': ('core_family', 'c01'),
    'C06': ('core_family', 'c06'),
    'C07': ('core_family', 'c07'),
    'C08': ('core_family', 'c08'),
}
PROPS['C16'] = ('sched_family', 'c16')
PROPS['C17'] = ('sched_family', 'c17')
PROPS['C05'] = ('sched_family', 'c05')
PROPS['C19'] = ('sched_family', 'c19')
PROPS['C11'] = ('sched_family', 'c11')
PROPS['C10'] = ('sched_family', 'c10')
PROPS['C15'] = ('core_family', 'c15')
PROPS['C13'] = ('core_family', 'c13')
PROPS['C03'] = ('auth_family', 'c03')
PROPS['C04'] = ('auth_family', 'c04')
PROPS['C12'] = ('wire_family', 'c12')
PROPS['C20'] = ('transport_family', 'c20')
PROPS['C14'] = ('registry_family', 'c14')
PROPS['C09'] = ('system_family', 'c09')
PROPS['C02'] = ('system_family', 'c02')
PROPS['C18'] = ('system_family', 'c18')
