# property id -> (module, function)
PROPS = {
    'C01': ('core_family', 'c01'),
    'C06': ('core_family', 'c06'),
    'C07': ('core_family', 'c07'),
    'C08': ('core_family', 'c08'),
}
