"""C03, C04: admission of entries, decided with spec/Auth.tla (admission table
model-checked by TLC) and real hostile entries built with a second keystore
(vh auth)."""
import json, os
import vlib
from vlib import log, Check, SEED


def auth_cfg(pinned):
    return ('Auth.cfg', '''SPECIFICATION Spec
CONSTANTS Ident = {"w1", "w2", "x"}
  Pinned = %s
  WriteLists <- WL
INVARIANTS Safe HonestOK
CHECK_DEADLOCK FALSE
''' % ('TRUE' if pinned else 'FALSE'))


def model(ck):
    r = vlib.tlc_check('MCAuth.tla', auth_cfg(False), ck.prop + '-auth')
    ck.require_model_ok(r, 'Auth admission table (every constructible entry x route x write list)')
    m = vlib.tlc_check('MCAuth.tla', auth_cfg(True), ck.prop + '-auth-pinned')
    ck.add_tlc(m, 'Auth with access controllers as pinned (mutant specification)')
    if m.get('violated') != 'Safe':
        ck.inconclusive.append('mutant specification (pinned access controllers) not refuted by TLC: vacuity guard failed')


def run_both(prop, inp, thorough):
    """Every case lets the replica either use fresh options or reuse the options value of another database it opened
    before; which cases do which alternates. The thorough tier runs the matrix both ways round."""
    res = vlib.run_vh('auth', inp, tag=prop, timeout=900 if not thorough else 3000)
    if thorough:
        r2 = vlib.run_vh('auth', dict(inp, flip_reuse=True), tag=prop + '-flip', timeout=3000)
        for v in r2.get('violations', []):
            v['flip_reuse'] = True
        for k in ('violations', 'inconclusive', 'notes'):
            res[k] = res.get(k, []) + r2.get(k, [])
        for k in ('behaviours', 'steps', 'comparisons'):
            res[k] = res.get(k, 0) + r2.get(k, 0)
        for k, v in r2.get('stats', {}).items():
            res['stats'][k] = res['stats'].get(k, 0) + v
    return res


def c03(prop, tier):
    ck = Check(prop, tier)
    thorough = tier == 'thorough'
    ck.rule = ('every (write list x route x forging class) case realised with real entries (second keystore, crafted identity blocks, '
               'foreign signing keys, colluding writer) delivered to a real replica between honest traffic; non-trivial = case '
               'with a hostile entry (class other than honest)')
    model(ck)
    inp = {'property': prop, 'seed': SEED, 'lists': ['explicit', 'wildcard', 'empty', 'creator'],
           'routes': ['local', 'announce', 'exchange', 'manual', 'ancestor'],
           'classes': ['honest', 'nonwriter', 'nonwriter-other-log', 'nonwriter-respelled-log', 'foreign-key-sig-respelled', 'copied-id', 'copied-id-of-receiver', 'copied-identity-block', 'foreign-key-sig', 'foreign-type'],
           'stores': ['kv', 'log', 'doc']}
    if not thorough:
        inp['lists'] = ['explicit', 'wildcard', 'empty']
    res = run_both(prop, inp, thorough)

    def payload(v):
        st, ls, rt, cl = v['behaviour'].split('/')
        return {'command': 'auth', 'input': dict(inp, lists=[ls], routes=[rt], classes=[cl], stores=[st], flip_reuse=v.get('flip_reuse', False)), 'violation': v}
    ck.add_harness(res, payload, 'auth cases')
    n = res.get('stats', {}).get('cases', 0)
    for i in range(res.get('behaviours', 0)):
        ck.distinct.add(i)
    if not res.get('inconclusive'):
        ck.traces_validated += res.get('behaviours', 0)
    log('  auth: %d cases, %d comparisons, %d violations' % (n, res['comparisons'], len(res['violations'])))
    return ck.finish()


def c04(prop, tier):
    ck = Check(prop, tier)
    thorough = tier == 'thorough'
    ck.rule = ('for a valid entry every single-field mutation of its wire form (15 fields) delivered as announced head with the '
               'original hash, as head with the hash recomputed, and as ancestor of a colluding head; the mutant is classified with '
               'the library\'s own encoder and verifier (hash matches? signature verifies? same database?) and must not be merged '
               'when the specification says so; the genuine entry must still be accepted afterwards')
    model(ck)
    inp = {'property': prop, 'seed': SEED, 'stores': ['kv', 'log', 'doc']}
    res = run_both(prop, inp, thorough)

    def payload(v):
        return {'command': 'auth', 'input': dict(inp, flip_reuse=v.get('flip_reuse', False)), 'violation': v}
    ck.add_harness(res, payload, 'tamper cases')
    for i in range(res.get('behaviours', 0)):
        ck.distinct.add(i)
    if not res.get('inconclusive'):
        ck.traces_validated += res.get('behaviours', 0)
    ck.extra['classes'] = {k: v for k, v in res.get('stats', {}).items() if k.startswith('class ')}
    log('  tamper: %d cases, %d violations, classes %s' % (res.get('stats', {}).get('cases', 0), len(res['violations']), ck.extra['classes']))
    return ck.finish()


def replay(prop, path):
    p = json.load(open(path))
    res = vlib.run_vh(p['command'], p['input'], tag='replay')
    vs = res.get('violations', [])
    for v in vs[:5]:
        log('VIOLATION property=%s replay=%s' % (prop, path))
        log('  kind=%s %s' % (v['kind'], v['detail']))
    return 1 if vs else (2 if res.get('inconclusive') else 0)
