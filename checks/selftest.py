"""check selftest [quick|thorough]: demonstrates the binding between specification
and code, guards against vacuity, and (thorough) replays every seeded change.

1. a trace recorded from the real code is accepted by CoreTrace; the same trace with
   one reported value corrupted, with one event removed, and with one event's input
   changed is rejected (named invariant / acceptance postcondition);
2. TLC -coverage: every action of the small configurations is taken at least once;
3. thorough: every patch under seeded/ is applied to a scratch copy of /repo's HEAD
   and the checks listed for it in seeded/index.json must exit 1."""
import json, os, re, shutil, subprocess
import vlib
from vlib import log, SEED
import core_family as cf


def record_trace(stype='kv'):
    bs, _ = vlib.tlc_simulate('SimCore.tla', cf.cfg_sim(stype, 5, 1), 'selftest-sim', 1, 6, SEED, rename=cf.RENAME)
    tp = os.path.join(vlib.WORK, 'jobs', 'selftest-trace.ndjson')
    os.makedirs(os.path.dirname(tp), exist_ok=True)
    inp = {'property': 'selftest', 'type': stype, 'replicas': ['a', 'b', 'c'], 'seed': SEED, 'behaviours': bs[:1], 'random': 2,
           'random_len': 14, 'trace_out': tp, 'final_sync': False, 'keys': cf.KEYS, 'vals': cf.VALS}
    res = vlib.run_vh('core', inp, tag='selftest')
    if res.get('violations') or res.get('inconclusive'):
        raise vlib.Inconclusive('selftest: recording run not clean: %s' % (res.get('violations') or res.get('inconclusive'))[:2])
    return tp


def validate(lines, tag):
    tp = os.path.join(vlib.WORK, 'jobs', 'selftest-%s.ndjson' % tag)
    open(tp, 'w').write('\n'.join(json.dumps(l) for l in lines) + '\n')
    t = vlib.tlc_trace('CoreTrace.tla', cf.cfg_trace('kv'), 'selftest-' + tag, tp)
    os.remove(tp)
    return t


def run(tier):
    vlib.build_harness()
    ok = True
    tp = record_trace()
    lines = [json.loads(l) for l in open(tp) if l.strip()]
    t = validate(lines, 'orig')
    log('selftest: recorded trace of %d events: %s' % (len(lines), 'accepted' if t['accepted'] else 'REJECTED'))
    ok &= t['accepted']
    # (a) one reported view value corrupted
    i = max(k for k, l in enumerate(lines) if l.get('ev') == 'Write' and 'index' in l)
    bad = json.loads(json.dumps(lines))
    key = sorted(bad[i]['index'])[0]
    bad[i]['index'][key] = 'v2' if bad[i]['index'][key] != 'v2' else 'v1'
    t = validate(bad, 'corrupt-view')
    log('selftest: view value of event %d corrupted -> %s' % (i + 1, t.get('violated') or ('accepted (BAD)' if t['accepted'] else 'rejected')))
    ok &= (t.get('violated') == 'ViewConforms')
    # (b) a reported Lamport time corrupted
    bad = json.loads(json.dumps(lines))
    bad[i]['t'] += 3
    t = validate(bad, 'corrupt-time')
    log('selftest: entry time of event %d corrupted -> %s' % (i + 1, t.get('violated') or ('accepted (BAD)' if t['accepted'] else 'rejected')))
    ok &= (t.get('violated') == 'EntryConforms')
    # (c) one Write event removed: later events no longer fit
    j = min(k for k, l in enumerate(lines) if l.get('ev') == 'Write')
    bad = lines[:j] + lines[j + 1:]
    t = validate(bad, 'dropped')
    log('selftest: event %d removed -> %s' % (j + 1, t.get('violated') or ('accepted (BAD)' if t['accepted'] else 'rejected')))
    ok &= not t['accepted']
    # (d) the input of a step changed (another replica named as the writer)
    bad = json.loads(json.dumps(lines))
    bad[i]['r'] = {'a': 'b', 'b': 'c', 'c': 'a'}[bad[i]['r']]
    t = validate(bad, 'wrong-writer')
    log('selftest: writer of event %d changed -> %s' % (i + 1, t.get('violated') or ('accepted (BAD)' if t['accepted'] else 'rejected')))
    ok &= not t['accepted']
    os.remove(tp)
    # coverage: no action of the small configurations is dead
    sf = __import__('sched_family')
    # in the repaired replicator no worker ever runs under a dead context: AcquireFail / FetchFail exist for the
    # pinned variant only, where they must be taken
    for module, cfg, what, allowed in [('MCCore.tla', cf.cfg_small('kv', ['a', 'b'], 3, 1), 'Core kv', set()),
                                       ('MCWritePath.tla', sf.wp_cfg('wp.cfg', 'Spec', 2, 2, True), 'WritePath', set()),
                                       ('MCReplicator.tla', sf.rp_cfg('rp.cfg', 'Spec', 'A', 2, 1, False), 'Replicator (repaired)', {'AcquireFail', 'FetchFail'}),
                                       ('MCReplicator.tla', sf.rp_cfg('rp.cfg', 'Spec', 'A', 2, 1, True, invs='SemOK'), 'Replicator (pinned variant)', set()),
                                       ('System.tla', __import__('system_family').sys_cfg('Spec', ['a', 'b'], 2, 1), 'System', set())]:
        r = vlib.tlc_check(module, cfg, 'selftest-cov', extra=['-coverage', '1'], timeout=900)
        dead = re.findall(r'<(\w+) line \d+, col \d+ to line \d+, col \d+ of module \w+>: 0:0', r['out'])
        dead = [d for d in dead if d not in ('Init',) and d not in allowed]
        log('selftest: coverage %s: %d distinct states, actions never taken: %s' % (what, r['distinct'], dead or 'none'))
        ok &= r['complete'] and not dead
    if tier == 'thorough':
        ok &= seeded_all()
    log('selftest: %s' % ('OK' if ok else 'FAILED'))
    return 0 if ok else 1


def seeded_all():
    """Applies every seeded patch to /repo (which must be clean), runs the checks that are
    recorded as detecting it, restores /repo. Returns True when every expected detection happens."""
    idx = json.load(open(os.path.join(vlib.ROOT, 'seeded', 'index.json')))
    if subprocess.run(['git', '-C', vlib.REPO, 'diff', '--quiet']).returncode != 0:
        log('selftest: /repo has uncommitted changes; seeded changes not replayed')
        return False
    ok = True
    for name in sorted(idx):
        patch = os.path.join(vlib.ROOT, 'seeded', name, 'patch.diff')
        want = [p for p, how in idx[name]['detected_by'].items() if 'exit 1' in how and not how.startswith('exit 0')]  # (texts of neutralised seeds start with 'exit 0' and mention an earlier 'exit 1')
        if not os.path.exists(patch) or not want:
            continue
        if subprocess.run(['git', '-C', vlib.REPO, 'apply', patch]).returncode != 0:
            log('selftest: seeded %s: patch does not apply' % name)
            ok = False
            continue
        try:
            for p in want:
                t = 'thorough' if 'thorough tier only' in idx[name]['detected_by'][p] else 'quick'
                rc = subprocess.run([os.path.join(vlib.ROOT, 'check'), p, t], capture_output=True, text=True).returncode
                log('selftest: seeded %-36s %s -> exit %d %s' % (name, p, rc, '' if rc == 1 else '(EXPECTED 1)'))
                ok &= rc == 1
        finally:
            subprocess.run(['git', '-C', vlib.REPO, 'checkout', '--', '.'])
    shutil.rmtree(os.path.join(vlib.ROOT, 'replays'), ignore_errors=True)
    return ok
