"""C12 (malformed messages), decided with spec/Wire.tla and concrete byte
strings per class delivered to a real instance; raw frames via vh transport."""
import json, os
import vlib
from vlib import log, Check, SEED

CLASSES = ['garbage', 'empty', 'json-not-object', 'heads-null', 'heads-empty', 'head-null', 'head-null-among-valid', 'head-empty-object',
           'head-no-identity', 'head-identity-null', 'head-identity-empty', 'head-identity-no-signatures', 'head-no-clock',
           'head-clock-null', 'head-no-hash', 'head-no-sig', 'head-no-key', 'head-no-payload', 'head-no-id', 'head-ill-typed',
           'heads-ill-typed', 'address-unknown', 'address-missing', 'address-ill-typed', 'huge-numbers', 'deep-nesting',
           'truncated-real', 'mutated-real', 'real-hash-alias', 'real-payload-changed', 'head-links-to-malformed-block',
           'real-identity-sig-changed', 'real-identity-keysig-changed']


def wire_cfg(nmal, nval):
    return ('Wire.cfg', '''SPECIFICATION Spec
CONSTANTS Channels = {"topic", "direct", "frame"}
  Classes = {%s}
  MaxMalformed = %d
  MaxValid = %d
INVARIANTS StaysAlive ValidCounted
PROPERTIES OnlyValidChanges
CHECK_DEADLOCK FALSE
''' % (', '.join('"%s"' % c for c in CLASSES), nmal, nval))


def c12(prop, tier):
    ck = Check(prop, tier)
    thorough = tier == 'thorough'
    ck.rule = ('sequences (malformed* valid)* of spec/Wire.tla over 33 message classes x {topic, direct} realised with seeded concrete '
               'byte strings (structural JSON mutations of a real message, random bytes, truncations, byte-level mutations) on a real '
               'instance holding two databases; raw stream frames through the real libp2p direct channel; a crash of the process is '
               'an observation; non-trivial = every case (each delivers at least one malformed message)')
    r = vlib.tlc_check('Wire.tla', wire_cfg(2, 2), 'C12-wire')
    ck.require_model_ok(r, 'Wire: outcome of every class is no change')
    sims, _ = vlib.tlc_simulate('Wire.tla', wire_cfg(3, 2), 'C12-sim', 600 if thorough else 25, 6, SEED)
    for b in sims:
        ck.distinct.add(vlib.beh_signature(b))
    inp = {'property': prop, 'seed': SEED, 'behaviours': sims, 'per_class': 25 if thorough else 1, 'classes': CLASSES}
    res = vlib.run_vh('wire', inp, tag='C12', timeout=900 if not thorough else 3000)

    def payload(v):
        return {'command': 'wire', 'input': inp, 'violation': v}
    ck.add_harness(res, payload, 'wire cases')
    if not res.get('inconclusive') and not res.get('crashed'):
        ck.traces_validated += res.get('behaviours', 0)
    log('  wire: %d behaviours, %d steps, %d violations' % (res.get('behaviours', 0), res.get('steps', 0), len(res['violations'])))
    # raw stream frames through the real libp2p direct channel (truncated, oversize, overflowing length prefixes)
    finp = {'property': prop, 'seed': SEED, 'behaviours': [], 'frames_only': True, 'names': 0}
    fres = vlib.run_vh('transport', finp, tag='C12-frames', timeout=600)
    ck.add_harness(fres, lambda v: {'command': 'transport', 'input': finp, 'violation': v}, 'frame cases')
    log('  frames: %d cases, %d violations' % (fres.get('steps', 0), len(fres['violations'])))
    return ck.finish()


def replay(prop, path):
    p = json.load(open(path))
    res = vlib.run_vh(p['command'], p['input'], tag='replay')
    vs = res.get('violations', [])
    for v in vs[:5]:
        log('VIOLATION property=%s replay=%s' % (prop, path))
        log('  kind=%s %s' % (v['kind'], v['detail']))
    return 1 if vs else (2 if res.get('inconclusive') else 0)
