"""C14: addresses and create/open/drop outcomes, decided with spec/Registry.tla
and real instances (vh registry)."""
import json
import vlib
from vlib import log, Check, SEED


def rg_cfg(ops):
    return ('Registry.cfg', '''SPECIFICATION Spec
CONSTANTS Inst = {"i1", "i2"}  Names = {"n1", "n2"}  Types = {"kv", "log"}  Lists <- ListsDef  MaxOps = %d
INVARIANTS OpenOnlyKnown Injective
PROPERTIES MarkerOnlyByCreate DropScoped
CHECK_DEADLOCK FALSE
''' % ops)


def c14(prop, tier):
    ck = Check(prop, tier)
    thorough = tier == 'thorough'
    ck.rule = ('sequences of Create/Open/Close/Drop over 2 instances, 2 names, 2 types, 3 write lists from spec/Registry.tla executed on '
               'real instances with names concretised from 8 classes; outcome (ok / exists / unknown), equality structure of the '
               'addresses, type and write list of every opened store and parse/print round trip compared; plus every name of every class '
               '(and names escaping into or looking like addresses) x 3 types x 2 write lists; non-trivial = behaviour with >=2 creates')
    r = vlib.tlc_check('MCRegistry.tla', rg_cfg(4 if thorough else 3), 'C14-small', timeout=900)
    ck.require_model_ok(r, 'Registry: marker state machine and address function')
    sims, _ = vlib.tlc_simulate('MCRegistry.tla', rg_cfg(7), 'C14-sim', 800 if thorough else 40, 8, SEED)
    for b in sims:
        if [s['action'] for s in b['steps']].count('Create') >= 2:
            ck.distinct.add(vlib.beh_signature(b))
    inp = {'property': prop, 'seed': SEED, 'behaviours': sims, 'name_cases': 0 if thorough else 8}
    res = vlib.run_vh('registry', inp, tag='C14', timeout=900 if not thorough else 3000)

    def payload(v):
        b = [x for x in sims if x['id'] == v['behaviour']]
        return {'command': 'registry', 'input': dict(inp, behaviours=b), 'violation': v}
    ck.add_harness(res, payload, 'registry')
    if not res.get('inconclusive') and not res.get('crashed'):
        ck.traces_validated += res.get('behaviours', 0)
    ck.extra['name_cases'] = res.get('stats', {}).get('name_cases', 0)
    ck.extra['names_refused'] = res.get('stats', {}).get('names_refused', 0)
    log('  registry: %d behaviours, %d steps, %d comparisons, name cases %d (refused %d), %d violations' % (
        res.get('behaviours', 0), res.get('steps', 0), res.get('comparisons', 0), ck.extra['name_cases'], ck.extra['names_refused'], len(res['violations'])))
    return ck.finish()


def replay(prop, path):
    p = json.load(open(path))
    res = vlib.run_vh(p['command'], p['input'], tag='replay')
    vs = res.get('violations', [])
    for v in vs[:5]:
        log('VIOLATION property=%s replay=%s' % (prop, path))
        log('  kind=%s %s' % (v['kind'], v['detail']))
    return 1 if vs else (2 if res.get('inconclusive') else 0)
