"""C01, C06, C07, C08: data semantics of the replicated log and its views,
decided with spec/Core.tla (TLC), replay of its behaviours into real replicas
(vh core) and validation of implementation traces (spec/CoreTrace.tla)."""
import json, os
import vlib
from vlib import log, Check, SEED

RENAME = {'SimInit': 'Init', 'SWrite': 'Write', 'SSync': 'Sync', 'SRestart': 'Restart'}
KEYS = ['k1', 'k2']
VALS = ['v1', 'v2']


def cfg_small(stype, writers, max_entries, restarts, props=True):
    reps = '{"a", "b", "c"}'
    ws = '{' + ', '.join('"%s"' % w for w in writers) + '}'
    return ('Core.%s.small.cfg' % stype, '''SPECIFICATION Spec
CONSTANTS
  Replica = %s
  Writer = %s
  StoreType = "%s"
  MaxEntries = %d
  MaxRestarts = %d
  Keys = {k1, k2}
  Vals = {v1, v2}
  NoVal = NoVal
  Rank <- RankDef
SYMMETRY KVSym
INVARIANTS TypeOK Convergence StampsUnique ViewMatches CausalOrder LogsClosed ClockIsMax Recoverable OwnOrder
%s
CHECK_DEADLOCK FALSE
''' % (reps, ws, stype, max_entries, restarts, 'PROPERTIES AppendOnly StableOrder' if props else ''))


def cfg_sim(stype, max_entries, restarts):
    return ('Core.%s.sim.cfg' % stype, '''SPECIFICATION SimSpec
CONSTANTS
  Replica = {"a", "b", "c"}
  Writer = {"a", "b", "c"}
  StoreType = "%s"
  MaxEntries = %d
  MaxRestarts = %d
  Keys = {k1, k2}
  Vals = {v1, v2}
  NoVal = NoVal
  Rank <- RankDef
INVARIANTS TypeOK Convergence ViewMatches CausalOrder
CHECK_DEADLOCK FALSE
''' % (stype, max_entries, restarts))


def cfg_trace(stype):
    return ('CoreTrace.%s.cfg' % stype, '''SPECIFICATION TraceSpec
CONSTANTS
  Replica = {"a", "b", "c"}
  Writer = {"a", "b", "c"}
  StoreType = "%s"
  MaxEntries = 100000
  MaxRestarts = 100000
  Keys = {"k1", "k2"}
  Vals = {"v1", "v2"}
  NoVal = "NoVal"
  Rank <- RankDef
INVARIANTS OrderConforms HeadsConform ViewConforms EntryConforms ViewMatches Convergence CausalOrder StampsUnique
POSTCONDITION TraceAccepted
CHECK_DEADLOCK FALSE
''' % stype)


# which violation kinds / trace invariants speak for which property
KINDS = {
    'C01': {'convergence', 'final-missing', 'sync-error'},
    'C06': {'view', 'view-error', 'write-error'},
    'C07': {'view', 'view-error', 'write-error', 'docget', 'docquery', 'delete-absent'},
    'C08': {'order', 'list', 'list-error', 'removed', 'reordered', 'window', 'get'},
}
KINDS['C15'] = {'limit-error', 'limit-all', 'limit-count', 'limit-phantom', 'limit-order', 'limit-newest', 'limit-recent', 'panic'}
KINDS['C13'] = {'snapshot-error', 'snapshot-mismatch', 'snapshot-silent', 'panic'}
KINDS['C01'] |= {'snapshot-silent'}
TRACE_INV = {
    'C01': {'Convergence'},
    'C06': {'ViewConforms', 'ViewMatches', 'CausalOrder'},
    'C07': {'ViewConforms', 'ViewMatches'},
    'C08': {'OrderConforms'},
    'C15': set(), 'C13': set(),
}


def nontrivial(b):
    acts = [s['action'] for s in b['steps']]
    writers = {s['args'][0] for s in b['steps'] if s['action'] == 'Write'}
    return 'Sync' in acts and len(writers) >= 2


def run_core(ck, prop, stype, tier, n_sim, depth, sim_entries, n_random, random_len, final_sync=False, small=None, timeout=900, extra=None):
    # (a) exhaustive model checking of the small configuration
    if small:
        r = vlib.tlc_check('MCCore.tla', small, '%s-%s-small' % (prop, stype), timeout=timeout)
        ck.require_model_ok(r, 'Core %s exhaustive' % stype)
        log('  TLC %s: %d distinct / %d generated, depth %d, %.0fs' % (small[0], r['distinct'], r['generated'], r['depth'], r['wall']))
    # (b) behaviours of the specification replayed into real replicas
    bs = []
    per = max(1, n_sim // 3)
    for k in range(3):
        b, _ = vlib.tlc_simulate('SimCore.tla', cfg_sim(stype, sim_entries, 2), '%s-%s-sim%d' % (prop, stype, k), per, depth, SEED * 101 + k, rename=RENAME)
        bs += b
    for b in bs:
        if nontrivial(b):
            ck.distinct.add(vlib.beh_signature(b))
    trace_path = os.path.join(vlib.WORK, 'jobs', '%s-%s-%d-trace.ndjson' % (prop, stype, os.getpid()))
    os.makedirs(os.path.dirname(trace_path), exist_ok=True)
    inp = {'property': prop, 'type': stype, 'replicas': ['a', 'b', 'c'], 'seed': SEED, 'behaviours': bs,
           'random': n_random, 'random_len': random_len, 'trace_out': trace_path, 'final_sync': final_sync,
           'keys': KEYS, 'vals': VALS}
    inp.update(extra or {})
    res = vlib.run_vh('core', inp, tag='%s-%s' % (prop, stype))
    allv = res.get('violations', [])
    res['violations'] = [v for v in allv if v['kind'] in KINDS[prop]]
    other = [v for v in allv if v['kind'] not in KINDS[prop]]
    if other:
        ck.notes.append('%d observation(s) outside this property (kinds %s) left to the checks of C01/C06/C07/C08' % (
            len(other), sorted({v['kind'] for v in other})))
    byid = {b['id']: b for b in bs}

    def payload(v):
        b = byid.get(v['behaviour'])
        one = dict(inp, behaviours=[b] if b else [], random=0 if b else n_random, trace_out='')
        return {'command': 'core', 'input': one, 'violation': v}
    ck.add_harness(res, payload, 'replay %s' % stype)
    ck.traces_validated += res.get('behaviours', 0) if not res.get('inconclusive') else 0
    log('  replay %s: %d behaviours, %d steps, %d comparisons, %d violations' % (stype, res['behaviours'], res['steps'], res['comparisons'], len(res['violations'])))
    # (c) implementation traces validated against the specification
    if n_random and res.get('trace_events', 0) > 0:
        t = vlib.tlc_trace('CoreTrace.tla', cfg_trace(stype), '%s-%s-trace' % (prop, stype), trace_path)
        ck.add_tlc(t, 'trace validation %s' % stype)
        if t['accepted']:
            ck.traces_validated += res.get('traces', 0)
            log('  trace validation %s: %d traces / %d events accepted' % (stype, res['traces'], res['trace_events']))
        elif t.get('violated'):
            inv = t['violated']
            line = t['trace'][-1]['state'].get('l') if t.get('trace') else None
            v = {'property': prop, 'kind': 'trace:' + inv, 'detail': 'implementation trace violates %s at event %s of %s' % (inv, line, trace_path)}
            if inv in TRACE_INV[prop]:
                ck.violations.append((None, v, {'command': 'core-trace', 'trace': open(trace_path).read(), 'invariant': inv, 'stype': stype}))
            else:
                ck.notes.append('trace validation: %s violated (outside this property)' % inv)
        else:
            ck.inconclusive.append('trace validation %s: trace rejected or TLC failed: %s' % (stype, t['out'][-600:]))
    if os.path.exists(trace_path):
        os.remove(trace_path)
    return res


def sizes(tier):
    if tier == 'thorough':
        return dict(n_sim=600, depth=22, sim_entries=8, n_random=60, random_len=25)
    return dict(n_sim=90, depth=16, sim_entries=6, n_random=12, random_len=16)


def c06(prop, tier):
    ck = Check(prop, tier)
    ck.rule = ('behaviours of spec/Core.tla (kv) generated by TLC simulation and replayed on 3 real replicas; the view (Get, All) '
               'of every replica is compared with the specification state after every step; non-trivial = distinct action '
               'sequence with >=2 writers and >=1 merge')
    ck.assumptions = ['block exchange, pubsub and direct channel are simulated (harness/sim); keys and values are concretised from VERIF_SEED']
    small = cfg_small('kv', ['a', 'b'] if tier == 'quick' else ['a', 'b', 'c'], 3, 1)
    res = run_core(ck, prop, 'kv', tier, small=small, extra={'load_sync': True}, **sizes(tier))
    ck.extra['load_then_sync'] = res.get('stats', {}).get('load_then_sync', 0)
    # "at every moment": the index update itself, with concurrent writers of one key and a batch (spec/IndexRace.tla)
    import sched_family
    sched_family.run_indexrace(ck, prop, tier)
    return ck.finish()


def c01(prop, tier):
    ck = Check(prop, tier)
    ck.rule = ('behaviours of spec/Core.tla for the three store types replayed on 3 real replicas with arbitrary stale/duplicate '
               'head sets per Sync, restarts, and a final phase in which every replica receives every entry; replicas holding '
               'the same entry set are compared pairwise (listing, heads, view); non-trivial = >=2 writers and >=1 merge')
    ck.assumptions = ['unique (time, writer) stamps: invariant StampsUnique holds in every state of the model']
    sz = sizes(tier)
    sz['n_sim'] = sz['n_sim'] // 2
    sz['n_random'] = max(4, sz['n_random'] // 2)
    for stype in ['kv', 'log', 'doc']:
        small = cfg_small(stype, ['a', 'b'], 3 if stype != 'doc' else 2, 1) if (tier == 'thorough' or stype == 'kv') else None
        # route "snapshot" of the property: the snapshot phase of C13, including a snapshot loaded by a store that already holds more
        res = run_core(ck, prop, stype, tier, final_sync=True, small=small, extra={'load_sync': True, 'snapshots': tier == 'thorough' or stype != 'doc'}, **sz)
        ck.extra['load_then_sync'] = ck.extra.get('load_then_sync', 0) + res.get('stats', {}).get('load_then_sync', 0)
    # a replica whose writes and merges overlapped against one that received the same entries one after the other (spec/IndexRace.tla)
    import sched_family
    sched_family.run_indexrace(ck, prop, tier)
    # route "load from disk" with limits on a live instance: a replica whose log was cut shows what its log holds (spec/HeadsCache.tla)
    sched_family.run_headscache(ck, prop, tier, 60 if tier == 'thorough' else 8)
    return ck.finish()


def c07(prop, tier):
    ck = Check(prop, tier)
    ck.rule = ('behaviours of spec/Core.tla (doc: Put, PutAll, Delete) replayed on 3 real replicas, Query/Get compared with the '
               'replay of the log after every step; non-trivial = >=2 writers and >=1 merge')
    small = cfg_small('doc', ['a', 'b'], 2 if tier == 'quick' else 3, 1)
    run_core(ck, prop, 'doc', tier, small=small, **sizes(tier))
    # Get with its options / Query / Delete of an absent key: table evaluated by TLC from spec/DocTable.tla, replayed row by row
    table, tr = vlib.tlc_table('DocTable.tla', 'C07-doctable', 'doc_table.json')
    ck.add_tlc(tr, 'DocTable: inclusion properties of Get options (ASSUME) and table of %d rows' % (len(table) if table else 0))
    if not table:
        ck.inconclusive.append('TLC did not produce the document Get table: ' + tr['out'][-500:])
    else:
        keys = sorted({''.join(k) for row in table for k in row['state']})
        inp = {'property': prop, 'seed': SEED, 'rows': table, 'all_keys': keys}
        res = vlib.run_vh('doctable', inp, tag='C07-doctable')
        ck.add_harness(res, lambda v: {'command': 'doctable', 'input': inp, 'violation': v}, 'document Get table')
        ck.extra['docget_queries'] = res.get('stats', {}).get('docget_queries', 0)
        log('  doctable: %d states, %d Get queries, %d violations' % (res.get('behaviours', 0), ck.extra['docget_queries'], len(res['violations'])))
    # "at every moment": Get and Query while writes rebuild the view (spec/ReadView.tla)
    import sched_family
    sched_family.run_tornread(ck, prop, tier)
    return ck.finish()


def c08(prop, tier):
    ck = Check(prop, tier)
    ck.rule = ('behaviours of spec/Core.tla (log) replayed on 3 real replicas; listing before/after every step compared with the '
               'specification order and checked for removals/reorderings; non-trivial = >=2 writers and >=1 merge')
    small = cfg_small('log', ['a', 'b', 'c'], 3 if tier == 'quick' else 4, 1)
    # the window operator: properties proved by TLC over every listing of <= 6 entries, every bound and amount; its table is replayed
    table, tr = vlib.tlc_table('WindowTable.tla', 'C08-window', 'window_table.json')
    ck.add_tlc(tr, 'Windows: contiguity/anchoring/length of every window (ASSUME) and table of %d rows' % (len(table) if table else 0))
    if not table:
        ck.inconclusive.append('TLC did not produce the window table: ' + tr['out'][-500:])
        table = []
    res = run_core(ck, prop, 'log', tier, small=small, extra={'windows': table}, **sizes(tier))
    ck.extra['window_queries'] = res.get('stats', {}).get('window_queries', 0)
    ck.extra['window_table_rows'] = len(table)
    ck.extra['writes_in_the_middle_of_a_merge'] = res.get('stats', {}).get('writes_in_the_middle_of_a_merge', 0)
    return ck.finish()


def limit_cfg(stype, entries):
    return ('CoreLimit.%s.cfg' % stype, '''SPECIFICATION LSpec
CONSTANTS
  Replica = {"a", "b"}
  Writer = {"a", "b"}
  StoreType = "%s"
  MaxEntries = %d
  MaxRestarts = 0
  Keys = {k1}
  Vals = {v1}
  NoVal = NoVal
  Rank <- RankDef
INVARIANTS LimitOK Recoverable
CHECK_DEADLOCK FALSE
''' % (stype, entries))


def c15(prop, tier):
    ck = Check(prop, tier)
    thorough = tier == 'thorough'
    ck.rule = ('for every replica of every replayed Core behaviour (single and several cached heads, local and replicated entries) a '
               'fresh instance is started on a copy of its durable state and Load(n) is run for every n from -2 to length+2, per call '
               'and through MaxHistory; result compared with the property (count, order, newest, single-writer exactness); '
               'non-trivial = behaviours with >=2 writers and a merge')
    r = vlib.tlc_check('MCCoreLimit.tla', limit_cfg('log', 5 if thorough else 4), 'C15-limit', timeout=1200)
    ck.require_model_ok(r, 'CoreLimit: Load(n) as coded vs LimitOK on every log of <= %d entries' % (5 if thorough else 4))
    log('  TLC CoreLimit: %d distinct / %d generated, %.0fs' % (r['distinct'], r['generated'], r['wall']))
    import sched_family
    sched_family.loadpath_model(ck, prop)
    sz = dict(n_sim=150 if thorough else 18, depth=16, sim_entries=7 if thorough else 6, n_random=0, random_len=0)
    for stype in (['log', 'kv', 'doc'] if thorough else ['log', 'kv']):
        res = run_core(ck, prop, stype, tier, extra={'load_limits': True}, **sz)
        ck.extra['limited_loads'] = ck.extra.get('limited_loads', 0) + res.get('stats', {}).get('limited_loads', 0)
    # limited loads on a live instance (after a full load, after another limited load, before and after writes and replications)
    sched_family.run_headscache(ck, prop, tier, 80 if thorough else 16)
    return ck.finish()


def snap_cfg(stype, entries):
    return ('CoreSnap.%s.cfg' % stype, '''SPECIFICATION SSpec
CONSTANTS
  Replica = {"a", "b"}
  Writer = {"a", "b"}
  StoreType = "%s"
  MaxEntries = %d
  MaxRestarts = 0
  Keys = {k1, k2}
  Vals = {v1, v2}
  BigVal = v2
  NoVal = NoVal
  Rank <- RankDef
INVARIANTS SnapOK
CHECK_DEADLOCK FALSE
''' % (stype, entries))


def c13(prop, tier):
    ck = Check(prop, tier)
    thorough = tier == 'thorough'
    ck.rule = ('for every replica of every replayed Core behaviour (empty, chain, fork, multi-writer, replicated entries, and once with '
               'a replication in progress) a snapshot is saved and loaded into a fresh store object on a copy of the durable state; '
               'value v2 is concretised to payloads of 37 KB..300 KB (beyond the 16-bit record length), others from 0 to 34 KB; '
               'outcome must be error, or ok with identical log/heads/view; non-trivial = >=2 writers and a merge')
    r = vlib.tlc_check('MCCoreSnap.tla', snap_cfg('kv', 3), 'C13-snap', timeout=900)
    ck.require_model_ok(r, 'CoreSnap: save/load outcome table on every log of <= 3 entries')
    sz = dict(n_sim=90 if thorough else 15, depth=14, sim_entries=6, n_random=0, random_len=0)
    for stype in (['kv', 'log', 'doc'] if thorough else ['kv', 'log']):
        res = run_core(ck, prop, stype, tier, extra={'snapshots': True, 'big_val': 'v2'}, **sz)
        for k in ('snapshots', 'snapshot_save_errors'):
            ck.extra[k] = ck.extra.get(k, 0) + res.get('stats', {}).get(k, 0)
    return ck.finish()


def replay(prop, path):
    p = json.load(open(path))
    if p.get('command') == 'headscache':
        import sched_family
        return sched_family.replay(prop, path)
    if p.get('command') == 'core':
        res = vlib.run_vh('core', p['input'], tag='replay')
        vs = [v for v in res.get('violations', []) if v['kind'] in KINDS.get(prop, set())]
        for v in vs[:5]:
            log('VIOLATION property=%s replay=%s' % (prop, path))
            log('  kind=%s %s' % (v['kind'], v['detail']))
        return 1 if vs else (2 if res.get('inconclusive') else 0)
    if p.get('command') in ('doctable', 'tornread'):
        res = vlib.run_vh(p['command'], p['input'], tag='replay')
        vs = res.get('violations', [])
        for v in vs[:5]:
            log('VIOLATION property=%s replay=%s' % (prop, path))
            log('  kind=%s %s' % (v['kind'], v['detail']))
        return 1 if vs else 0
    if p.get('command') == 'core-trace':
        tp = os.path.join(vlib.WORK, 'jobs', 'replay-trace.ndjson')
        os.makedirs(os.path.dirname(tp), exist_ok=True)
        open(tp, 'w').write(p['trace'])
        t = vlib.tlc_trace('CoreTrace.tla', cfg_trace(p['stype']), 'replay-trace', tp)
        if t.get('violated'):
            log('VIOLATION property=%s replay=%s' % (prop, path))
            return 1
        return 0 if t['accepted'] else 2
    return 2
