"""C09 (isolation), C02 (eventual delivery), C18 (close/drop): instance- and
network-level properties."""
import json
import vlib
from vlib import log, Check, SEED


def iso_cfg(dbs, ops):
    return ('Isolation.cfg', '''SPECIFICATION Spec
CONSTANTS DB = {%s}  Closed = {"d2"}  MaxOps = %d
INVARIANTS StatusIsCount
PROPERTIES NonInterference
CHECK_DEADLOCK FALSE
''' % (', '.join('"%s"' % d for d in dbs), ops))


def generic_replay(prop, path):
    p = json.load(open(path))
    res = vlib.run_vh(p['command'], p['input'], tag='replay')
    vs = res.get('violations', [])
    if p.get('kinds'):
        vs = [v for v in vs if v['kind'] in p['kinds']]
    for v in vs[:5]:
        log('VIOLATION property=%s replay=%s' % (prop, path))
        log('  kind=%s %s' % (v['kind'], v['detail']))
    return 1 if vs else (2 if res.get('inconclusive') else 0)


replay = generic_replay


def c09(prop, tier):
    ck = Check(prop, tier)
    thorough = tier == 'thorough'
    ck.rule = ('interleavings of local writes, remote writes, replications and reloads over 2-4 databases (kv, log, doc; explicit and '
               'wildcard write lists) of one real instance with the default shared event bus, generated from spec/Isolation.tla; before/after '
               'every step the contents, view, replication status, store events (by address) and messages sent (by topic/address) of every '
               'other database are compared; at the end every published message and store event is checked for foreign heads/entries; '
               'non-trivial = behaviour touching >=2 databases')
    dbs = ['d1', 'd2', 'd3']
    r = vlib.tlc_check('Isolation.tla', iso_cfg(dbs, 5 if thorough else 4), 'C09-small')
    ck.require_model_ok(r, 'Isolation: every action touches one database')
    bs = []
    for k, n in enumerate([2, 3, 4]):
        names = ['d1', 'd2', 'd3', 'd4'][:n]
        sims, _ = vlib.tlc_simulate('Isolation.tla', iso_cfg(names, 9), 'C09-sim%d' % n, 300 if thorough else 16, 12, SEED + k)
        for b in sims:
            b['dbs'] = names
        bs += sims
    # fixed behaviours (paths of the specification that random simulation meets only by chance): the remote writer is
    # accepted by an open database first, then its heads reach the database that does not name it
    for n in (2, 3, 4):
        names = ['d1', 'd2', 'd3', 'd4'][:n]
        for k, seq in enumerate([[('RemoteWrite', 'd1'), ('Replicate', 'd1'), ('RemoteWrite', 'd2'), ('Replicate', 'd2'), ('Write', 'd1')],
                                 [('Write', 'd2'), ('RemoteWrite', 'd1'), ('RemoteWrite', 'd2'), ('Replicate', 'd1'), ('Replicate', 'd2'), ('Reload', 'd2'), ('Write', 'd2')]]):
            steps = [{'action': 'Init', 'args': [], 'state': {}}] + [{'action': a, 'args': [d], 'state': {}} for a, d in seq]
            bs.append({'id': 'accepted-elsewhere-%d-%d' % (n, k), 'steps': steps, 'dbs': names})
    # the fourth database is the manifest of the first opened under another path (one root, two databases): writes of
    # each, then each loaded again
    for k, seq in enumerate([[('Write', 'd1'), ('Write', 'd4'), ('Reload', 'd1'), ('Write', 'd1'), ('Reload', 'd4'), ('Write', 'd4')],
                             [('RemoteWrite', 'd4'), ('Replicate', 'd4'), ('Write', 'd1'), ('Reload', 'd1'), ('RemoteWrite', 'd1'), ('Replicate', 'd1'), ('Reload', 'd4')]]):
        steps = [{'action': 'Init', 'args': [], 'state': {}}] + [{'action': a, 'args': [d], 'state': {}} for a, d in seq]
        bs.append({'id': 'one-root-two-paths-%d' % k, 'steps': steps, 'dbs': ['d1', 'd2', 'd3', 'd4']})
    for b in bs:
        if len({s['args'][0] for s in b['steps'] if s['args']}) >= 2:
            ck.distinct.add(vlib.beh_signature(b))
    total = {'behaviours': 0, 'steps': 0, 'comparisons': 0, 'violations': 0}
    for n in (2, 3, 4):
        sub = [b for b in bs if len(b['dbs']) == n]
        inp = {'property': prop, 'seed': SEED, 'dbs': ['d1', 'd2', 'd3', 'd4'][:n], 'closed': ['d2'], 'behaviours': sub}
        res = vlib.run_vh('isolation', inp, tag='C09-%d' % n, timeout=900 if not thorough else 3000)
        # a closed database that merges the remote writer's entry without that writer having been accepted elsewhere is C03's matter
        other = [v for v in res.get('violations', []) if v['kind'] == 'closed-db-merged']
        res['violations'] = [v for v in res.get('violations', []) if v['kind'] != 'closed-db-merged']
        if other:
            ck.notes.append('%d observation(s) of kind closed-db-merged left to C03' % len(other))

        def payload(v, inp=inp, sub=sub):
            b = [x for x in sub if x['id'] == v['behaviour']]
            return {'command': 'isolation', 'input': dict(inp, behaviours=b), 'violation': v}
        ck.add_harness(res, payload, 'isolation %d dbs' % n)
        if not res.get('inconclusive') and not res.get('crashed'):
            ck.traces_validated += res.get('behaviours', 0)
        for k in total:
            total[k] += len(res['violations']) if k == 'violations' else res.get(k, 0)
    log('  isolation: %(behaviours)d behaviours, %(steps)d steps, %(comparisons)d comparisons, %(violations)d violations' % total)
    return ck.finish()


# ---------------------------------------------------------------------------
# C02: eventual delivery

def sys_cfg(spec, reps, writes, faults, invs='Converged LogsSane CachesCover', props=''):
    return ('System.cfg', '''SPECIFICATION %s
CONSTANTS Replica = {%s}  MaxWrites = %d  MaxFaults = %d
INVARIANTS %s
%s
CHECK_DEADLOCK FALSE
''' % (spec, ', '.join('"%s"' % r for r in reps), writes, faults, invs, ('PROPERTIES ' + props) if props else ''))


SYS_RENAME = {'SWrite': 'Write', 'SReceive': 'Receive', 'SObserveJoin': 'ObserveJoin', 'SCut': 'Cut', 'SHeal': 'Heal', 'SDrop': 'Drop',
              'SRestart': 'Restart', 'SFinalize': 'Finalize'}
SYS_RENAME.update({'H' + k[1:]: v for k, v in list(SYS_RENAME.items())})
SYS_RENAME['HReplicate'] = 'Replicate'


def c02(prop, tier):
    ck = Check(prop, tier)
    thorough = tier == 'thorough'
    ck.rule = ('behaviours of spec/System.tla (writes on 2-4 replicas interleaved with link cuts and heals, dropped, duplicated and '
               'reordered announcements and exchanges, restarts) executed on real replicas over the simulated network with every '
               'message and notification under driver control, then the final phase (all links up, every pair observes the other, '
               'messages delivered in seeded random order) run to rest and every replica compared with the set of acknowledged '
               'writes; non-trivial = behaviour with at least one fault')
    ck.assumptions = ['final phase as in the property: every link is up and every ordered pair of replicas observes the other joining the topic once more',
                      'blocks held by a connected peer are fetchable (simulated block exchange)']
    r = vlib.tlc_check('System.tla', sys_cfg('Spec', ['a', 'b'], 2 if not thorough else 3, 2), 'C02-safety', timeout=1500)
    ck.require_model_ok(r, 'System safety, 2 replicas')
    log('  TLC System safety: %d distinct / %d generated, %.0fs' % (r['distinct'], r['generated'], r['wall']))
    r = vlib.tlc_check('System.tla', sys_cfg('FairSpec', ['a', 'b'], 2, 1, invs='Converged', props='Eventually'), 'C02-live', timeout=1500)
    ck.require_model_ok(r, 'System liveness under fairness, 2 replicas')
    bs = []
    for k, reps in enumerate([['a', 'b'], ['a', 'b', 'c'], ['a', 'b', 'c', 'd']]):
        sims, _ = vlib.tlc_simulate('SimSystem.tla', sys_cfg('SimSpec', reps, 3, 3, invs='LogsSane'), 'C02-sim%d' % k,
                                    (120 if thorough else 12) if len(reps) < 4 else (40 if thorough else 4), 30, SEED * 17 + k, rename=SYS_RENAME)
        for b in sims:
            b['reps'] = reps
        bs += sims
    # directed behaviours: shortest behaviours reaching a situation in which one particular mechanism has to deliver an entry
    for trap, reps in (('NoTrap1', ['a', 'b']), ('NoTrap2', ['a', 'b', 'c']), ('NoTrap3', ['a', 'b']), ('NoTrap4', ['a', 'b']), ('NoTrap5', ['a', 'b'])):
        hist = trap in ('NoTrap4', 'NoTrap5')
        t = vlib.tlc_check('SimSystemH.tla' if hist else 'SimSystem.tla', sys_cfg('HSpec' if hist else 'SimSpec', reps, 3 if not hist else 2, 3, invs=trap), 'C02-' + trap, timeout=600)
        ck.add_tlc(t, 'trap property %s (witness behaviour wanted)' % trap)
        if t.get('violated') == trap and t.get('trace'):
            for st in t['trace']:
                st['action'] = SYS_RENAME.get(st['action'], st['action'])
            bs.append({'id': 'witness-' + trap, 'steps': t['trace'], 'reps': reps})
        else:
            ck.inconclusive.append('TLC found no witness for %s within the bounds' % trap)
    for b in bs:
        if any(s['action'] in ('Cut', 'Drop', 'Restart') or (s['action'] == 'Receive' and s['args'][1] is True) for s in b['steps']):
            ck.distinct.add(vlib.beh_signature(b))
    tot = {'behaviours': 0, 'steps': 0, 'comparisons': 0, 'violations': 0, 'drift': 0}
    for n in (2, 3, 4):
        sub = [b for b in bs if len(b['reps']) == n]
        inp = {'property': prop, 'seed': SEED, 'replicas': ['a', 'b', 'c', 'd'][:n], 'behaviours': sub}
        res = vlib.run_vh('system', inp, tag='C02-%d' % n, timeout=900 if not thorough else 3000)

        def payload(v, inp=inp, sub=sub):
            b = [x for x in sub if x['id'] == v['behaviour']]
            return {'command': 'system', 'input': dict(inp, behaviours=b), 'violation': v}
        ck.add_harness(res, payload, 'system %d replicas' % n)
        if not res.get('inconclusive') and not res.get('crashed'):
            ck.traces_validated += res.get('behaviours', 0)
        for k in tot:
            tot[k] += len(res['violations']) if k == 'violations' else (res.get('stats', {}).get('drift', 0) if k == 'drift' else res.get(k, 0))
    log('  system: %(behaviours)d behaviours, %(steps)d steps, %(comparisons)d comparisons, %(violations)d violations, drift %(drift)d' % tot)
    return ck.finish()


# ---------------------------------------------------------------------------
# C18: close and drop

def lc_cfg():
    return ('Lifecycle.cfg', '''SPECIFICATION Spec
CONSTANTS CloseKinds = {"store", "store-twice", "instance", "instance-twice", "instance-cancelled", "drop"}
  PostOps = {"put", "get", "load", "sync", "close", "drop", "subscribe", "reopen-and-drop"}
INVARIANTS NothingLeftRunning DataSurvives
CHECK_DEADLOCK FALSE
''')


def c18(prop, tier):
    import os
    ck = Check(prop, tier)
    thorough = tier == 'thorough'
    ck.rule = ('moments of spec/Lifecycle.tla (writer at append|persist|index|emit, replication waiting for a slot|fetching|fetched|joining|'
               'indexed|persisted, load at its head or waiting for a block nobody holds) reached on a real instance with on-disk LevelDB directories by gates; then Close, '
               'Close twice, instance Close (once, twice, after its context ended) or Drop; after a store Close the database is opened again and the closed handle dropped; goroutines started since the store was opened are identified by id and '
               'must be gone; operations after close run under a watchdog; the directory is reopened; a sibling database is checked; '
               'non-trivial = moment with at least one activity in flight')
    r = vlib.tlc_check('Lifecycle.tla', lc_cfg(), 'C18-small')
    ck.require_model_ok(r, 'Lifecycle: moments x close kinds x later operations')
    # the cache manager and its mutex (Load / Close / Destroy from several goroutines): nobody waits for a lock it holds itself
    def cm_cfg(nested):
        return ('CacheManager.cfg', 'SPECIFICATION Spec\nCONSTANTS Proc = {1, 2, 3} Path = {"a", "b"} NestedClose = %s\nINVARIANTS NoSelfWait LockSane\nCHECK_DEADLOCK FALSE\n' % ('TRUE' if nested else 'FALSE'))
    cm = vlib.tlc_check('CacheManager.tla', cm_cfg(False), 'C18-cm')
    ck.require_model_ok(cm, 'CacheManager: Load / Close / Destroy under one mutex, 3 goroutines, 2 paths')
    cmm = vlib.tlc_check('CacheManager.tla', cm_cfg(True), 'C18-cm-mutant')
    ck.add_tlc(cmm, 'CacheManager with Destroy closing under the mutex (mutant specification)')
    if cmm.get('violated') != 'NoSelfWait':
        ck.inconclusive.append('mutant specification (CacheManager, nested close) not refuted by TLC: vacuity guard failed')
    sims, _ = vlib.tlc_simulate('Lifecycle.tla', lc_cfg(), 'C18-sim', 500 if thorough else 140, 24, SEED)
    # keep one behaviour per (moment, close kind); behaviours that never close are of no use
    seen, bs = set(), []
    for b in sims:
        last = b['steps'][-1]['state']
        if last['kind'] == 'none':
            continue
        key = (last['w'], last['r'], last['l'], last['kind'])
        if key in seen:
            continue
        seen.add(key)
        bs.append(b)
        if last['w'] > 1 or last['r'] > 1 or last['l'] > 1:
            ck.distinct.add(key)
    bs = bs[:(200 if thorough else 28)]
    tmp = os.path.join(vlib.WORK, 'tmp')
    os.makedirs(tmp, exist_ok=True)
    inp = {'property': prop, 'seed': SEED, 'tmp_dir': tmp, 'behaviours': bs}
    res = vlib.run_vh('lifecycle', inp, tag='C18', timeout=900 if not thorough else 3000)

    def payload(v):
        b = [x for x in bs if x['id'] == v['behaviour']]
        return {'command': 'lifecycle', 'input': dict(inp, behaviours=b), 'violation': v}
    ck.add_harness(res, payload, 'lifecycle')
    if not res.get('inconclusive') and not res.get('crashed'):
        ck.traces_validated += res.get('behaviours', 0)
    st = res.get('stats', {})
    for k in ('sibling_replications_after_close', 'drop_of_closed_handle_after_reopen', 'loads_waiting_for_a_block'):
        ck.extra[k] = st.get(k, 0)
    log('  lifecycle: %d moments, %d comparisons, %d violations (sibling replications after a close %d, drops after reopen %d, loads waiting for a block %d)' % (
        res.get('behaviours', 0), res.get('comparisons', 0), len(res['violations']), st.get('sibling_replications_after_close', 0),
        st.get('drop_of_closed_handle_after_reopen', 0), st.get('loads_waiting_for_a_block', 0)))
    return ck.finish()
