"""C09 (isolation), C02 (eventual delivery), C18 (close/drop): instance- and
network-level properties."""
import json
import vlib
from vlib import log, Check, SEED


def iso_cfg(dbs, ops):
    return ('Isolation.cfg', '''SPECIFICATION Spec
CONSTANTS DB = {%s}  MaxOps = %d
INVARIANTS StatusIsCount
PROPERTIES NonInterference
CHECK_DEADLOCK FALSE
''' % (', '.join('"%s"' % d for d in dbs), ops))


def generic_replay(prop, path):
    p = json.load(open(path))
    res = vlib.run_vh(p['command'], p['input'], tag='replay')
    vs = res.get('violations', [])
    if p.get('kinds'):
        vs = [v for v in vs if v['kind'] in p['kinds']]
    for v in vs[:5]:
        log('VIOLATION property=%s replay=%s' % (prop, path))
        log('  kind=%s %s' % (v['kind'], v['detail']))
    return 1 if vs else (2 if res.get('inconclusive') else 0)


replay = generic_replay


def c09(prop, tier):
    ck = Check(prop, tier)
    thorough = tier == 'thorough'
    ck.rule = ('interleavings of local writes, remote writes, replications and reloads over 2-4 databases (kv, log, doc; explicit and '
               'wildcard write lists) of one real instance with the default shared event bus, generated from spec/Isolation.tla; before/after '
               'every step the contents, view, replication status, store events (by address) and messages sent (by topic/address) of every '
               'other database are compared; at the end every published message and store event is checked for foreign heads/entries; '
               'non-trivial = behaviour touching >=2 databases')
    dbs = ['d1', 'd2', 'd3']
    r = vlib.tlc_check('Isolation.tla', iso_cfg(dbs, 5 if thorough else 4), 'C09-small')
    ck.require_model_ok(r, 'Isolation: every action touches one database')
    bs = []
    for k, n in enumerate([2, 3, 4]):
        names = ['d1', 'd2', 'd3', 'd4'][:n]
        sims, _ = vlib.tlc_simulate('Isolation.tla', iso_cfg(names, 9), 'C09-sim%d' % n, 60 if thorough else 8, 10, SEED + k)
        for b in sims:
            b['dbs'] = names
        bs += sims
    for b in bs:
        if len({s['args'][0] for s in b['steps'] if s['args']}) >= 2:
            ck.distinct.add(vlib.beh_signature(b))
    total = {'behaviours': 0, 'steps': 0, 'comparisons': 0, 'violations': 0}
    for n in (2, 3, 4):
        sub = [b for b in bs if len(b['dbs']) == n]
        inp = {'property': prop, 'seed': SEED, 'dbs': ['d1', 'd2', 'd3', 'd4'][:n], 'behaviours': sub}
        res = vlib.run_vh('isolation', inp, tag='C09-%d' % n, timeout=900 if not thorough else 3000)

        def payload(v, inp=inp, sub=sub):
            b = [x for x in sub if x['id'] == v['behaviour']]
            return {'command': 'isolation', 'input': dict(inp, behaviours=b), 'violation': v}
        ck.add_harness(res, payload, 'isolation %d dbs' % n)
        if not res.get('inconclusive') and not res.get('crashed'):
            ck.traces_validated += res.get('behaviours', 0)
        for k in total:
            total[k] += len(res['violations']) if k == 'violations' else res.get(k, 0)
    log('  isolation: %(behaviours)d behaviours, %(steps)d steps, %(comparisons)d comparisons, %(violations)d violations' % total)
    return ck.finish()
