#!/bin/sh
# runs every claimed check of the given tier; prints one line per property
tier=${1:-quick}
cd "$(dirname "$0")"
for i in 01 02 03 04 05 06 07 08 09 10 11 12 13 14 15 16 17 18 19 20; do
  s=$(date +%s)
  out=$(timeout 3600 ./check C$i $tier 2>&1); rc=$?
  e=$(date +%s)
  echo "C$i rc=$rc $((e-s))s $(echo "$out" | grep -E 'VIOLATION|INCONCLUSIVE|KNOWN-FINDING' | head -3 | tr '\n' ' ' | cut -c1-300)"
done
