------------------------------ MODULE Lifecycle ------------------------------
(***************************************************************************)
(* C18: closing and dropping, relative to in-flight activity.               *)
(* One store with one local writer (AddOperation), one replication          *)
(* (Sync -> replicator worker -> replicationLoadComplete) and one Load in   *)
(* progress, each held at one of its critical-section boundaries, next to a *)
(* sibling database of the same instance.  Close / Close;Close / instance   *)
(* Close (once or twice) / Drop is issued at that moment; then the held     *)
(* goroutines continue, and operations are called on the closed store.      *)
(* Specified: every activity started by the store ends; every later call    *)
(* returns (error or harmless result); reopening the directory shows all    *)
(* acknowledged data (unless dropped); the sibling is untouched.            *)
(***************************************************************************)
EXTENDS Naturals, Sequences, FiniteSets

CONSTANTS CloseKinds, PostOps

WPcs == <<"idle", "appended", "persisted", "indexed", "emitted">>
RPcs == <<"none", "waiting-slot", "fetching", "fetched", "joining", "joined-indexed", "persisted">>
\* (the third position: the block of the head being loaded is held by nobody, the load waits for it)
LPcs == <<"none", "loading-head", "waiting-for-block">>

VARIABLES w, r, l,        \* positions (indices into the sequences above)
          phase,          \* "running" | "closed" | "released" | "reopened"
          kind,           \* how it was closed
          acked,          \* writes acknowledged before the close (0 or 1 here: the seed write) - data that must survive
          alive,          \* background activities still running
          posts           \* operations called after the close

vars == <<w, r, l, phase, kind, acked, alive, posts>>

Init == w = 1 /\ r = 1 /\ l = 1 /\ phase = "running" /\ kind = "none" /\ acked = 1 /\ alive = {"mainloop", "listeners"} /\ posts = {}

AdvanceW == phase = "running" /\ w < Len(WPcs) /\ w' = w + 1 /\ alive' = alive \cup {"writer"} /\ UNCHANGED <<r, l, phase, kind, acked, posts>>
AdvanceR == phase = "running" /\ r < Len(RPcs) /\ r' = r + 1 /\ alive' = alive \cup {"replication"} /\ UNCHANGED <<w, l, phase, kind, acked, posts>>
AdvanceL == phase = "running" /\ l < Len(LPcs) /\ l' = l + 1 /\ alive' = alive \cup {"load"} /\ UNCHANGED <<w, r, phase, kind, acked, posts>>

Close(k) == /\ phase = "running" /\ phase' = "closed" /\ kind' = k
            /\ UNCHANGED <<w, r, l, acked, alive, posts>>

\* the goroutines held at their gates continue: everything the store started comes to an end
Release == /\ phase = "closed" /\ phase' = "released"
           /\ alive' = {}
           /\ UNCHANGED <<w, r, l, kind, acked, posts>>

Post(op) == /\ phase = "released" /\ op \notin posts
            /\ posts' = posts \cup {op}
            /\ UNCHANGED <<w, r, l, phase, kind, acked, alive>>

Reopen == /\ phase = "released" /\ phase' = "reopened"
          /\ UNCHANGED <<w, r, l, kind, acked, alive, posts>>

Next == AdvanceW \/ AdvanceR \/ AdvanceL \/ (\E k \in CloseKinds : Close(k)) \/ Release \/ (\E op \in PostOps : Post(op)) \/ Reopen
Spec == Init /\ [][Next]_vars

NothingLeftRunning == phase \in {"released", "reopened"} => alive = {}
\* "reopen-and-drop" (after Close of the store): the database is opened again on the same instance and the closed
\* handle is dropped; Drop returns and removes the local data of that database
DataSurvives == (phase = "reopened" /\ kind # "drop" /\ "reopen-and-drop" \notin posts) => acked = 1
=============================================================================
