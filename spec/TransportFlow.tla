--------------------------- MODULE TransportFlow ---------------------------
(***************************************************************************)
(* C20, message path of the pubsub adapter (pubsubcoreapi WatchMessages):   *)
(* the underlying subscription is a FIFO (wire); one goroutine takes the    *)
(* next message, drops it when it is the local peer's own, and otherwise    *)
(* puts it into a channel of Cap slots, waiting while the channel is full;  *)
(* the application reads the channel at its own pace.                       *)
(* DropWhenFull = TRUE is the variant in which the goroutine does not wait  *)
(* (mutant specification: TLC must refute Lossless).                        *)
(* One unit of the model (one message, one slot) stands for Unit messages   *)
(* of the real adapter, whose channel has Cap * Unit slots.                 *)
(***************************************************************************)
EXTENDS Naturals, Sequences, SequencesExt

CONSTANTS Peers, Self, MaxMsgs, Cap, DropWhenFull

VARIABLES wire,    \* messages published and not yet taken by the adapter: <<sender, id>>
          chan,    \* the adapter's buffered channel
          inbox,   \* what the application has read
          pub      \* everything published so far (history)

vars == <<wire, chan, inbox, pub>>

Init == wire = <<>> /\ chan = <<>> /\ inbox = <<>> /\ pub = <<>>

Publish(p) == /\ Len(pub) < MaxMsgs
              /\ pub' = Append(pub, <<p, Len(pub) + 1>>)
              /\ wire' = Append(wire, <<p, Len(pub) + 1>>)
              /\ UNCHANGED <<chan, inbox>>

\* the adapter's goroutine handles the next message of the subscription
Forward == /\ wire # <<>>
           /\ LET m == Head(wire) IN
              IF m[1] = Self THEN wire' = Tail(wire) /\ UNCHANGED chan
              ELSE IF Len(chan) < Cap THEN wire' = Tail(wire) /\ chan' = Append(chan, m)
              ELSE DropWhenFull /\ wire' = Tail(wire) /\ UNCHANGED chan
           /\ UNCHANGED <<inbox, pub>>

Read == /\ chan # <<>>
        /\ inbox' = Append(inbox, Head(chan))
        /\ chan' = Tail(chan)
        /\ UNCHANGED <<wire, pub>>

Next == (\E p \in Peers \cup {Self} : Publish(p)) \/ Forward \/ Read
Spec == Init /\ [][Next]_vars

\* behaviours the harness can force: the adapter's goroutine is not gated, it forwards as soon as it can
CanForward == wire # <<>> /\ (Head(wire)[1] = Self \/ Len(chan) < Cap \/ DropWhenFull)
SPublish(p) == ~CanForward /\ Publish(p)
SRead == ~CanForward /\ Read
SimNext == (\E p \in Peers \cup {Self} : SPublish(p)) \/ Forward \/ SRead
SimSpec == Init /\ [][SimNext]_vars

Remote(s) == SelectSeq(s, LAMBDA m : m[1] # Self)
\* everything remote peers have published is, in publication order, what was read, then what waits in the
\* channel, then what waits on the wire: nothing lost, duplicated or reordered, and nothing of the local peer
Lossless == inbox \o chan \o Remote(wire) = Remote(pub)
=============================================================================
