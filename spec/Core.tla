------------------------------- MODULE Core -------------------------------
(***************************************************************************)
(* Replicas of one database: histories, merge routes, restart.             *)
(*                                                                         *)
(* Entries are created only by Write from the writer's current view, so     *)
(* every causal shape (chain, fork, merge) up to the bound is generated.    *)
(* Sync(r, H) is the common abstraction of every merge route of the code    *)
(* (announced heads, head exchange on connect, manual Sync): the replica    *)
(* receives a set H of entries, fetches their ancestry and joins it.  The   *)
(* step-by-step replicator is specified in Replicator.tla; its result is    *)
(* this atomic step (set union, heads recomputed, clock raised).           *)
(***************************************************************************)
EXTENDS LogAlgebra, TLC

CONSTANTS Replica,       \* all replicas
          Writer,        \* replicas that write (subset of Replica)
          StoreType,     \* "kv" | "doc" | "log"
          MaxEntries,
          MaxRestarts

VARIABLES ent,           \* sequence of entries ever written; id = position
          log,           \* replica -> set of entry ids
          clock,         \* replica -> Lamport clock of its log object
          index,         \* replica -> materialised view (kv/doc), as the code maintains it
          cacheLocal,    \* replica -> persisted "_localHeads"
          cacheRemote,   \* replica -> persisted "_remoteHeads"
          restarts

vars == <<ent, log, clock, index, cacheLocal, cacheRemote, restarts>>

Ids == 1..Len(ent)

Ops == CASE StoreType = "kv"  -> {PutOp(k, v) : k \in Keys, v \in Vals} \cup {DelOp(k) : k \in Keys}
         [] StoreType = "doc" -> {PutOp(k, v) : k \in Keys, v \in Vals} \cup {DelOp(k) : k \in Keys}
                                  \cup {PutAllOp(d) : d \in UNION {[S -> Vals] : S \in SUBSET Keys \ {{}}}}
         [] OTHER             -> {AddOp(v) : v \in Vals}

Init == /\ ent = <<>>
        /\ log = [r \in Replica |-> {}]
        /\ clock = [r \in Replica |-> 0]
        /\ index = [r \in Replica |-> EmptyIndex]
        /\ cacheLocal = [r \in Replica |-> {}]
        /\ cacheRemote = [r \in Replica |-> {}]
        /\ restarts = 0

\* documentstore Delete refuses a key absent from the current view
OpAllowed(r, op) == ~(StoreType = "doc" /\ op.kind = "DEL" /\ index[r][op.k] = NoVal)

(* AddOperation: append (log lock) -> persist _localHeads -> update view.   *)
Write(r, op) ==
    /\ Len(ent) < MaxEntries
    /\ OpAllowed(r, op)
    /\ LET e  == NewEntry(ent, log[r], clock[r], r, op)
           id == Len(ent) + 1
           en == Append(ent, e)
       IN  /\ ent' = en
           /\ log' = [log EXCEPT ![r] = @ \cup {id}]
           /\ clock' = [clock EXCEPT ![r] = e.t]
           /\ index' = [index EXCEPT ![r] = UpdateIndex(en, @, Order(en, log[r] \cup {id}))]
           /\ cacheLocal' = [cacheLocal EXCEPT ![r] = {id}]
    /\ UNCHANGED <<cacheRemote, restarts>>

(* Sync -> Replicator.Load -> replicationLoadComplete.  Nothing happens     *)
(* (no batch, no cache write) when every received entry is already known.  *)
Sync(r, H) ==
    /\ H # {} /\ H \subseteq Ids
    /\ LET new == Anc(ent, H) \ log[r]
           L   == log[r] \cup new
       IN  /\ new # {}
           /\ log' = [log EXCEPT ![r] = L]
           /\ clock' = [clock EXCEPT ![r] = MaxOf({@, MaxT(ent, Heads(ent, L))})]
           /\ index' = [index EXCEPT ![r] = UpdateIndex(ent, @, Order(ent, L))]
           /\ cacheRemote' = [cacheRemote EXCEPT ![r] = Heads(ent, L)]
    /\ UNCHANGED <<ent, cacheLocal, restarts>>

(* Close, reopen from the same directory, Load(-1): volatile state is       *)
(* rebuilt from the two cached head lists and the local blocks.            *)
Restart(r) ==
    /\ restarts < MaxRestarts
    /\ restarts' = restarts + 1
    /\ LET L == Anc(ent, cacheLocal[r] \cup cacheRemote[r])
       IN  /\ log' = [log EXCEPT ![r] = L]
           /\ clock' = [clock EXCEPT ![r] = MaxT(ent, L)]
           /\ index' = [index EXCEPT ![r] = UpdateIndex(ent, EmptyIndex, Order(ent, L))]
    /\ UNCHANGED <<ent, cacheLocal, cacheRemote>>

Next == \/ \E r \in Writer, op \in Ops : Write(r, op)
        \/ \E r \in Replica, H \in SUBSET (1..MaxEntries) : Sync(r, H)
        \/ \E r \in Replica : Restart(r)

Spec == Init /\ [][Next]_vars

(* ---------------------------- properties -------------------------------- *)
TypeOK == /\ \A r \in Replica : log[r] \subseteq Ids
          /\ \A i \in Ids : ent[i].nx \subseteq 1..(i-1) /\ ent[i].rf \subseteq 1..(i-1)

\* C01: equal entry sets => equal listing, heads and view.
Convergence == \A x, y \in Replica : log[x] = log[y] =>
                  /\ index[x] = index[y]
                  /\ Order(ent, log[x]) = Order(ent, log[y])
                  /\ Heads(ent, log[x]) = Heads(ent, log[y])

\* The assumption of C01 holds in every reachable state of this model
\* (each identity writes through one live, loaded store).
StampsUnique == UniqueStamp(ent, Ids)

\* C06 / C07: the view as the code maintains it equals the replay of the log.
ViewMatches == \A r \in Replica : index[r] = Replay(ent, Order(ent, log[r]))

\* C06: the total order extends happens-before.
CausalOrder == \A r \in Replica : \A a, b \in log[r] : HB(ent, a, b) => Less(ent, a, b)

\* replicas only ever hold ancestry-closed logs; the clock is the largest time held
LogsClosed == \A r \in Replica : Closed(ent, log[r])
ClockIsMax == \A r \in Replica : clock[r] = MaxT(ent, log[r])

\* C05 (data part): what a restart recovers is exactly what the replica held
Recoverable == \A r \in Replica : Anc(ent, cacheLocal[r] \cup cacheRemote[r]) = log[r]

\* C08: merging never removes an entry nor changes the relative order of listed entries;
\* a writer's own entries are listed in writing order, after everything it had seen.
IsSubSeqOf(s, t) == s = SelectSeq(t, LAMBDA x : x \in Range(s))
AppendOnly  == [][\A r \in Replica : log[r] \subseteq log'[r]]_vars
StableOrder == [][\A r \in Replica : IsSubSeqOf(Order(ent, log[r]), Order(ent', log'[r]))]_vars
OwnOrder == \A r \in Replica : \A a, b \in log[r] :
               /\ (ent[a].w = ent[b].w /\ a < b) => Less(ent, a, b)
               /\ (a \in ent[b].nx) => Less(ent, a, b)

\* Deliberately wrong view routine (selftest only): must be refuted for doc stores.
ViewMatchesPutAllBug ==
    \A r \in Replica : UpdateIndexPutAllBug(ent, EmptyIndex, Order(ent, log[r])) = Replay(ent, Order(ent, log[r]))
=============================================================================
