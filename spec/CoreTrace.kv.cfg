SPECIFICATION TraceSpec
CONSTANTS
  Replica = {"a", "b", "c"}
  Writer = {"a", "b", "c"}
  StoreType = "kv"
  MaxEntries = 1000
  MaxRestarts = 1000
  Keys = {"k1", "k2"}
  Vals = {"v1", "v2"}
  NoVal = "NoVal"
  Rank <- RankDef
INVARIANTS OrderConforms HeadsConform ViewConforms EntryConforms ViewMatches Convergence CausalOrder StampsUnique
POSTCONDITION TraceAccepted
CHECK_DEADLOCK FALSE
