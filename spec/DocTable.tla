------------------------------ MODULE DocTable ------------------------------
(***************************************************************************)
(* C07: document store Get with its options (documentstore/document.go).    *)
(* Keys are sequences of characters.  For a state (the set of document      *)
(* keys present), a search key and the options caseInsensitive / partial,   *)
(* Get returns the documents whose key matches:                             *)
(*   exact            key = search                                          *)
(*   caseInsensitive  Lower(key) = Lower(search)                            *)
(*   partial          search occurs in key                                  *)
(*   both             Lower(search) occurs in Lower(key)                    *)
(* (search keys containing spaces are excluded by the property).            *)
(* Evaluated by TLC: sanity properties as ASSUMEs and the complete table    *)
(* as JSON for replay on the real store.  Query(filter) is covered by the   *)
(* always-true, key-in-set and value-equals predicates in the harness.      *)
(***************************************************************************)
EXTENDS Naturals, Sequences, FiniteSets, SequencesExt, Json, TLC

LowerChar == ("a" :> "a" @@ "A" :> "a" @@ "b" :> "b" @@ "B" :> "b" @@ "." :> "." @@ "1" :> "1")
Lower(s) == [i \in DOMAIN s |-> LowerChar[s[i]]]
Occurs(p, s) == \E i \in 0..(Len(s) - Len(p)) : SubSeq(s, i + 1, i + Len(p)) = p

DocKeys == {<<"a">>, <<"A">>, <<"a", "b">>, <<"A", "b">>, <<"b", ".", "1">>, <<"B", ".", "A">>}
Searches == DocKeys \cup {<<"b">>, <<"B">>, <<".">>, <<"a", "B">>, <<"1">>, <<"b", "a">>, <<"A", "B", ".">>}

Match(k, s, ci, partial) ==
    LET kk == IF ci THEN Lower(k) ELSE k
        ss == IF ci THEN Lower(s) ELSE s
    IN  IF partial THEN Occurs(ss, kk) ELSE kk = ss

DocGet(state, s, ci, partial) == {k \in state : Match(k, s, ci, partial)}

Rows == {<<st, s, ci, p>> : st \in SUBSET DocKeys, s \in Searches, ci \in BOOLEAN, p \in BOOLEAN}

\* exact matches are case-insensitive matches are partial case-insensitive matches
ASSUME \A r \in Rows : DocGet(r[1], r[2], FALSE, FALSE) \subseteq DocGet(r[1], r[2], TRUE, FALSE)
ASSUME \A r \in Rows : DocGet(r[1], r[2], TRUE, FALSE) \subseteq DocGet(r[1], r[2], TRUE, TRUE)
ASSUME \A r \in Rows : DocGet(r[1], r[2], FALSE, FALSE) \subseteq DocGet(r[1], r[2], FALSE, TRUE)
\* an exact Get returns at most one document, namely the one with that key
ASSUME \A r \in Rows : DocGet(r[1], r[2], FALSE, FALSE) = r[1] \cap {r[2]}
ASSUME PrintT(<<"docget rows", Cardinality(Rows)>>)

RowSeq == SetToSeq(Rows)
ASSUME JsonSerialize("doc_table.json", [i \in DOMAIN RowSeq |->
          [state |-> SetToSeq(RowSeq[i][1]), search |-> RowSeq[i][2], ci |-> RowSeq[i][3], partial |-> RowSeq[i][4],
           res |-> SetToSeq(DocGet(RowSeq[i][1], RowSeq[i][2], RowSeq[i][3], RowSeq[i][4]))]])

VARIABLE x
Init == x = 0
Next == UNCHANGED x
Spec == Init /\ [][Next]_x
=============================================================================
