---------------------------- MODULE MCIndexRace ----------------------------
EXTENDS IndexRace, TLC
\* all writers put the same key / two share a key and one has its own
KeySame  == (1 :> "k" @@ 2 :> "k" @@ 3 :> "k")
KeyMixed == (1 :> "k" @@ 2 :> "k" @@ 3 :> "j")
=============================================================================
