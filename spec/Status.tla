------------------------------- MODULE Status -------------------------------
(***************************************************************************)
(* Replication status (progress, max) of one store, as base_store.go        *)
(* computes it, driven by the flows that trigger it:                        *)
(*   Write          AddOperation: append, then recalculateReplicationStatus *)
(*                  (clock time of the new entry)                           *)
(*   Announce       Sync of the head of a remote single-writer chain of R    *)
(*                  entries (times 1..R): the replicator emits LoadAdded,    *)
(*                  the main loop calls recalculateReplicationMax(R)         *)
(*   Progress(e)    entry e of the chain has been fetched: LoadProgress,     *)
(*                  main loop calls recalculateReplicationStatus(time(e))    *)
(*   JoinAll        replicationLoadComplete: all fetched entries joined;     *)
(*                  if Len > progress then recalculateReplicationStatus(Len) *)
(* LoadProgress events are emitted by helper goroutines and may reach the    *)
(* main loop after the batch has been joined, so Progress is not ordered     *)
(* with JoinAll.                                                            *)
(* ElseIf = TRUE is the pinned tree: recalculateReplicationMax kept the log  *)
(* length and forgot a larger previous maximum (`else if`).                  *)
(***************************************************************************)
EXTENDS Naturals, FiniteSets, FiniteSetsExt

CONSTANTS L,        \* bound on local writes
          R,        \* length of the remote chain
          ElseIf,
          AtomicRecalc   \* TRUE (repaired tree): a recalculation reads and sets under one lock; FALSE (pinned): the main
                         \* loop and a writing goroutine may interleave between the reads and the set

VARIABLES len,      \* entries in the log
          clk,      \* largest Lamport time in the log
          wrote,    \* local writes so far
          ann,      \* the remote head has been announced
          got,      \* remote entries fetched (LoadProgress delivered)
          joined,   \* the batch has been joined
          max, prog,
          pend      \* 0, or 1 + the maximum the main loop has computed for an announcement and not set yet

vars == <<len, clk, wrote, ann, got, joined, max, prog, pend>>

Max2(a, b) == IF a > b THEN a ELSE b
Min2(a, b) == IF a < b THEN a ELSE b

RecalcMax(x, ln, m) == IF ElseIf THEN (IF ln > x THEN ln ELSE IF m > x THEN m ELSE x)
                                 ELSE Max2(Max2(ln, x), m)
RecalcProg(ln, m, p) == Max2(ln, Min2(p + 1, m))

Init == len = 0 /\ clk = 0 /\ wrote = 0 /\ ann = FALSE /\ got = {} /\ joined = FALSE /\ max = 0 /\ prog = 0 /\ pend = 0

\* (a write runs on its caller's goroutine: it may fall between the two steps of the main loop's recalculation)
Write == /\ wrote < L /\ (AtomicRecalc => pend = 0)
         /\ wrote' = wrote + 1 /\ len' = len + 1 /\ clk' = clk + 1
         /\ LET m == RecalcMax(clk + 1, len + 1, max) IN max' = m /\ prog' = RecalcProg(len + 1, m, prog)
         /\ UNCHANGED <<ann, got, joined, pend>>

Announce == /\ ~ann /\ R > 0 /\ pend = 0
            /\ ann' = TRUE
            /\ max' = RecalcMax(R, len, max)
            /\ UNCHANGED <<len, clk, wrote, got, joined, prog, pend>>

\* the same in two steps: recalculateReplicationMax reads the log length and the maximum (AnnRead), then sets (AnnSet)
AnnRead == /\ ~ann /\ R > 0 /\ pend = 0
           /\ ann' = TRUE
           /\ pend' = 1 + RecalcMax(R, len, max)
           /\ UNCHANGED <<len, clk, wrote, got, joined, max, prog>>
AnnSet == /\ pend > 0
          /\ max' = pend - 1 /\ pend' = 0
          /\ UNCHANGED <<len, clk, wrote, ann, got, joined, prog>>

Progress(e) == /\ ann /\ e \notin got /\ pend = 0
               /\ got' = got \cup {e}
               /\ LET m == RecalcMax(e, len, max) IN max' = m /\ prog' = RecalcProg(len, m, prog)
               /\ UNCHANGED <<len, clk, wrote, ann, joined, pend>>

\* LoadEnd is emitted once every task is fetched; some LoadProgress events may
\* not have been handled by then
JoinAll == /\ ann /\ ~joined /\ pend = 0
           /\ joined' = TRUE
           /\ len' = len + R /\ clk' = Max2(clk, R)
           /\ IF len + R > prog
                 THEN LET m == RecalcMax(len + R, len + R, max) IN max' = m /\ prog' = RecalcProg(len + R, m, prog)
                 ELSE UNCHANGED <<max, prog>>
           /\ UNCHANGED <<wrote, ann, got, pend>>

Next == Write \/ Announce \/ AnnRead \/ AnnSet \/ (\E e \in 1..R : Progress(e)) \/ JoinAll

Spec == Init /\ [][Next]_vars

\* C19
Monotone == [][max' >= max /\ prog' >= prog]_vars
AtRest   == (~ann \/ (joined /\ got = 1..R)) /\ pend = 0
RestOK   == AtRest => (prog = max /\ clk <= max /\ max <= len)
SingleWriterCount == (AtRest /\ (~ann \/ wrote = 0)) => max = len
ProgLeMax == prog <= max
=============================================================================
