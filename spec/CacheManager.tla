---------------------------- MODULE CacheManager ----------------------------
(***************************************************************************)
(* cache/cacheleveldown: one manager per instance keeps the open caches by  *)
(* path under one mutex (muCaches).                                         *)
(*   Load(p)      lock; open the cache of path p unless it is open; unlock   *)
(*   Close(p)     (of an open cache, by its store) lock; close; forget;      *)
(*                unlock                                                     *)
(*   Destroy(p)   (Drop of a database) close the cache of p if it is open,   *)
(*                then remove its directory                                  *)
(* Each call runs on the goroutine of its caller; a call that needs the      *)
(* mutex while its own goroutine holds it never gets it (Go's mutexes are    *)
(* not reentrant).                                                           *)
(* NestedClose = TRUE is the tree as pinned: Destroy closes the open cache   *)
(* while it holds the mutex.  FALSE is the repaired tree: it looks the cache *)
(* up under the mutex and closes it after releasing it.                      *)
(***************************************************************************)
EXTENDS Naturals, FiniteSets

CONSTANTS Proc,          \* goroutines calling into the manager (stores being opened, closed, dropped)
          Path,          \* cache paths (one per database)
          NestedClose

VARIABLES open,          \* paths whose cache is open
          onDisk,        \* paths whose directory exists
          holder,        \* goroutine holding muCaches (0 = free); goroutines are 1..N
          pc, arg        \* per goroutine: what it is doing, for which path

vars == <<open, onDisk, holder, pc, arg>>

Init == /\ open = {} /\ onDisk = {} /\ holder = 0
        /\ pc = [g \in Proc |-> "idle"] /\ arg = [g \in Proc |-> CHOOSE p \in Path : TRUE]

Set(g, c) == pc' = [pc EXCEPT ![g] = c]

\* ---- Load
LoadBegin(g, p) == /\ pc[g] = "idle" /\ holder = 0
                   /\ holder' = g /\ Set(g, "loading") /\ arg' = [arg EXCEPT ![g] = p]
                   /\ UNCHANGED <<open, onDisk>>
LoadEnd(g) == /\ pc[g] = "loading"
              /\ open' = open \cup {arg[g]} /\ onDisk' = onDisk \cup {arg[g]}
              /\ holder' = 0 /\ Set(g, "idle")
              /\ UNCHANGED arg

\* ---- Close of an open cache: needs the mutex
CloseBegin(g, p) == /\ pc[g] = "idle" /\ p \in open
                    /\ Set(g, "wants-close") /\ arg' = [arg EXCEPT ![g] = p]
                    /\ UNCHANGED <<open, onDisk, holder>>
CloseLock(g) == /\ pc[g] \in {"wants-close", "destroy-wants-close"} /\ holder = 0
                /\ holder' = g
                /\ Set(g, IF pc[g] = "wants-close" THEN "closing" ELSE "destroy-closing")
                /\ UNCHANGED <<open, onDisk, arg>>
CloseEnd(g) == /\ pc[g] \in {"closing", "destroy-closing"}
               /\ open' = open \ {arg[g]}
               /\ holder' = (IF NestedClose /\ pc[g] = "destroy-closing" THEN g ELSE 0)   \* the nested call gives the lock back to ... nobody: it never got it
               /\ Set(g, IF pc[g] = "closing" THEN "idle" ELSE "destroy-remove")
               /\ UNCHANGED <<onDisk, arg>>

\* ---- Destroy
DestroyBegin(g, p) == /\ pc[g] = "idle" /\ holder = 0
                      /\ holder' = g /\ arg' = [arg EXCEPT ![g] = p]
                      /\ Set(g, "destroy-lookup")
                      /\ UNCHANGED <<open, onDisk>>
DestroyLookup(g) ==
    /\ pc[g] = "destroy-lookup"
    /\ IF arg[g] \in open
         THEN IF NestedClose
                THEN \* pinned: Close is called with the mutex held; Close asks for the mutex: the goroutine waits for itself
                     Set(g, "destroy-wants-close") /\ UNCHANGED holder
                ELSE Set(g, "destroy-wants-close") /\ holder' = 0
         ELSE Set(g, "destroy-remove") /\ holder' = (IF NestedClose THEN g ELSE 0)
    /\ UNCHANGED <<open, onDisk, arg>>
DestroyRemove(g) == /\ pc[g] = "destroy-remove"
                    /\ onDisk' = onDisk \ {arg[g]}
                    /\ holder' = (IF holder = g THEN 0 ELSE holder)
                    /\ Set(g, "idle")
                    /\ UNCHANGED <<open, arg>>

Next == \E g \in Proc :
          \/ \E p \in Path : LoadBegin(g, p) \/ CloseBegin(g, p) \/ DestroyBegin(g, p)
          \/ LoadEnd(g) \/ CloseLock(g) \/ CloseEnd(g) \/ DestroyLookup(g) \/ DestroyRemove(g)

Spec == Init /\ [][Next]_vars

\* C18: every call into the manager returns: no goroutine waits for a mutex that can never be released to it
NoSelfWait == \A g \in Proc : ~(pc[g] \in {"wants-close", "destroy-wants-close"} /\ holder = g)
\* the mutex is held by a goroutine that is inside a call
LockSane == holder # 0 => pc[holder] # "idle"
=============================================================================
