------------------------------ MODULE SimStatus ------------------------------
(* Behaviours of Status that the harness can force: the head is fetched      *)
(* first, LoadProgress events are handled before the next step (the driver   *)
(* waits for the main loop), and the batch is joined as soon as the last     *)
(* entry has been fetched.                                                   *)
EXTENDS Status
AllGot == ann /\ got = 1..R /\ ~joined
SWrite == Write /\ ~AllGot
SProgress(e) == Progress(e) /\ (e = R \/ R \in got)
SJoinAll == JoinAll /\ got = 1..R
SAnnounce == Announce /\ ~AllGot
SAnnRead == AnnRead /\ ~AllGot
SimNext == SWrite \/ SAnnounce \/ SAnnRead \/ AnnSet \/ (\E e \in 1..R : SProgress(e)) \/ SJoinAll
SimSpec == Init /\ [][SimNext]_vars
=============================================================================
