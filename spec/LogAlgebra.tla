---------------------------- MODULE LogAlgebra ----------------------------
(***************************************************************************)
(* Pure operators describing the CRDT log of go-ipfs-log as go-orbit-db     *)
(* uses it, and the materialised views of the three store types.           *)
(*                                                                         *)
(* An entry is a record [w, t, nx, rf, op]: writer, Lamport time, the set   *)
(* of `next` links (heads of the writer's log when writing), the `refs`     *)
(* skip links and the store operation.  Entries live in a function `en`     *)
(* from entry ids to such records; every operator takes `en` as a parameter *)
(* so that actions can evaluate it on primed values.                       *)
(***************************************************************************)
EXTENDS Naturals, Sequences, FiniteSets, SequencesExt, FiniteSetsExt, Functions

CONSTANTS Rank,      \* writer -> Nat: byte order of the writers' public keys (clock ids)
          Keys,      \* abstract keys of kv / document stores
          Vals,      \* abstract values
          NoVal      \* "key absent"

MaxOf(S) == IF S = {} THEN 0 ELSE Max(S)

(* -- causal structure ---------------------------------------------------- *)
Heads(en, E) == {e \in E : \A f \in E : e \notin en[f].nx}

RECURSIVE Anc(_, _)
Anc(en, S) == LET N == S \cup UNION {en[e].nx : e \in S}
              IN  IF N = S THEN S ELSE Anc(en, N)

Closed(en, E) == \A e \in E : en[e].nx \subseteq E

HB(en, a, b) == a # b /\ a \in Anc(en, {b})         \* a happened before b

(* -- total order: go-ipfs-log LastWriteWins = (time, clock id) ----------- *)
Less(en, a, b) == \/ en[a].t < en[b].t
                  \/ (en[a].t = en[b].t /\ Rank[en[a].w] < Rank[en[b].w])

Order(en, E) == SetToSortSeq(E, LAMBDA a, b : Less(en, a, b))     \* Values(): oldest first
Desc(en, E)  == Reverse(Order(en, E))

UniqueStamp(en, E) == \A a, b \in E : a # b => (en[a].t # en[b].t \/ en[a].w # en[b].w)

MaxT(en, E) == MaxOf({en[e].t : e \in E})

(* -- Append: clock, next and refs as log.go computes them (pointer count 64) *)
Pow2 == {1, 2, 4, 8, 16, 32, 64}
Refs(en, E) == LET d == Desc(en, E)
                   n == Len(d)
               IN  ({d[i] : i \in {j \in 1..n : j \in Pow2}}
                      \cup (IF n > 0 /\ n < 64 THEN {d[n]} ELSE {})) \ Heads(en, E)

NewEntry(en, E, clk, w, op) ==
    [w  |-> w,
     t  |-> MaxOf({clk} \cup {en[h].t : h \in Heads(en, E)}) + 1,
     nx |-> Heads(en, E),
     rf |-> Refs(en, E),
     op |-> op]

(* -- store operations ----------------------------------------------------- *)
\* op == [kind, k, v, docs]; unused fields hold NoVal / <<>>
PutOp(k, v)   == [kind |-> "PUT", k |-> k, v |-> v, docs |-> <<>>]
DelOp(k)      == [kind |-> "DEL", k |-> k, v |-> NoVal, docs |-> <<>>]
AddOp(v)      == [kind |-> "ADD", k |-> NoVal, v |-> v, docs |-> <<>>]
PutAllOp(d)   == [kind |-> "PUTALL", k |-> NoVal, v |-> NoVal, docs |-> d]   \* d: subset of Keys -> Vals

EmptyIndex == [k \in Keys |-> NoVal]

\* The specification of kv and document stores: replay oldest to newest.
ApplyOp(m, op) ==
    CASE op.kind = "PUT"    -> [m EXCEPT ![op.k] = op.v]
      [] op.kind = "DEL"    -> [m EXCEPT ![op.k] = NoVal]
      [] op.kind = "PUTALL" -> [k \in Keys |-> IF k \in DOMAIN op.docs THEN op.docs[k] ELSE m[k]]
      [] OTHER              -> m
Replay(en, seq) == FoldLeft(LAMBDA m, e : ApplyOp(m, en[e].op), EmptyIndex, seq)

\* The implementation: newest to oldest, first operation seen per key wins,
\* map patched in place (kvstore/index.go, documentstore/index.go).
IdxStep(en, acc, e) ==
    LET op == en[e].op IN
    CASE op.kind = "PUTALL" ->
            LET ks == {k \in DOMAIN op.docs : k \notin acc.h}
            IN  [h  |-> acc.h \cup ks,
                 ix |-> [k \in Keys |-> IF k \in ks THEN op.docs[k] ELSE acc.ix[k]]]
      [] op.kind \in {"PUT", "DEL"} ->
            IF op.k \in acc.h THEN acc
            ELSE [h  |-> acc.h \cup {op.k},
                  ix |-> [acc.ix EXCEPT ![op.k] = IF op.kind = "PUT" THEN op.v ELSE NoVal]]
      [] OTHER -> acc
UpdateIndex(en, old, seq) ==
    FoldLeft(LAMBDA acc, e : IdxStep(en, acc, e), [h |-> {}, ix |-> old], Reverse(seq)).ix

\* The pinned tree's document index marked the (empty) key of the batch
\* operation instead of each document key (documentstore/index.go, PUTALL
\* branch).  Kept to show that TLC separates the two (selftest).
IdxStepPutAllBug(en, acc, e) ==
    LET op == en[e].op IN
    IF op.kind = "PUTALL"
    THEN LET ks == {k \in DOMAIN op.docs : k \notin acc.h}
         IN  [h |-> acc.h, ix |-> [k \in Keys |-> IF k \in ks THEN op.docs[k] ELSE acc.ix[k]]]
    ELSE IdxStep(en, acc, e)
UpdateIndexPutAllBug(en, old, seq) ==
    FoldLeft(LAMBDA acc, e : IdxStepPutAllBug(en, acc, e), [h |-> {}, ix |-> old], Reverse(seq)).ix

=============================================================================
