---------------------------- MODULE MCReplicator ----------------------------
EXTENDS Replicator
\* a chain 1 <- 2 <- 3 with refs (3 also refers to 1) and a fork 4 on top of 2
\* entry 4 links to 2 and to a block nobody provides (5)
LinksI == (1 :> <<>> @@ 2 :> <<1>> @@ 3 :> <<2, 1>> @@ 4 :> <<2, 5>> @@ 5 :> <<>>)
LinksDef == (1 :> <<>> @@ 2 :> <<1>> @@ 3 :> <<2, 1>> @@ 4 :> <<2, 1>>)
\* two earlier requests and the final one; request 2 mixes an older head with a fork
HeadsA == (1 :> <<3>> @@ 2 :> <<2, 4>> @@ 3 :> <<3, 4>>)
\* C10: entry 2 (a head by a non-writer) and entry 5 (an ancestor smuggled in by entry 4) are refused by the log
HeadsB == (1 :> <<2, 3>> @@ 2 :> <<4, 3, 2>> @@ 3 :> <<3, 4>>)
\* the first announcement lists a valid head before one whose hash does not match (6): dropped as a whole
HeadsC == (1 :> <<3, 6>> @@ 2 :> <<4, 3, 2>> @@ 3 :> <<3, 4>>)
\* 7 is a head written for another database by an authorised writer: it passes Sync, is fetched, and is refused at the join
HeadsD == (1 :> <<7, 3>> @@ 2 :> <<4, 7, 2>> @@ 3 :> <<3, 4>>)
LinksD == (1 :> <<>> @@ 2 :> <<>> @@ 3 :> <<1>> @@ 4 :> <<1, 5>> @@ 5 :> <<>> @@ 7 :> <<>>)
LinksB == (1 :> <<>> @@ 2 :> <<>> @@ 3 :> <<1>> @@ 4 :> <<1, 5>> @@ 5 :> <<>>)
=============================================================================
