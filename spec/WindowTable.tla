---------------------------- MODULE WindowTable ----------------------------
(* Evaluated by TLC: proves the window operator has the properties C08        *)
(* states for every listing of length <= MaxLen, every bound kind and         *)
(* position, every amount, and writes the complete table as JSON so that     *)
(* the harness can put every row to the real List / Stream.                  *)
EXTENDS Windows, Json, TLC, FiniteSets, SequencesExt

MaxLen == 6
Kinds == {"none", "gt", "gte", "lt", "lte"}
Amts(n) == {Unset, 0, 1, 2, n, n + 2, -1, -7}
L(n) == [i \in 1..n |-> i]

Rows == {<<n, k, p, a>> \in (0..MaxLen) \X Kinds \X (1..MaxLen) \X (UNION {Amts(m) : m \in 0..MaxLen}) :
            /\ a \in Amts(n)
            /\ (IF k = "none" THEN p = 1 ELSE p <= n)}

Res(r) == Window(L(r[1]), r[2], r[3], r[4])

\* every result is a contiguous run of the listing ...
Contiguous(s) == \A i \in 1..(Len(s) - 1) : s[i + 1] = s[i] + 1
\* ... of the requested length when enough entries exist on that side of the bound ...
Avail(r) == CASE r[2] = "gt" -> r[1] - r[3] [] r[2] = "gte" -> r[1] - r[3] + 1
              [] r[2] = "lt" -> r[3] - 1 [] r[2] = "lte" -> r[3] [] OTHER -> r[1]
\* ... adjacent to (gt, lt) or including (gte, lte) the bound, or ending at the newest entry (no bound)
Anchored(r) == LET s == Res(r) IN
    Len(s) = 0 \/ CASE r[2] = "gt"  -> s[1] = r[3] + 1
                    [] r[2] = "gte" -> s[1] = r[3]
                    [] r[2] = "lt"  -> s[Len(s)] = r[3] - 1
                    [] r[2] = "lte" -> s[Len(s)] = r[3]
                    [] OTHER        -> s[Len(s)] = r[1]

ASSUME \A r \in Rows : Contiguous(Res(r)) /\ Anchored(r) /\ Len(Res(r)) = Min2(Amount(r[4], r[1]), Avail(r))
ASSUME PrintT(<<"window rows", Cardinality(Rows)>>)
RowSeq == SetToSeq(Rows)
ASSUME JsonSerialize("window_table.json", [i \in DOMAIN RowSeq |-> [n |-> RowSeq[i][1], kind |-> RowSeq[i][2], pos |-> RowSeq[i][3], amt |-> RowSeq[i][4], res |-> Res(RowSeq[i])]])

VARIABLE x
Init == x = 0
Next == UNCHANGED x
Spec == Init /\ [][Next]_x
=============================================================================
