---------------------------- MODULE SimWritePath ----------------------------
(* Behaviours of WritePath without Crash/Recover (crash points are          *)
(* enumerated by the harness as prefixes of the recorded effect log).       *)
EXTENDS WritePath
Remote2 == <<1, 2>>
Remote3 == <<1, 2, 3>>
\* entry 2 is written by a second remote writer, concurrently with entry 1; entry 3 follows entry 1
RemotePar2 == (1 :> {} @@ 2 :> {})
RemotePar3 == (1 :> {} @@ 2 :> {} @@ 3 :> {1})
SimNext == \/ \E g \in G : WAppend(g)
           \/ \E g \in G : WPersist(g)
           \/ \E g \in G : WIndex(g)
           \/ \E g \in G : WEmit(g)
           \/ \E g \in G : WReturn(g)
           \/ \E k \in 1..2 : BStart(k)
           \/ BJoin \/ BPersist \/ BEmit
SimSpec == Init /\ [][SimNext]_vars
=============================================================================
