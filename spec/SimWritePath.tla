---------------------------- MODULE SimWritePath ----------------------------
(* Behaviours of WritePath without Crash/Recover (crash points are          *)
(* enumerated by the harness as prefixes of the recorded effect log).       *)
EXTENDS WritePath
Remote2 == <<1, 2>>
Remote3 == <<1, 2, 3>>
SimNext == \/ \E g \in G : WAppend(g)
           \/ \E g \in G : WPersist(g)
           \/ \E g \in G : WIndex(g)
           \/ \E g \in G : WEmit(g)
           \/ \E g \in G : WReturn(g)
           \/ \E k \in 1..2 : BStart(k)
           \/ BJoin \/ BPersist \/ BEmit
SimSpec == Init /\ [][SimNext]_vars
=============================================================================
