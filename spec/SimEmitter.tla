----------------------------- MODULE SimEmitter -----------------------------
(* Schedules of Emitter that the replay harness can force on the real       *)
(* goroutines with its gates: B, once it has the lock back and finds the    *)
(* queue non-empty, dequeues before A gets the lock again (the harness      *)
(* holds A at its gate until B is parked); all other orders are free.       *)
EXTENDS Emitter
CONSTANT Stall     \* the reader stalls until more than Stall events have been emitted (0: no stall)
SPlace == Place /\ ~(pcB = "wait" /\ q # <<>>)
SRead == Read /\ nxt > Stall
SimNext == Emit \/ SPlace \/ Dequeue \/ Send \/ Relock \/ SRead
SimSpec == Init /\ [][SimNext]_vars
=============================================================================
