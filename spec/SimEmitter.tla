----------------------------- MODULE SimEmitter -----------------------------
(* Schedules of Emitter that the replay harness can force on the real       *)
(* goroutines with its gates: B, once it has the lock back and finds the    *)
(* queue non-empty, dequeues before A gets the lock again (the harness      *)
(* holds A at its gate until B is parked); all other orders are free.       *)
EXTENDS Emitter
SPlace == Place /\ ~(pcB = "wait" /\ q # <<>>)
SimNext == Emit \/ SPlace \/ Dequeue \/ Send \/ Relock \/ Read
SimSpec == Init /\ [][SimNext]_vars
=============================================================================
