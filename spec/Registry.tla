------------------------------ MODULE Registry ------------------------------
(***************************************************************************)
(* C14: database addresses and the create / open / drop outcomes of         *)
(* baseorbitdb (DetermineAddress, Create, Open, haveLocalData,              *)
(* addManifestToCache, Drop).                                               *)
(*                                                                         *)
(* An address is the content address of a manifest recording name, type     *)
(* and access-controller address; the access-controller address is the      *)
(* content address of its parameters (the write list; when none is given    *)
(* the creator's own id).  Content addressing is modelled by taking the     *)
(* record itself as the address: equal inputs give equal addresses and      *)
(* different inputs different ones, on every instance.                      *)
(* Every instance keeps a local marker per address (cache key "_manifest"). *)
(***************************************************************************)
EXTENDS Naturals, FiniteSets, TLC

CONSTANTS Inst,       \* instances (each has its own identity)
          Names, Types,
          Lists,      \* explicit write lists (sets of identities); {} stands for "none given"
          MaxOps

VARIABLES marker,     \* [Inst -> SUBSET Address]: databases known locally
          open,       \* [Inst -> SUBSET Address]: stores currently open
          published,  \* manifests available in the shared block space
          nops,
          out         \* outcome of the last operation: [op, i, addr, res]

vars == <<marker, open, published, nops, out>>

WL(i, l) == IF l = {} THEN {i} ELSE l
Addr(i, n, t, l) == [name |-> n, type |-> t, write |-> WL(i, l)]
Address == {Addr(i, n, t, l) : i \in Inst, n \in Names, t \in Types, l \in Lists}

Init == /\ marker = [i \in Inst |-> {}] /\ open = [i \in Inst |-> {}] /\ published = {}
        /\ nops = 0 /\ out = [op |-> "none", i |-> CHOOSE i \in Inst : TRUE, addr |-> CHOOSE a \in Address : TRUE, res |-> "ok"]

Step == nops < MaxOps /\ nops' = nops + 1

Create(i, n, t, l, overwrite) ==
    /\ Step
    /\ LET a == Addr(i, n, t, l) IN
       IF a \in marker[i] /\ ~overwrite
          THEN /\ out' = [op |-> "create", i |-> i, addr |-> a, res |-> "exists"]
               /\ UNCHANGED <<marker, open, published>>
          ELSE /\ marker' = [marker EXCEPT ![i] = @ \cup {a}]
               /\ open' = [open EXCEPT ![i] = @ \cup {a}]
               /\ published' = published \cup {a}
               /\ out' = [op |-> "create", i |-> i, addr |-> a, res |-> "ok"]

Open(i, a, localOnly) ==
    /\ Step /\ a \in published
    /\ IF localOnly /\ a \notin marker[i]
          THEN /\ out' = [op |-> "open", i |-> i, addr |-> a, res |-> "unknown"]
               /\ UNCHANGED <<marker, open, published>>
          ELSE /\ open' = [open EXCEPT ![i] = @ \cup {a}]
               /\ out' = [op |-> "open", i |-> i, addr |-> a, res |-> "ok"]
               /\ UNCHANGED <<marker, published>>

Close(i, a) ==
    /\ Step /\ a \in open[i]
    /\ open' = [open EXCEPT ![i] = @ \ {a}]
    /\ out' = [op |-> "close", i |-> i, addr |-> a, res |-> "ok"]
    /\ UNCHANGED <<marker, published>>

\* Drop removes the database's local data: nothing else of this or another database
Drop(i, a) ==
    /\ Step /\ a \in open[i]
    /\ open' = [open EXCEPT ![i] = @ \ {a}]
    /\ marker' = [marker EXCEPT ![i] = @ \ {a}]
    /\ out' = [op |-> "drop", i |-> i, addr |-> a, res |-> "ok"]
    /\ UNCHANGED published

Next == \/ \E i \in Inst, n \in Names, t \in Types, l \in Lists, o \in BOOLEAN : Create(i, n, t, l, o)
        \/ \E i \in Inst, a \in Address, lo \in BOOLEAN : Open(i, a, lo)
        \/ \E i \in Inst, a \in Address : Close(i, a)
        \/ \E i \in Inst, a \in Address : Drop(i, a)
Spec == Init /\ [][Next]_vars

\* the address determines type and write list; a local-only open needs the marker
OpenOnlyKnown == \A i \in Inst : open[i] \subseteq published
Injective == \A i, j \in Inst, n1, n2 \in Names, t1, t2 \in Types, l1, l2 \in Lists :
                (Addr(i, n1, t1, l1) = Addr(j, n2, t2, l2)) <=> (n1 = n2 /\ t1 = t2 /\ WL(i, l1) = WL(j, l2))
MarkerOnlyByCreate == [][\A i \in Inst : marker'[i] \ marker[i] # {} => out'.op = "create"]_vars
DropScoped == [][\A i \in Inst : (out'.op = "drop" /\ out'.i = i) => marker[i] \ marker'[i] \subseteq {out'.addr}]_vars
=============================================================================
