------------------------------- MODULE System -------------------------------
(***************************************************************************)
(* C02: several replicas of one database over an unreliable network.        *)
(*                                                                         *)
(* Transport as go-orbit-db uses it:                                        *)
(*   - a local write announces the writer's current heads on the database   *)
(*     topic, to the peers that are members of the topic and connected at   *)
(*     that moment (handleEventWrite: nothing is sent when the topic has    *)
(*     no peers);                                                          *)
(*   - when a replica observes a peer joining the topic it sends that peer  *)
(*     its cached heads (_localHeads and _remoteHeads, as persisted - not    *)
(*     the live heads) over the direct channel (onNewPeerJoined /            *)
(*     exchangeHeads);                                                      *)
(*   - received heads are synced: their ancestry is fetched from connected   *)
(*     peers that hold the blocks and joined once complete (Sync ->          *)
(*     Replicator -> replicationLoadComplete, which persists _remoteHeads).  *)
(* Faults: links are cut and healed (a heal makes both sides observe the     *)
(* other joining), messages in flight are dropped or delivered twice and are      *)
(* delivered in any order, replicas restart (volatile state lost, log        *)
(* reloaded from the cached heads, topic joined again).                     *)
(* Final phase: no more writes or faults, every link is up, and every        *)
(* ordered pair of replicas observes the other on the topic once more.       *)
(***************************************************************************)
EXTENDS Naturals, Sequences, FiniteSets, FiniteSetsExt, SequencesExt, TLC

CONSTANTS Replica, MaxWrites, MaxFaults

VARIABLES par,        \* entry id -> set of parents (heads of the writer when writing)
          log,        \* replica -> entries in its log
          blocks,     \* replica -> entry blocks held locally
          cacheL, cacheR,
          want,       \* replica -> heads received and being replicated (volatile)
          cut,        \* set of unordered pairs currently disconnected
          bag,        \* set of in-flight messages [kind, from, to, heads] (a duplicate is a second delivery)
          faults, final

vars == <<par, log, blocks, cacheL, cacheR, want, cut, bag, faults, final>>

Ids == DOMAIN par
Pair(a, b) == {a, b}
Linked(a, b) == a # b /\ Pair(a, b) \notin cut
Heads(E) == {e \in E : \A f \in E : e \notin par[f]}
RECURSIVE Anc(_)
Anc(S) == LET N == S \cup UNION {par[e] : e \in S} IN IF N = S THEN S ELSE Anc(N)

Init == /\ par = <<>> /\ log = [r \in Replica |-> {}] /\ blocks = [r \in Replica |-> {}]
        /\ cacheL = [r \in Replica |-> {}] /\ cacheR = [r \in Replica |-> {}]
        /\ want = [r \in Replica |-> {}] /\ cut = {} /\ bag = {} /\ faults = 0 /\ final = FALSE

Msgs(kind, from, tos, heads) == {[kind |-> kind, from |-> from, to |-> t, heads |-> heads] : t \in tos}
MsgSpace == [kind : {"pub", "direct", "join"}, from : Replica, to : Replica, heads : SUBSET (1..MaxWrites)]

Write(r) ==
    /\ ~final /\ Len(par) < MaxWrites
    /\ LET e  == Len(par) + 1
           hs == Heads(log[r]) \cup {e}
           L  == log[r] \cup {e}
           tos == {p \in Replica : Linked(r, p)}
       IN  /\ par' = Append(par, Heads(log[r]))
           /\ log' = [log EXCEPT ![r] = L]
           /\ blocks' = [blocks EXCEPT ![r] = @ \cup {e}]
           /\ cacheL' = [cacheL EXCEPT ![r] = {e}]
           /\ bag' = bag \cup Msgs("pub", r, tos, {e})
    /\ UNCHANGED <<cacheR, want, cut, faults, final>>

\* a received head set starts (or extends) a replication; dup = the message stays in flight (duplicate delivery)
Receive(m, dup) ==
    /\ m \in bag /\ m.kind \in {"pub", "direct"}
    /\ (dup => (~final /\ faults < MaxFaults))
    /\ faults' = (IF dup THEN faults + 1 ELSE faults)
    /\ bag' = (IF dup THEN bag ELSE bag \ {m})
    /\ want' = [want EXCEPT ![m.to] = @ \cup (m.heads \ log[m.to])]
    /\ UNCHANGED <<par, log, blocks, cacheL, cacheR, cut, final>>

\* the replication completes once every missing ancestor can be fetched from a connected holder
Available(r, e) == e \in blocks[r] \/ \E q \in Replica : Linked(r, q) /\ e \in blocks[q]
Replicate(r) ==
    /\ want[r] # {}
    /\ LET need == Anc(want[r]) \ log[r] IN
       /\ \A e \in need : Available(r, e)
       /\ log' = [log EXCEPT ![r] = @ \cup need]
       /\ blocks' = [blocks EXCEPT ![r] = @ \cup need]
       /\ cacheR' = [cacheR EXCEPT ![r] = IF need = {} THEN @ ELSE Heads(log[r] \cup need)]
    /\ want' = [want EXCEPT ![r] = {}]
    /\ UNCHANGED <<par, cacheL, cut, bag, faults, final>>

\* r observes q joining the topic: it sends q its cached heads on the direct channel
ObserveJoin(m) ==
    /\ m \in bag /\ m.kind = "join"
    /\ bag' = (bag \ {m}) \cup (IF Linked(m.to, m.from)
                                  THEN {[kind |-> "direct", from |-> m.to, to |-> m.from, heads |-> cacheL[m.to] \cup cacheR[m.to]]}
                                  ELSE {})
    /\ UNCHANGED <<par, log, blocks, cacheL, cacheR, want, cut, faults, final>>

Fault == ~final /\ faults < MaxFaults /\ faults' = faults + 1

Cut(a, b) == /\ Fault /\ Linked(a, b)
             /\ cut' = cut \cup {Pair(a, b)}
             /\ UNCHANGED <<par, log, blocks, cacheL, cacheR, want, bag, final>>

JoinNotes(a, b) == {[kind |-> "join", from |-> b, to |-> a, heads |-> {}],
                    [kind |-> "join", from |-> a, to |-> b, heads |-> {}]}
Heal(a, b) == /\ ~final /\ a # b /\ Pair(a, b) \in cut
              /\ cut' = cut \ {Pair(a, b)}
              /\ bag' = bag \cup JoinNotes(a, b)
              /\ UNCHANGED <<par, log, blocks, cacheL, cacheR, want, faults, final>>

Drop(m) == /\ Fault /\ m \in bag /\ m.kind \in {"pub", "direct"}
           /\ bag' = bag \ {m}
           /\ UNCHANGED <<par, log, blocks, cacheL, cacheR, want, cut, final>>

\* stop and start again from the same directory: Load(-1) from the cached heads; the replica joins the topic anew
Restart(r) ==
    /\ Fault
    /\ want' = [want EXCEPT ![r] = {}]
    /\ log' = [log EXCEPT ![r] = Anc(cacheL[r] \cup cacheR[r]) \cap blocks[r]]
    /\ bag' = bag \cup UNION {JoinNotes(r, p) : p \in {q \in Replica : Linked(r, q)}}
    /\ UNCHANGED <<par, blocks, cacheL, cacheR, cut, final>>

\* writes and faults stop; every link is up and every ordered pair observes the other on the topic
Finalize ==
    /\ ~final /\ final' = TRUE
    /\ cut' = {}
    /\ bag' = bag \cup {[kind |-> "join", from |-> p[2], to |-> p[1], heads |-> {}] : p \in {q \in Replica \X Replica : q[1] # q[2]}}
    /\ UNCHANGED <<par, log, blocks, cacheL, cacheR, want, faults>>

Next == \/ \E r \in Replica : Write(r)
        \/ \E m \in MsgSpace, d \in BOOLEAN : Receive(m, d)
        \/ \E r \in Replica : Replicate(r)
        \/ \E m \in MsgSpace : ObserveJoin(m)
        \/ \E a, b \in Replica : Cut(a, b)
        \/ \E a, b \in Replica : Heal(a, b)
        \/ \E m \in MsgSpace : Drop(m)
        \/ \E r \in Replica : Restart(r)
        \/ Finalize

Spec == Init /\ [][Next]_vars
FairSpec == Spec /\ WF_vars(\E m \in MsgSpace : Receive(m, FALSE)) /\ WF_vars(\E m \in MsgSpace : ObserveJoin(m))
                 /\ WF_vars(\E r \in Replica : Replicate(r)) /\ WF_vars(Finalize)

(* ------------------------------ properties ------------------------------ *)
Acked == Ids
Quiet == final /\ bag = {} /\ \A r \in Replica : want[r] = {}
\* C02 (safety form, evaluable on the real code): at rest in the final phase everyone has everything
Converged == Quiet => \A r \in Replica : log[r] = Acked
\* C02 (liveness form)
Eventually == <>(\A r \in Replica : log[r] = Acked)
\* a replica's log is always closed and within what was written
LogsSane == \A r \in Replica : log[r] \subseteq Ids /\ \A e \in log[r] : par[e] \subseteq log[r]
CachesCover == \A r \in Replica : Anc(cacheL[r] \cup cacheR[r]) \cap blocks[r] = log[r]
=============================================================================
