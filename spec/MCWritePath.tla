---------------------------- MODULE MCWritePath ----------------------------
EXTENDS WritePath
Remote2 == <<1, 2>>
Remote3 == <<1, 2, 3>>
\* entry 2 is written by a second remote writer, concurrently with entry 1; entry 3 follows entry 1
RemotePar2 == (1 :> {} @@ 2 :> {})
RemotePar3 == (1 :> {} @@ 2 :> {} @@ 3 :> {1})
\* trap (not a property): a writer has persisted its head and not yet updated the view while another call, begun
\* later, has returned. TLC's counterexample is the shortest behaviour with that overtaking; it is replayed like the others
NoOvertakeAfterPersist == ~(\E g, k \in G : g # k /\ pc[g] = "persisted" /\ pc[k] = "done" /\ cur[g] \in AncIn({cur[k]}, DOMAIN par))
=============================================================================
