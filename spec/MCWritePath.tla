---------------------------- MODULE MCWritePath ----------------------------
EXTENDS WritePath
Remote2 == <<1, 2>>
Remote3 == <<1, 2, 3>>
\* entry 2 is written by a second remote writer, concurrently with entry 1; entry 3 follows entry 1
RemotePar2 == (1 :> {} @@ 2 :> {})
RemotePar3 == (1 :> {} @@ 2 :> {} @@ 3 :> {1})
=============================================================================
