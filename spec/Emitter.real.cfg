SPECIFICATION Spec
CONSTANTS N = 19  C = 16  BusCap = 16  Bypass = FALSE
INVARIANTS Ordered Lossless
CHECK_DEADLOCK FALSE
