----------------------------- MODULE SimSystemH -----------------------------
(* SimSystem with two history variables, used only by trap properties that    *)
(* speak about the past: the exchanges a replica has sent (a sender that       *)
(* remembers them must not conclude that the receiver still has what it was   *)
(* sent) and the messages a replica has received.                             *)
EXTENDS SimSystem
VARIABLES sent,    \* direct messages handed to the network so far
          recvd    \* messages delivered to their receiver so far
hvars == <<vars, sent, recvd>>

HInit == Init /\ sent = {} /\ recvd = {}
HWrite(r) == SWrite(r) /\ UNCHANGED <<sent, recvd>>
HReceive(m, d) == SReceive(m, d) /\ recvd' = recvd \cup {m} /\ UNCHANGED sent
HReplicate(r) == Replicate(r) /\ UNCHANGED <<sent, recvd>>
HObserveJoin(m) == SObserveJoin(m) /\ sent' = sent \cup {x \in bag' \ bag : x.kind = "direct"} /\ UNCHANGED recvd
HCut(a, b) == SCut(a, b) /\ UNCHANGED <<sent, recvd>>
HHeal(a, b) == SHeal(a, b) /\ UNCHANGED <<sent, recvd>>
HDrop(m) == SDrop(m) /\ UNCHANGED <<sent, recvd>>
HRestart(r) == SRestart(r) /\ UNCHANGED <<sent, recvd>>
HFinalize == SFinalize /\ UNCHANGED <<sent, recvd>>
HNext == \/ \E r \in Replica : HWrite(r)
         \/ \E m \in MsgSpace, d \in BOOLEAN : HReceive(m, d)
         \/ \E r \in Replica : HReplicate(r)
         \/ \E m \in MsgSpace : HObserveJoin(m)
         \/ \E a, b \in Replica : HCut(a, b)
         \/ \E a, b \in Replica : HHeal(a, b)
         \/ \E m \in MsgSpace : HDrop(m)
         \/ \E r \in Replica : HRestart(r)
         \/ HFinalize
HSpec == HInit /\ [][HNext]_hvars

\* the receiver of an exchange has nothing of it any more, nothing in flight carries it, nobody else holds it,
\* and the sender would send exactly the same exchange again
Resend(m, e) ==
    /\ m \in sent /\ m \notin bag /\ m.from # m.to
    /\ e \in Anc(m.heads) /\ e \in log[m.from] /\ e \notin log[m.to]
    /\ want[m.to] = {} /\ ~Carried(e, m.to)
    /\ cacheL[m.from] \cup cacheR[m.from] = m.heads
    /\ \A c \in Replica \ {m.from} : e \notin log[c]
\* ... because the exchange was lost on the way
TrapResendAfterLoss == \E m \in sent, e \in Ids : Resend(m, e) /\ m \notin recvd
\* ... because the receiver was stopped before it had replicated what it received
TrapResendAfterRestart == \E m \in sent, e \in Ids : Resend(m, e) /\ m \in recvd
NoTrap4 == ~TrapResendAfterLoss
NoTrap5 == ~TrapResendAfterRestart
=============================================================================
