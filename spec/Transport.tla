------------------------------ MODULE Transport ------------------------------
(***************************************************************************)
(* C20: the bundled transport adapters as input/output machines.            *)
(*                                                                         *)
(* Membership (pubsubcoreapi.psTopic.peersDiff / WatchPeers): the           *)
(* underlying pubsub is polled; each poll returns a list of peers (a list   *)
(* may name a peer twice); the adapter reports the difference with the      *)
(* previous poll.                                                           *)
(* Messages (pubsubcoreapi / pubsubraw WatchMessages, oneonone              *)
(* monitorTopic): every message of a remote peer is delivered once,         *)
(* unchanged, attributed to its sender; the peer's own messages are         *)
(* dropped.                                                                 *)
(* Frames (directchannel Send / handleNewPeer): a varint length prefix, a   *)
(* maximum frame size; oversized, truncated or absurd frames are refused    *)
(* and later frames are unaffected.                                         *)
(***************************************************************************)
EXTENDS Naturals, Sequences, FiniteSets, SequencesExt

CONSTANTS Peers,        \* remote peers
          Self,         \* the local peer
          MaxPolls, MaxMsgs, MaxFrames,
          FrameKinds    \* "empty","one","max-1","max","max+1","truncated","overflow63","overflow64","zero-len-trailing"

VARIABLES members,      \* membership as last reported by the underlying pubsub (a set)
          events,       \* sequence of <<"join"|"leave", peer>> emitted so far
          polls,
          inbox,        \* sequence of <<sender, payload id>> delivered to the application
          sent,         \* number of messages published on the topic so far
          frames,       \* sequence of frame kinds delivered (payload sizes)
          nframes

vars == <<members, events, polls, inbox, sent, frames, nframes>>

SeqToSet(s) == {s[i] : i \in DOMAIN s}

Init == members = {} /\ events = <<>> /\ polls = 0 /\ inbox = <<>> /\ sent = 0 /\ frames = <<>> /\ nframes = 0

\* a poll returns the list snap (possibly with duplicates); what matters is the set it denotes
Poll(snap) ==
    /\ polls < MaxPolls
    /\ LET cur == SeqToSet(snap)
           js  == SetToSeq(cur \ members)
           ls  == SetToSeq(members \ cur)
       IN  /\ events' = events \o [i \in DOMAIN js |-> <<"join", js[i]>>] \o [i \in DOMAIN ls |-> <<"leave", ls[i]>>]
           /\ members' = cur
    /\ polls' = polls + 1
    /\ UNCHANGED <<inbox, sent, frames, nframes>>

\* the watcher is stopped and a new one is started on the same topic (a store is closed and opened again on the same
\* instance; the adapter keeps one topic object per name): the new watcher has told its reader nothing yet, so whoever
\* is on the topic is reported to it as joining
Rewatch ==
    /\ polls < MaxPolls /\ (members # {} \/ events # <<>>)
    /\ members' = {} /\ events' = <<>>
    /\ UNCHANGED <<polls, inbox, sent, frames, nframes>>

Publish(p) ==
    /\ sent < MaxMsgs
    /\ sent' = sent + 1
    /\ inbox' = IF p = Self THEN inbox ELSE Append(inbox, <<p, sent + 1>>)
    /\ UNCHANGED <<members, events, polls, frames, nframes>>

Deliverable(k) == k \in {"empty", "one", "max-1", "max"}
Frame(k) ==
    /\ nframes < MaxFrames
    /\ nframes' = nframes + 1
    /\ frames' = IF Deliverable(k) THEN Append(frames, k) ELSE frames
    /\ UNCHANGED <<members, events, polls, inbox, sent>>

Next == \/ \E snap \in UNION {[1..n -> Peers] : n \in 0..(Cardinality(Peers) + 1)} : Poll(snap)
        \/ Rewatch
        \/ \E p \in Peers \cup {Self} : Publish(p)
        \/ \E k \in FrameKinds : Frame(k)

Spec == Init /\ [][Next]_vars

\* replaying the reported events over the empty set gives the current membership,
\* and no event is redundant: exactly one event per change
RECURSIVE Apply(_, _)
Apply(evs, S) == IF evs = <<>> THEN S
                 ELSE Apply(Tail(evs), IF Head(evs)[1] = "join" THEN S \cup {Head(evs)[2]} ELSE S \ {Head(evs)[2]})
RECURSIVE NoRedundant(_, _)
NoRedundant(evs, S) == IF evs = <<>> THEN TRUE
                       ELSE /\ (Head(evs)[1] = "join" => Head(evs)[2] \notin S)
                            /\ (Head(evs)[1] = "leave" => Head(evs)[2] \in S)
                            /\ NoRedundant(Tail(evs), IF Head(evs)[1] = "join" THEN S \cup {Head(evs)[2]} ELSE S \ {Head(evs)[2]})
MembershipExact == Apply(events, {}) = members /\ NoRedundant(events, {})
NoOwnMessages   == \A i \in DOMAIN inbox : inbox[i][1] # Self
OncePerMessage  == \A i, j \in DOMAIN inbox : i # j => inbox[i][2] # inbox[j][2]
InOrder         == \A i, j \in DOMAIN inbox : i < j => inbox[i][2] < inbox[j][2]
=============================================================================
