----------------------------- MODULE CoreLimit -----------------------------
(***************************************************************************)
(* C15: loading a persisted log with a limit (BaseStore.Load(amount), or    *)
(* the MaxHistory option).  On top of every log Core can produce, a fresh   *)
(* store object is opened on replica r's durable state and Load(n) is run  *)
(* as the code runs it: for each cached head, in some order, fetch at most  *)
(* n entries of its ancestry that are not yet in the log (most recent       *)
(* first), join them and keep the n most recent entries of the result.      *)
(* n <= 0 loads everything.  The outcome is kept in `lim` and judged by     *)
(* LimitOK.                                                                 *)
(***************************************************************************)
EXTENDS Core, Integers

VARIABLE lim        \* [set, r, n, res] of the last limited load

lvars == <<vars, lim>>

TopN(en, E, n) == LET o == Order(en, E) IN
                  IF n >= Len(o) THEN E ELSE {o[i] : i \in (Len(o) - n + 1)..Len(o)}

\* load the heads in the order given by the sequence hs
RECURSIVE LoadHeads(_, _, _)
LoadHeads(hs, n, L) ==
    IF hs = <<>> THEN L
    ELSE LET cand == Anc(ent, {Head(hs)}) \ L
             got  == IF n <= 0 THEN cand ELSE TopN(ent, cand, n)
             J    == L \cup got
         IN  LoadHeads(Tail(hs), n, IF n <= 0 THEN J ELSE TopN(ent, J, n))

LoadLimit(r, n, hs) ==
    /\ SetToSeq(cacheLocal[r] \cup cacheRemote[r]) # <<>>
    /\ hs \in SetToSeqs(cacheLocal[r] \cup cacheRemote[r])
    /\ lim' = [set |-> TRUE, r |-> r, n |-> n, res |-> LoadHeads(hs, n, {}), at |-> log[r]]
    /\ UNCHANGED vars

LInit == Init /\ lim = [set |-> FALSE, r |-> "a", n |-> 0, res |-> {}, at |-> {}]
LNext == \/ (Next /\ UNCHANGED lim)
         \/ \E r \in Replica, n \in (0 - 2)..(MaxEntries + 2) : \E hs \in SetToSeqs(cacheLocal[r] \cup cacheRemote[r]) : LoadLimit(r, n, hs)
LSpec == LInit /\ [][LNext]_lvars

SingleWriter(E) == \A a, b \in E : ent[a].w = ent[b].w
LimitOK ==
    lim.set =>
      LET full == Order(ent, lim.at)
          tot  == Len(full)
          res  == lim.res
          k    == IF lim.n > tot THEN tot ELSE lim.n
      IN  IF lim.n <= 0 THEN res = lim.at
          ELSE /\ Cardinality(res) = k
               /\ res \subseteq lim.at
               /\ (tot > 0 => full[tot] \in res)
               /\ (SingleWriter(lim.at) => res = {full[i] : i \in (tot - k + 1)..tot})
=============================================================================
