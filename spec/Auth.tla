-------------------------------- MODULE Auth --------------------------------
(***************************************************************************)
(* C03 / C04: which entries a replica lets into its log.                    *)
(*                                                                         *)
(* An entry, as far as admission is concerned, is described by              *)
(*   claimed : the identity id named in its identity block                  *)
(*   chain   : the id for which the identity block's signature chain is      *)
(*             genuine ("none" if the chain does not verify)                *)
(*   idkey   : the owner of the public key in the identity block            *)
(*   key     : the owner of the entry's signing key field                   *)
(*   signer  : who actually produced the signature                          *)
(*   intact  : the signature matches the entry's content                    *)
(*   hashok  : the content hashes to the address it is announced under      *)
(*             (ancestors are fetched by address, so it holds for them)     *)
(*   db      : "this" or "other" database                                   *)
(*   type    : identity type, "orbitdb" or something the provider cannot    *)
(*             verify                                                       *)
(* A replica receives entries by five routes; for each the code path is:    *)
(*   local     Append: CanAppend before the entry is added                  *)
(*   announce, exchange, manual                                              *)
(*             Sync: CanAppend on the head, re-encode and compare the hash,  *)
(*             then fetch, then Join: CanAppend and Verify for every entry   *)
(*   ancestor  fetched by address, then Join: CanAppend and Verify          *)
(* CanAppend (repaired access controllers) = identity present, of the        *)
(* provider's type, entry key = identity key, identity chain genuine for     *)
(* the claimed id, claimed id in the write list (or wildcard).              *)
(***************************************************************************)
EXTENDS Naturals, FiniteSets, TLC

CONSTANTS Ident,          \* identities (ids); "x" is the attacker, never in an explicit list
          WriteLists,     \* the write lists to consider: sets of ids, "*" for wildcard
          Pinned          \* TRUE: access controllers as pinned (decide on the claimed id alone)

Routes == {"local", "announce", "exchange", "manual", "ancestor"}

Entry == [claimed : Ident, chain : Ident \cup {"none"}, idkey : Ident, key : Ident, signer : Ident,
          intact : BOOLEAN, hashok : BOOLEAN, db : {"this", "other"}, type : {"orbitdb", "foreign"}]

\* what can actually be constructed: nobody but i can make a genuine chain for i or sign with i's keys
Constructible(e, maker) ==
    /\ (e.chain # "none" => (e.chain = e.claimed /\ (e.chain = maker \/ e.idkey = e.chain)))   \* a genuine chain binds claimed id and identity key of the same identity; copying one keeps both
    /\ (e.chain = "none" \/ e.idkey = e.chain)
    /\ e.signer = maker                                                                       \* the maker signs with its own key ...
    /\ (e.intact => e.key = e.signer)                                                          \* ... and a signature only verifies against the signer's key

Listed(id, wl) == "*" \in wl \/ id \in wl

CanAppend(e, wl) == IF Pinned THEN Listed(e.claimed, wl) ELSE
                    /\ e.type = "orbitdb"
                    /\ e.key = e.idkey
                    /\ e.chain = e.claimed
                    /\ Listed(e.claimed, wl)

Verify(e) == e.intact

\* admission as coded, per route
CodeAccepts(e, route, wl) ==
    /\ e.db = "this"
    /\ CanAppend(e, wl)
    /\ Verify(e)
    /\ (route \in {"announce", "exchange", "manual"} => e.hashok)

\* C03: the author is in the write list and the entry is signed with the author's key
Authorised(e, wl) == Listed(e.claimed, wl) /\ e.signer = e.claimed
\* C04: untampered, correctly addressed, for this database
Genuine(e, route) == e.intact /\ e.db = "this" /\ (route # "ancestor" => e.hashok)

VARIABLES e, maker, route, wl, accepted
vars == <<e, maker, route, wl, accepted>>

Init == /\ e \in Entry /\ maker \in Ident /\ Constructible(e, maker)
        /\ (route \in Routes) /\ wl \in WriteLists
        /\ (route = "local" => (e.claimed = maker /\ e.chain = maker /\ e.idkey = maker /\ e.key = maker /\ e.intact /\ e.hashok /\ e.db = "this" /\ e.type = "orbitdb"))
        /\ accepted = CodeAccepts(e, route, wl)
Next == UNCHANGED vars
Spec == Init /\ [][Next]_vars

Safe      == accepted => (Authorised(e, wl) /\ Genuine(e, route))
\* honest entries of listed writers are admitted by every route (no over-rejection)
HonestOK  == (e.claimed = maker /\ e.chain = maker /\ e.idkey = maker /\ e.key = maker /\ e.intact /\ e.hashok
              /\ e.db = "this" /\ e.type = "orbitdb" /\ Listed(maker, wl)) => accepted
=============================================================================
