------------------------------ MODULE ReadView ------------------------------
(***************************************************************************)
(* C07 ("at every moment ... Get and Query return exactly the matching      *)
(* documents of that state"): a reader of the document store against the    *)
(* writes and merges that rebuild its view meanwhile.                        *)
(*                                                                         *)
(* documentIndex.UpdateIndex builds a new map and publishes it in one        *)
(* assignment (see IndexRace.tla for the update itself): each write or merge *)
(* is one step here, PutAll / PutOne(k) / Del(k), which publishes version    *)
(* ver + 1 of the view.                                                     *)
(*                                                                         *)
(* DocumentStore.Get and Query:                                             *)
(*   ReadBegin   SnapshotRead = TRUE (repaired tree): the call takes the     *)
(*               published map once and answers from it.                     *)
(*               FALSE (tree as pinned): it reads the list of keys           *)
(*               (documentIndex.Keys, under the lock) ...                    *)
(*   ReadOne(k)  ... and then the value of each key with a call of its own   *)
(*               (Index().Get, the lock taken again): a key that has left    *)
(*               meanwhile is an error in Get and skipped in Query           *)
(*   ReadEnd     the call returns                                            *)
(***************************************************************************)
EXTENDS Naturals, FiniteSets, TLC

CONSTANTS Keys, MaxVer, NReads,
          SnapshotRead,
          Mode            \* "get" | "query"

VARIABLES view,           \* key -> version that wrote the document shown (0 = absent)
          ver,            \* number of views published so far
          hist,           \* version -> view (history variable: what the answer is compared with)
          rpc, rleft, rans, rfrom, rerr, nreads

vars == <<view, ver, hist, rpc, rleft, rans, rfrom, rerr, nreads>>

Empty == [k \in Keys |-> 0]

Init == /\ view = Empty /\ ver = 0 /\ hist = (0 :> Empty)
        /\ rpc = "idle" /\ rleft = {} /\ rans = Empty /\ rfrom = 0 /\ rerr = FALSE /\ nreads = 0

Publish(v) == /\ ver < MaxVer
              /\ view' = v /\ ver' = ver + 1 /\ hist' = (hist @@ ((ver + 1) :> v))
              /\ UNCHANGED <<rpc, rleft, rans, rfrom, rerr, nreads>>

PutAll == ver < MaxVer /\ Publish([k \in Keys |-> ver + 1])
PutOne(k) == k \in Keys /\ Publish([view EXCEPT ![k] = ver + 1])
Del(k) == view[k] # 0 /\ Publish([view EXCEPT ![k] = 0])

ReadBegin == /\ rpc = "idle" /\ nreads < NReads
             /\ rfrom' = ver /\ rerr' = FALSE /\ nreads' = nreads + 1
             /\ IF SnapshotRead
                  THEN rans' = view /\ rleft' = {} /\ rpc' = "reading"
                  ELSE rans' = Empty /\ rleft' = {k \in Keys : view[k] # 0} /\ rpc' = "reading"
             /\ UNCHANGED <<view, ver, hist>>

ReadOne(k) == /\ rpc = "reading" /\ k \in rleft
              /\ rleft' = rleft \ {k}
              /\ IF view[k] = 0
                   THEN rerr' = (Mode = "get") /\ UNCHANGED rans
                   ELSE rans' = [rans EXCEPT ![k] = view[k]] /\ UNCHANGED rerr
              /\ UNCHANGED <<view, ver, hist, rpc, rfrom, nreads>>

ReadEnd == /\ rpc = "reading" /\ rleft = {}
           /\ rpc' = "done"
           /\ UNCHANGED <<view, ver, hist, rleft, rans, rfrom, rerr, nreads>>

ReadAgain == /\ rpc = "done" /\ rpc' = "idle"
             /\ UNCHANGED <<view, ver, hist, rleft, rans, rfrom, rerr, nreads>>

Next == \/ PutAll \/ \E k \in Keys : PutOne(k) \/ Del(k)
        \/ ReadBegin \/ (\E k \in Keys : ReadOne(k)) \/ ReadEnd \/ ReadAgain

Spec == Init /\ [][Next]_vars

\* C07: what a call returns is the view of one moment between its beginning and its end, and the call does not fail
OneState == rpc = "done" => (~rerr /\ \E v \in rfrom..ver : rans = hist[v])
=============================================================================
