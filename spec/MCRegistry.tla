----------------------------- MODULE MCRegistry -----------------------------
EXTENDS Registry
\* "*" is the wildcard: a list may name it alone or next to identities (the lists differ, so do the addresses)
ListsDef == {{}, {"i1", "i2"}, {"i1"}, {"*"}, {"*", "i1"}}
=============================================================================
