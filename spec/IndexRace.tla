----------------------------- MODULE IndexRace -----------------------------
(***************************************************************************)
(* C06 / C16 / C17: the materialised view of one key-value (or document)   *)
(* store under concurrent writers and one replication batch, at the grain  *)
(* of the index update itself.                                             *)
(*                                                                         *)
(* BaseStore.AddOperation, per calling goroutine g:                         *)
(*   WAppend(g)      append to the log and persist the head (one critical    *)
(*                   section of the store, see WritePath.tla)               *)
(*   WIndexRead(g)   Index.UpdateIndex reads the log as it is now           *)
(*   WIndexWrite(g)  ... and patches the map: for every key that occurs in   *)
(*                   what it read, the newest operation it read wins; keys   *)
(*                   that do not occur are left alone                       *)
(*   WReturn(g)      the write event is emitted and the call returns        *)
(* replicationLoadComplete: BJoin, BIndexRead, BIndexWrite, BDone.          *)
(*                                                                         *)
(* AtomicIndex = TRUE: reading the log and patching the map happen under    *)
(* the index's lock (repaired tree). FALSE is the pinned tree, where the    *)
(* log is read before the lock is taken, so a reader that is overtaken      *)
(* writes a stale map over a fresher one.                                   *)
(***************************************************************************)
EXTENDS Naturals, FiniteSets

CONSTANTS G,            \* writer goroutines, one write each (entry id = g)
          KeyOf,        \* writer -> key it puts
          Batch,        \* TRUE: one remote entry (id 100, key "r") is replicated meanwhile
          AtomicIndex

RemoteId == 100
Keys == {KeyOf[g] : g \in G} \cup {"r"}
Key(e) == IF e = RemoteId THEN "r" ELSE KeyOf[e]

VARIABLES log,      \* set of entries in the log
          ord,      \* local entry -> position among the local appends (the log's total order restricted to one key)
          view,     \* key -> entry whose value the map shows (0 = absent)
          pc, snap, \* per writer: program counter, what its index update read
          bpc, bsnap,
          ilock     \* holder of the index lock while it spans read and write (0 = free)

vars == <<log, ord, view, pc, snap, bpc, bsnap, ilock>>

Ord(e) == IF e = RemoteId THEN 0 ELSE ord[e]
Newest(S, k) == CHOOSE e \in S : Key(e) = k /\ \A f \in S : Key(f) = k => Ord(f) <= Ord(e)
Patch(v, S) == [k \in Keys |-> IF \E e \in S : Key(e) = k THEN Newest(S, k) ELSE v[k]]
Replay(S) == Patch([k \in Keys |-> 0], S)

Init == /\ log = {} /\ ord = [g \in G |-> 0] /\ view = [k \in Keys |-> 0]
        /\ pc = [g \in G |-> "idle"] /\ snap = [g \in G |-> {}]
        /\ bpc = (IF Batch THEN "fetched" ELSE "done") /\ bsnap = {} /\ ilock = 0

WAppend(g) == /\ pc[g] = "idle"
              /\ log' = log \cup {g}
              /\ ord' = [ord EXCEPT ![g] = Cardinality(log \cap G) + 1]
              /\ pc' = [pc EXCEPT ![g] = "appended"]
              /\ UNCHANGED <<view, snap, bpc, bsnap, ilock>>

\* the call has entered UpdateIndex and waits for the index lock (a scheduling step: nothing changes but where g is)
WIndexWait(g) == /\ pc[g] = "appended" /\ AtomicIndex /\ ilock # 0
                 /\ pc' = [pc EXCEPT ![g] = "waiting"]
                 /\ UNCHANGED <<log, ord, view, snap, bpc, bsnap, ilock>>

WIndexRead(g) == /\ pc[g] \in {"appended", "waiting"}
                 /\ (AtomicIndex => ilock = 0)
                 /\ snap' = [snap EXCEPT ![g] = log]
                 /\ ilock' = (IF AtomicIndex THEN g ELSE ilock)
                 /\ pc' = [pc EXCEPT ![g] = "read"]
                 /\ UNCHANGED <<log, ord, view, bpc, bsnap>>

WIndexWrite(g) == /\ pc[g] = "read"
                  /\ view' = Patch(view, snap[g])
                  /\ ilock' = (IF AtomicIndex THEN 0 ELSE ilock)
                  /\ pc' = [pc EXCEPT ![g] = "written"]
                  /\ UNCHANGED <<log, ord, snap, bpc, bsnap>>

WReturn(g) == /\ pc[g] = "written"
              /\ pc' = [pc EXCEPT ![g] = "done"]
              /\ UNCHANGED <<log, ord, view, snap, bpc, bsnap, ilock>>

BJoin == /\ bpc = "fetched"
         /\ log' = log \cup {RemoteId}
         /\ bpc' = "joined"
         /\ UNCHANGED <<ord, view, pc, snap, bsnap, ilock>>

BIndexWait == /\ bpc = "joined" /\ AtomicIndex /\ ilock # 0
              /\ bpc' = "waiting"
              /\ UNCHANGED <<log, ord, view, pc, snap, bsnap, ilock>>

BIndexRead == /\ bpc \in {"joined", "waiting"}
              /\ (AtomicIndex => ilock = 0)
              /\ bsnap' = log
              /\ ilock' = (IF AtomicIndex THEN RemoteId ELSE ilock)
              /\ bpc' = "read"
              /\ UNCHANGED <<log, ord, view, pc, snap>>

BIndexWrite == /\ bpc = "read"
               /\ view' = Patch(view, bsnap)
               /\ ilock' = (IF AtomicIndex THEN 0 ELSE ilock)
               /\ bpc' = "written"
               /\ UNCHANGED <<log, ord, pc, snap, bsnap>>

BDone == /\ bpc = "written"
         /\ bpc' = "done"
         /\ UNCHANGED <<log, ord, view, pc, snap, bsnap, ilock>>

Next == \/ \E g \in G : WAppend(g)
        \/ \E g \in G : WIndexWait(g)
        \/ \E g \in G : WIndexRead(g)
        \/ \E g \in G : WIndexWrite(g)
        \/ \E g \in G : WReturn(g)
        \/ BJoin \/ BIndexWait \/ BIndexRead \/ BIndexWrite \/ BDone

Spec == Init /\ [][Next]_vars

\* behaviours the harness can force: which of several goroutines waiting for a mutex gets it is not under its
\* control, so at most one waits at a time
NoWaiter == (\A g \in G : pc[g] # "waiting") /\ bpc # "waiting"
SWIndexWait(g) == NoWaiter /\ WIndexWait(g)
SBIndexWait == NoWaiter /\ BIndexWait
\* a goroutine that waits takes the lock as soon as it is released: nobody else reads first
SWIndexRead(g) == (NoWaiter \/ pc[g] = "waiting") /\ WIndexRead(g)
SBIndexRead == (NoWaiter \/ bpc = "waiting") /\ BIndexRead
SimNext == \/ \E g \in G : WAppend(g)
           \/ \E g \in G : SWIndexWait(g)
           \/ \E g \in G : SWIndexRead(g)
           \/ \E g \in G : WIndexWrite(g)
           \/ \E g \in G : WReturn(g)
           \/ BJoin \/ SBIndexWait \/ SBIndexRead \/ BIndexWrite \/ BDone
SimSpec == Init /\ [][SimNext]_vars

AtRest == (\A g \in G : pc[g] \in {"idle", "done"}) /\ bpc = "done"
\* C06 / C17: at rest the map is the last-writer-wins replay of the log
RestLWW == AtRest => view = Replay(log)
\* C16 / C17: when a write returns (its event has been emitted) the map shows its entry or a newer one for that key
Shown(e) == view[Key(e)] # 0 /\ Ord(view[Key(e)]) >= Ord(e)
AckShown == [][\A g \in G : (pc[g] = "written" /\ pc'[g] = "done") => Shown(g)]_vars
\* a returned write stays shown
StaysShown == \A g \in G : pc[g] = "done" => Shown(g)
=============================================================================
