----------------------------- MODULE Replicator -----------------------------
(***************************************************************************)
(* stores/replicator/replicator.go and the part of base_store.go that       *)
(* feeds and drains it, at the grain of their critical sections.            *)
(*                                                                         *)
(*   Request(q)      Store.Sync(ctx_q, heads) -> go Replicator.Load: under   *)
(*                   muProcess every head that is neither in the log nor in  *)
(*                   the task table is queued (state added) and one worker   *)
(*                   goroutine is spawned per queued item                    *)
(*   Acquire(w)      the worker gets a slot of the semaphore and, under      *)
(*                   muProcess, dequeues the FIRST queued item (whatever it  *)
(*                   is) and marks it fetching                               *)
(*   AcquireFail(w)  the request's context is done: no slot                  *)
(*   FetchStart(w)   the worker starts the fetch of its item (the entry      *)
(*                   fetcher refuses to start when the context is done)      *)
(*   FetchOk / FetchFail / FetchHang   the fetch ends                        *)
(*   Finish(w)       links (next and refs) of the fetched entry are queued   *)
(*                   with one new worker each (same context); then, under    *)
(*                   muProcess, the task is closed; if nothing is added or   *)
(*                   fetching any more the buffer is emitted as LoadEnd      *)
(*   JoinBatch       the store's main loop joins the logs of a LoadEnd       *)
(*   Cancel(q)       the caller's context ends                               *)
(*                                                                         *)
(* Pinned = TRUE describes the tree as pinned:                              *)
(*   - a worker that gets no slot just ends: the item it was spawned for      *)
(*     stays queued in state added, with nobody left to run it;              *)
(*   - a task whose fetch failed is still marked fetched, for good;          *)
(*   - the helper goroutine that forwards fetch progress exits as soon as    *)
(*     the context is done, and a fetch that completes afterwards blocks     *)
(*     forever on the progress channel (FetchHang);                          *)
(*   - JoinBatch stops at the first log that fails to join.                  *)
(* Pinned = FALSE is the repaired replicator: the task table is shared by     *)
(* all requests, so the workers run under the replicator's own context and   *)
(* a request's context only bounds how long its Load call waits; progress    *)
(* is drained until the fetch returns; a log that fails to join is skipped.  *)
(***************************************************************************)
EXTENDS Naturals, Sequences, FiniteSets, SequencesExt, FiniteSetsExt

CONSTANTS Hash,        \* entry hashes
          Links,       \* hash -> sequence of hashes: next, then refs, in the order the code queues them
          Local,       \* hashes whose block is already local (announced heads are: Sync writes them)
          Bad,         \* entries that the log refuses to join (access controller / signature)
          SyncPass,    \* refused entries that nevertheless pass the checks Sync makes on an announced head (written
                       \* for another database by an authorised writer): queued and fetched, refused at the join
          Cached,      \* entries the store can load from its own cache (a replica restarted and not yet loaded): its
                       \* Load may run while requests are queued or being fetched
          Flaky,       \* hashes whose block may fail to be read while a request is served (a transient error of the
                       \* block store or of the provider); no read fails once the final request has been made
          Forget,      \* TRUE (repaired tree): a hash whose fetch failed is kept as missing and queued again with the
                       \* next request; FALSE (pinned): it is recorded as fetched like any other
          Ghost,       \* hashes whose block no connected peer holds (the provider is offline, or the link is bogus):
                       \* a fetch of one of them gets no answer
          Bounded,     \* TRUE (repaired tree): the fetch of one entry ends after a fixed time and counts as failed;
                       \* FALSE (pinned): it lasts as long as the store lives, with its slot
          Abort,       \* announced heads whose hash does not match their contents: Sync gives the whole announcement up
          NReq,        \* requests are 1..NReq; request NReq is never cancelled
          ReqHeads,    \* request -> sequence of hashes
          Conc,        \* semaphore size
          MaxCancel,
          MaxW,        \* bound on worker ids (quantifier bound only)
          Pinned

VARIABLES tasks, queue, inProg, sem, buffer,   \* replicator
          log,                                 \* the store's log (set of hashes)
          req, ctx,                            \* request -> "new"|"running"|"returned", "live"|"done"
          workers,                             \* sequence of [req, pc, item]
          bus,                                 \* LoadEnd events not yet handled by the main loop
          cancels

vars == <<tasks, queue, inProg, sem, buffer, log, req, ctx, workers, bus, cancels>>

Reqs == 1..NReq
W == DOMAIN workers
SeqToSet(s) == {s[i] : i \in DOMAIN s}

Init == /\ tasks = [h \in Hash |-> "none"]
        /\ queue = <<>> /\ inProg = 0 /\ sem = 0 /\ buffer = <<>>
        /\ log = {}
        /\ req = [q \in Reqs |-> "new"] /\ ctx = [q \in Reqs |-> "live"]
        /\ workers = <<>> /\ bus = <<>> /\ cancels = 0

Known(h) == tasks[h] \notin {"none", "missing"} \/ h \in log

\* queue the not yet known hashes of a sequence, in order, one new worker each
RECURSIVE Enq(_, _, _, _, _)
Enq(hs, q, tk, qu, ws) ==
    IF hs = <<>> THEN [tk |-> tk, qu |-> qu, ws |-> ws]
    ELSE LET h == Head(hs) IN
         IF tk[h] \notin {"none", "missing"} \/ h \in log
            THEN Enq(Tail(hs), q, tk, qu, ws)
            ELSE Enq(Tail(hs), q, [tk EXCEPT ![h] = "added"], Append(qu, h),
                     Append(ws, [req |-> q, pc |-> "spawned", item |-> 0]))

Request(q) ==
    /\ req[q] = "new"
    /\ (q = NReq => \A p \in Reqs \ {NReq} : req[p] # "new")    \* the final request comes last ...
    /\ (q = NReq => \A w \in W : workers[w].pc # "failed")      \* ... and later than every fetch that failed
    /\ LET hs0 == IF \E i \in DOMAIN ReqHeads[q] : ReqHeads[q][i] \in Abort THEN <<>>
                  ELSE IF Pinned THEN ReqHeads[q] ELSE SelectSeq(ReqHeads[q], LAMBDA h : h \notin (Bad \ SyncPass))
           \* every request that reaches the replicator first queues again what could not be fetched earlier
           hs  == IF hs0 = <<>> THEN <<>> ELSE SetToSeq({h \in Hash : tasks[h] = "missing"}) \o hs0
           r  == Enq(hs, q, tasks, queue, workers) IN
         /\ tasks' = r.tk /\ queue' = r.qu /\ workers' = r.ws
    /\ req' = [req EXCEPT ![q] = "running"]
    /\ UNCHANGED <<inProg, sem, buffer, log, ctx, bus, cancels>>

SetW(w, pc, item) == workers' = [workers EXCEPT ![w] = [req |-> @.req, pc |-> pc, item |-> item]]

\* the buffer of fetched logs is handed to the store only when nothing is queued or being fetched: one fetch that
\* never completes keeps everything back (hence Bounded)
IdleWith(tk, ip, qu) == ~(ip > 0 /\ qu # <<>>) /\ \A h \in Hash : tk[h] \notin {"added", "fetching"}

WLive(w) == ~Pinned \/ ctx[workers[w].req] = "live"     \* the context a worker runs under is live

Acquire(w) ==
    /\ w \in W /\ workers[w].pc = "spawned" /\ WLive(w) /\ sem < Conc
    /\ queue # <<>>
    /\ sem' = sem + 1 /\ inProg' = inProg + 1
    /\ queue' = Tail(queue)
    /\ tasks' = [tasks EXCEPT ![Head(queue)] = "fetching"]
    /\ SetW(w, "dequeued", Head(queue))
    /\ UNCHANGED <<buffer, log, req, ctx, bus, cancels>>

AcquireFail(w) ==
    /\ w \in W /\ workers[w].pc = "spawned" /\ ~WLive(w)
    /\ SetW(w, "dead", 0)
    /\ UNCHANGED <<tasks, queue, buffer, bus, inProg, sem, log, req, ctx, cancels>>

FetchStart(w) ==
    /\ w \in W /\ workers[w].pc = "dequeued"
    /\ IF WLive(w) THEN SetW(w, "infetch", workers[w].item)
                                       ELSE SetW(w, "failed", workers[w].item)
    /\ UNCHANGED <<tasks, queue, inProg, sem, buffer, log, req, ctx, bus, cancels>>

\* the block is obtained (it is local, or a connected peer serves it)
FetchOk(w) ==
    /\ w \in W /\ workers[w].pc = "infetch" /\ workers[w].item \notin Ghost
    /\ (WLive(w) \/ workers[w].item \in Local)
    /\ IF ~WLive(w)
         THEN SetW(w, "hung", workers[w].item) /\ UNCHANGED buffer        \* FetchHang
         ELSE SetW(w, "fetched", workers[w].item) /\ buffer' = Append(buffer, workers[w].item)
    /\ UNCHANGED <<tasks, queue, inProg, sem, log, req, ctx, bus, cancels>>

\* the block cannot be read although the worker's context is live (transient error)
FetchErr(w) ==
    /\ w \in W /\ workers[w].pc = "infetch" /\ WLive(w)
    /\ workers[w].item \in Flaky /\ req[NReq] = "new"
    /\ SetW(w, "failed", workers[w].item)
    /\ UNCHANGED <<tasks, queue, inProg, sem, buffer, log, req, ctx, bus, cancels>>

\* nobody answers: the bound on the fetch of one entry expires
FetchTimeout(w) ==
    /\ w \in W /\ workers[w].pc = "infetch" /\ workers[w].item \in Ghost /\ Bounded
    /\ SetW(w, "failed", workers[w].item)
    /\ UNCHANGED <<tasks, queue, inProg, sem, buffer, log, req, ctx, bus, cancels>>

\* the block is not obtained: the context ended while it was being fetched
FetchFail(w) ==
    /\ w \in W /\ workers[w].pc = "infetch" /\ ~WLive(w) /\ workers[w].item \notin Local
    /\ SetW(w, "failed", workers[w].item)
    /\ UNCHANGED <<tasks, queue, inProg, sem, buffer, log, req, ctx, bus, cancels>>

Finish(w) ==
    /\ w \in W /\ workers[w].pc \in {"fetched", "failed"}
    /\ LET it == workers[w].item
           ok == workers[w].pc = "fetched"
           ls == IF ok THEN Links[it] ELSE <<>>
           r  == Enq(ls, workers[w].req, tasks, queue, workers)
           tk == [r.tk EXCEPT ![it] = IF ok \/ ~Forget THEN "fetched" ELSE "missing"]
       IN  /\ tasks' = tk /\ queue' = r.qu
           /\ workers' = [r.ws EXCEPT ![w] = [req |-> @.req, pc |-> "done", item |-> it]]
           /\ inProg' = inProg - 1 /\ sem' = sem - 1
           /\ IF IdleWith(tk, inProg - 1, r.qu) /\ buffer # <<>>
                THEN bus' = Append(bus, buffer) /\ buffer' = <<>>
                ELSE UNCHANGED <<bus, buffer>>
    /\ UNCHANGED <<log, req, ctx, cancels>>

Return(q) ==
    /\ req[q] = "running"
    /\ \/ \A w \in W : workers[w].req = q => workers[w].pc \in {"done", "dead"}
       \/ (~Pinned /\ ctx[q] = "done")            \* repaired: the call stops waiting
    /\ req' = [req EXCEPT ![q] = "returned"]
    /\ UNCHANGED <<tasks, queue, inProg, sem, buffer, log, ctx, workers, bus, cancels>>

Cancel(q) ==
    /\ q # NReq /\ ctx[q] = "live" /\ req[q] # "returned" /\ cancels < MaxCancel
    /\ ctx' = [ctx EXCEPT ![q] = "done"] /\ cancels' = cancels + 1
    /\ UNCHANGED <<tasks, queue, inProg, sem, buffer, log, req, workers, bus>>

\* replicationLoadComplete: join every log of the batch
RECURSIVE JoinSeq(_, _)
JoinSeq(b, lg) == IF b = <<>> THEN lg
                  ELSE IF Head(b) \in Bad
                         THEN (IF Pinned THEN lg ELSE JoinSeq(Tail(b), lg))
                         ELSE JoinSeq(Tail(b), lg \cup {Head(b)})
JoinBatch ==
    /\ bus # <<>>
    /\ log' = JoinSeq(Head(bus), log)
    /\ bus' = Tail(bus)
    /\ UNCHANGED <<tasks, queue, inProg, sem, buffer, req, ctx, workers, cancels>>

\* BaseStore.Load of the store itself: the cached entries enter the log, whatever the replicator is doing with them
StoreLoad == /\ ~(Cached \subseteq log)
             /\ log' = log \cup Cached
             /\ UNCHANGED <<tasks, queue, inProg, sem, buffer, req, ctx, workers, bus, cancels>>

Next == \/ StoreLoad
        \/ \E q \in Reqs : Request(q)
        \/ \E w \in 1..MaxW : Acquire(w)
        \/ \E w \in 1..MaxW : AcquireFail(w)
        \/ \E w \in 1..MaxW : FetchStart(w)
        \/ \E w \in 1..MaxW : FetchOk(w)
        \/ \E w \in 1..MaxW : FetchFail(w)
        \/ \E w \in 1..MaxW : FetchErr(w)
        \/ \E w \in 1..MaxW : FetchTimeout(w)
        \/ \E w \in 1..MaxW : Finish(w)
        \/ \E q \in Reqs : Return(q)
        \/ \E q \in Reqs : Cancel(q)
        \/ JoinBatch

Spec == Init /\ [][Next]_vars
FairSpec == Spec /\ WF_vars(\E w \in 1..MaxW : Acquire(w) \/ AcquireFail(w) \/ FetchStart(w) \/ FetchOk(w) \/ FetchFail(w) \/ FetchTimeout(w) \/ Finish(w))
                 /\ WF_vars(\E q \in Reqs : Request(q) \/ Return(q)) /\ WF_vars(JoinBatch)

(* ------------------------------ properties ------------------------------ *)
RECURSIVE Reach(_)
Reach(S) == LET N == S \cup UNION {SeqToSet(Links[h]) : h \in S} IN IF N = S THEN S ELSE Reach(N)
GoodReach(S) == Reach(S) \ (Bad \cup Ghost)

\* a fetch nobody answers and nothing bounds is at rest too: it will never do anything
Stuck(w) == ~Bounded /\ workers[w].item \in Ghost /\ workers[w].pc \in {"dequeued", "infetch"}
Quiet == /\ \A w \in W : workers[w].pc \in {"done", "dead", "hung"} \/ Stuck(w)
         /\ \A q \in Reqs : req[q] # "new"
         /\ bus = <<>>

\* C11 / C10: once everything has come to rest, everything reachable from the heads of the
\* final, uncancelled request (that the log accepts) is in the log
NoWedge == Quiet => GoodReach(SeqToSet(ReqHeads[NReq])) \subseteq log
\* and no worker is stuck, every request has returned
NoHang  == Quiet => (\A w \in W : workers[w].pc # "hung") /\ (\A q \in Reqs : req[q] = "returned" \/ ENABLED Return(q))
\* bookkeeping invariants of the repaired replicator
QueueMatchesWorkers == ~Pinned => Len(queue) = Cardinality({w \in W : workers[w].pc = "spawned"})
NoDeadWorkers == ~Pinned => \A w \in W : /\ workers[w].pc \notin {"dead", "hung"}
                                         /\ (workers[w].pc = "failed" => workers[w].item \in Flaky \cup Ghost)
SemOK == sem <= Conc /\ sem = inProg
\* liveness form
Eventually == <>[](GoodReach(SeqToSet(ReqHeads[NReq])) \subseteq log)
=============================================================================
