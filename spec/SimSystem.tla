----------------------------- MODULE SimSystem -----------------------------
(* Behaviours of System that the harness can force: the real replicator      *)
(* completes a replication as soon as every missing block can be fetched,    *)
(* so an enabled Replicate step is taken before anything else.               *)
EXTENDS System
CanReplicate(r) == want[r] # {} /\ \A e \in Anc(want[r]) \ log[r] : Available(r, e)
Eager == \E r \in Replica : CanReplicate(r)
SWrite(r) == ~Eager /\ Write(r)
SReceive(m, d) == ~Eager /\ Receive(m, d)
SObserveJoin(m) == ~Eager /\ ObserveJoin(m)
SCut(a, b) == ~Eager /\ Cut(a, b)
SHeal(a, b) == ~Eager /\ Heal(a, b)
SDrop(m) == ~Eager /\ Drop(m)
SRestart(r) == ~Eager /\ Restart(r)
SFinalize == ~Eager /\ Finalize
SimNext == \/ \E r \in Replica : SWrite(r)
           \/ \E m \in MsgSpace, d \in BOOLEAN : SReceive(m, d)
           \/ \E r \in Replica : Replicate(r)
           \/ \E m \in MsgSpace : SObserveJoin(m)
           \/ \E a, b \in Replica : SCut(a, b)
           \/ \E a, b \in Replica : SHeal(a, b)
           \/ \E m \in MsgSpace : SDrop(m)
           \/ \E r \in Replica : SRestart(r)
           \/ SFinalize
SimSpec == Init /\ [][SimNext]_vars
=============================================================================
