----------------------------- MODULE SimSystem -----------------------------
(* Behaviours of System that the harness can force: the real replicator      *)
(* completes a replication as soon as every missing block can be fetched,    *)
(* so an enabled Replicate step is taken before anything else.               *)
EXTENDS System
CanReplicate(r) == want[r] # {} /\ \A e \in Anc(want[r]) \ log[r] : Available(r, e)
Eager == \E r \in Replica : CanReplicate(r)
SWrite(r) == ~Eager /\ Write(r)
SReceive(m, d) == ~Eager /\ Receive(m, d)
SObserveJoin(m) == ~Eager /\ ObserveJoin(m)
SCut(a, b) == ~Eager /\ Cut(a, b)
SHeal(a, b) == ~Eager /\ Heal(a, b)
SDrop(m) == ~Eager /\ Drop(m)
SRestart(r) == ~Eager /\ Restart(r)
SFinalize == ~Eager /\ Finalize
SimNext == \/ \E r \in Replica : SWrite(r)
           \/ \E m \in MsgSpace, d \in BOOLEAN : SReceive(m, d)
           \/ \E r \in Replica : Replicate(r)
           \/ \E m \in MsgSpace : SObserveJoin(m)
           \/ \E a, b \in Replica : SCut(a, b)
           \/ \E a, b \in Replica : SHeal(a, b)
           \/ \E m \in MsgSpace : SDrop(m)
           \/ \E r \in Replica : SRestart(r)
           \/ SFinalize
SimSpec == Init /\ [][SimNext]_vars

(* Trap properties: their negations are given to TLC as invariants; the counterexample is a shortest     *)
(* behaviour reaching a situation from which only one particular mechanism can still deliver an entry,   *)
(* and is replayed on the real code followed by the final phase.                                         *)
Carried(e, b) == \E m \in bag : m.to = b /\ m.kind \in {"pub", "direct"} /\ e \in Anc(m.heads)
\* an entry that only the writer's _localHeads can still bring to a peer: the writer has merged remote
\* entries before (so _remoteHeads is set and does not cover it) and no message carrying it is in flight
TrapLocalHeadNeeded ==
    \E a, b \in Replica, e \in Ids :
        /\ a # b /\ e \in log[a] /\ e \notin log[b] /\ e \in cacheL[a]
        /\ cacheR[a] # {} /\ e \notin Anc(cacheR[a])
        /\ ~Carried(e, b) /\ want[b] = {}
        /\ \A c \in Replica \ {a} : e \notin log[c]
\* an entry that only a third replica's _remoteHeads can bring (relay): the writer is cut off from the peer
TrapRelayNeeded ==
    \E a, b, c \in Replica, e \in Ids :
        /\ a # b /\ b # c /\ a # c
        /\ e \in log[a] /\ e \in log[c] /\ e \notin log[b] /\ e \notin cacheL[c]
        /\ ~Linked(a, b) /\ ~Carried(e, b) /\ want[b] = {}
\* an entry held only by a replica that has restarted since it got it
TrapAfterRestart ==
    \E a, b \in Replica, e \in Ids :
        /\ a # b /\ e \in log[a] /\ e \notin log[b] /\ ~Carried(e, b) /\ want[b] = {} /\ faults > 0
        /\ e \notin cacheL[a] /\ e \in Anc(cacheR[a])
NoTrap1 == ~TrapLocalHeadNeeded
NoTrap2 == ~TrapRelayNeeded
NoTrap3 == ~TrapAfterRestart
=============================================================================
