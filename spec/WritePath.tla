----------------------------- MODULE WritePath -----------------------------
(***************************************************************************)
(* One store at the grain of its critical sections: concurrent local       *)
(* writers (BaseStore.AddOperation), one replication batch at a time        *)
(* (replicationLoadComplete, run by the store's main loop), persistence     *)
(* effects, crash and recovery (reopen + Load(-1)).                        *)
(*                                                                         *)
(* AddOperation, per calling goroutine g:                                   *)
(*   WAppend(g)   log lock: new entry linked to all heads; block written     *)
(*   WPersist(g)  cache put "_localHeads" := [entry]                         *)
(*   WIndex(g)    view := f(log as it is now)                                *)
(*   WEmit(g)     EventWrite(entry)                                          *)
(*   WReturn(g)   the call returns: the write is acknowledged                *)
(* SerialisedPersist = TRUE (repaired tree): Append and Persist of one call *)
(* happen under one store mutex; FALSE is the pinned tree, where the two    *)
(* cache puts of two concurrent calls could land in the opposite order of   *)
(* their appends.                                                           *)
(*                                                                         *)
(* replicationLoadComplete, for a batch B of fetched remote entries:        *)
(*   BJoin  join every entry, then view := f(log)                           *)
(*   BPersist  cache put "_remoteHeads" := Heads(log)                       *)
(*   BEmit  EventReplicated(B): the batch is reported                       *)
(***************************************************************************)
EXTENDS Naturals, Sequences, FiniteSets, FiniteSetsExt, TLC

CONSTANTS G,                 \* writer goroutines (one write each)
          Remote,            \* remote entry ids in the order they are delivered (a sequence)
          RemotePar,         \* remote entry id -> its parents (two remote writers: concurrent branches)
          SerialisedPersist

VARIABLES par,       \* entry id -> set of parent ids (next links); DOMAIN par = entries ever created
          log,       \* entries in the in-memory log
          blocks,    \* entries whose block is on disk
          cacheL, cacheR,   \* persisted "_localHeads", "_remoteHeads"
          idx,       \* entries reflected by the materialised view
          pc, cur,   \* per goroutine: program counter and its entry
          wlock,     \* holder of the store's write mutex (0 = free)
          rnext,     \* number of remote entries already delivered in batches
          bpc, batch,\* replication batch in progress
          acked,     \* entries acknowledged (write returned / batch reported)
          up         \* FALSE after a crash, until recovery

vars == <<par, log, blocks, cacheL, cacheR, idx, pc, cur, wlock, rnext, bpc, batch, acked, up>>

RemoteIds == {Remote[i] : i \in DOMAIN Remote}
LocalId(g) == 100 + g                       \* ids of local entries (G \subseteq Nat)

Heads(E) == {e \in E : \A f \in E : e \notin par[f]}
RECURSIVE AncIn(_, _)
\* ancestry closure of S following links whose block is available in B
AncIn(S, B) == LET S0 == S \cap B
                   N  == S0 \cup ((UNION {par[e] : e \in S0}) \cap B)
               IN  IF N = S0 THEN S0 ELSE AncIn(N, B)
Recoverable == AncIn(cacheL \cup cacheR, blocks)

Init == /\ par = [r \in RemoteIds |-> RemotePar[r]]
        /\ log = {} /\ blocks = {} /\ cacheL = {} /\ cacheR = {} /\ idx = {}
        /\ pc = [g \in G |-> "idle"] /\ cur = [g \in G |-> 0] /\ wlock = 0
        /\ rnext = 0 /\ bpc = "none" /\ batch = {}
        /\ acked = {} /\ up = TRUE

WAppend(g) == /\ up /\ pc[g] = "idle"
             /\ (SerialisedPersist => wlock = 0)
             /\ LET e == LocalId(g) IN
                /\ par' = [x \in DOMAIN par \cup {e} |-> IF x = e THEN Heads(log) ELSE par[x]]
                /\ log' = log \cup {e} /\ blocks' = blocks \cup {e}
                /\ cur' = [cur EXCEPT ![g] = e]
             /\ pc' = [pc EXCEPT ![g] = "appended"]
             /\ wlock' = (IF SerialisedPersist THEN g ELSE wlock)
             /\ UNCHANGED <<cacheL, cacheR, idx, rnext, bpc, batch, acked, up>>

WPersist(g) == /\ up /\ pc[g] = "appended"
              /\ cacheL' = {cur[g]}
              /\ pc' = [pc EXCEPT ![g] = "persisted"]
              /\ wlock' = (IF SerialisedPersist THEN 0 ELSE wlock)
              /\ UNCHANGED <<par, log, blocks, cacheR, idx, cur, rnext, bpc, batch, acked, up>>

WIndex(g) == /\ up /\ pc[g] = "persisted"
            /\ idx' = log
            /\ pc' = [pc EXCEPT ![g] = "indexed"]
            /\ UNCHANGED <<par, log, blocks, cacheL, cacheR, cur, wlock, rnext, bpc, batch, acked, up>>

WEmit(g) == /\ up /\ pc[g] = "indexed"
           /\ pc' = [pc EXCEPT ![g] = "emitted"]
           /\ UNCHANGED <<par, log, blocks, cacheL, cacheR, idx, cur, wlock, rnext, bpc, batch, acked, up>>

WReturn(g) == /\ up /\ pc[g] = "emitted"
             /\ acked' = acked \cup {cur[g]}
             /\ pc' = [pc EXCEPT ![g] = "done"]
             /\ UNCHANGED <<par, log, blocks, cacheL, cacheR, idx, cur, wlock, rnext, bpc, batch, up>>

\* A batch of k further remote entries has been fetched (their blocks are now local)
\* and handed to the main loop.
BStart(k) == /\ up /\ bpc = "none" /\ k >= 1 /\ rnext + k <= Len(Remote)
             /\ batch' = {Remote[i] : i \in (rnext + 1)..(rnext + k)}
             /\ blocks' = blocks \cup batch'
             /\ rnext' = rnext + k
             /\ bpc' = "fetched"
             /\ UNCHANGED <<par, log, cacheL, cacheR, idx, pc, cur, wlock, acked, up>>

BJoin == /\ up /\ bpc = "fetched"
         /\ log' = log \cup batch
         /\ idx' = log \cup batch
         /\ bpc' = "joined"
         /\ UNCHANGED <<par, blocks, cacheL, cacheR, pc, cur, wlock, rnext, batch, acked, up>>

BPersist == /\ up /\ bpc = "joined"
            /\ cacheR' = Heads(log)
            /\ bpc' = "persisted"
            /\ UNCHANGED <<par, log, blocks, cacheL, idx, pc, cur, wlock, rnext, batch, acked, up>>

BEmit == /\ up /\ bpc = "persisted"
         /\ acked' = acked \cup batch
         /\ bpc' = "none" /\ batch' = {}
         /\ UNCHANGED <<par, log, blocks, cacheL, cacheR, idx, pc, cur, wlock, rnext, up>>

\* The process stops at an arbitrary instant; durable state is kept.
Crash == /\ up
         /\ up' = FALSE
         /\ log' = {} /\ idx' = {} /\ wlock' = 0 /\ bpc' = "none" /\ batch' = {}
         /\ pc' = [g \in G |-> IF pc[g] \in {"idle", "done"} THEN pc[g] ELSE "dead"]
         /\ UNCHANGED <<par, blocks, cacheL, cacheR, cur, rnext, acked>>

\* Reopen from the same directory and Load(-1).
Recover == /\ ~up
           /\ up' = TRUE
           /\ log' = Recoverable /\ idx' = Recoverable
           /\ UNCHANGED <<par, blocks, cacheL, cacheR, pc, cur, wlock, rnext, bpc, batch, acked>>

Next == \/ \E g \in G : WAppend(g)
        \/ \E g \in G : WPersist(g)
        \/ \E g \in G : WIndex(g)
        \/ \E g \in G : WEmit(g)
        \/ \E g \in G : WReturn(g)
        \/ \E k \in 1..2 : BStart(k)
        \/ BJoin \/ BPersist \/ BEmit \/ Crash \/ Recover

Spec == Init /\ [][Next]_vars

(* ------------------------------ properties ------------------------------ *)
\* C05 / C17: whatever has been acknowledged is recoverable from the durable state, at every instant
Durable   == acked \subseteq Recoverable
\* C05: recovery yields only entries really written, closed under ancestry
NoPhantom == Recoverable \subseteq blocks /\ \A e \in Recoverable : par[e] \subseteq Recoverable
\* C16: an event is never ahead of the view (and, for replicated batches, of the cached heads):
\* stated on the emitting steps themselves, so no history variable is needed
WriteEventAfterState == [][\A g \in G : (pc[g] = "indexed" /\ pc'[g] = "emitted") => cur[g] \in idx]_vars
ReplEventAfterState  == [][(bpc = "persisted" /\ bpc' = "none" /\ up') =>
                              (batch \subseteq idx /\ batch \subseteq AncIn(cacheL \cup cacheR, DOMAIN par))]_vars
\* C16 / C17: a call returns only after exactly one append, persist, index and emit of its own entry
ReturnAfterAll == [][\A g \in G : (pc[g] # "done" /\ pc'[g] = "done") => (pc[g] = "emitted" /\ cur[g] \in log)]_vars
\* C17: all acknowledged entries are visible once the calls have returned (while up)
AckedVisible == up => acked \subseteq log
AckedInView  == (up /\ \A g \in G : pc[g] \in {"idle", "done", "dead"}) /\ bpc = "none" => acked \subseteq idx
=============================================================================
