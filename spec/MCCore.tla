------------------------------ MODULE MCCore ------------------------------
(* Model-checking wrapper of Core: constant definitions and symmetry.      *)
EXTENDS Core
RankDef == ("a" :> 1 @@ "b" :> 2 @@ "c" :> 3 @@ "d" :> 4)
KVSym == Permutations(Keys) \cup Permutations(Vals)
=============================================================================
