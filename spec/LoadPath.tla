------------------------------ MODULE LoadPath ------------------------------
(***************************************************************************)
(* C11 / C15: loads of one store instance, one after the other, over a      *)
(* persisted chain 1 <- 2 <- ... <- N (N is the cached head).               *)
(*                                                                         *)
(* Every load fetches a part of the chain starting at the head and merges   *)
(* it with Join, which walks the fetched log from its heads and stops at    *)
(* the entries the log already holds (go-ipfs-log `difference`):            *)
(*   Partial(k)  a load with limit k, or a load whose caller gives up after *)
(*               k entries: the k newest entries are fetched                *)
(*   Full        a load without limit that runs to completion               *)
(* FillBelow = TRUE (repaired tree): after the Join an unlimited load also  *)
(* merges, one at a time, the fetched entries that are still missing.       *)
(* FALSE is the pinned tree: once the head is held, nothing below it is      *)
(* ever merged again.                                                       *)
(***************************************************************************)
EXTENDS Naturals, FiniteSets

CONSTANTS N, FillBelow

VARIABLES log,       \* entries the store holds
          complete   \* the last load was a Full one

vars == <<log, complete>>
All == 1..N
Newest(k) == {e \in All : e > N - k}

\* what Join adds: the run of fetched entries from the head downwards that the log does not hold yet
JoinAdds(L, F) == {e \in F : \A j \in e..N : j \in F /\ j \notin L}

Init == log = {} /\ complete = FALSE

Partial(k) == /\ k \in 1..(N - 1)
              /\ log' = log \cup JoinAdds(log, Newest(k))
              /\ complete' = FALSE

Full == /\ log' = (IF FillBelow THEN log \cup All ELSE log \cup JoinAdds(log, All))
        /\ complete' = TRUE

Next == (\E k \in 1..(N - 1) : Partial(k)) \/ Full
Spec == Init /\ [][Next]_vars

\* C15 "a non-positive limit loads everything" / C11 "a later request makes all reachable entries visible"
FullLoadsEverything == complete => log = All
=============================================================================
