----------------------------- MODULE CoreTrace -----------------------------
(***************************************************************************)
(* TraceLog validation for Core: decides whether a sequence of events         *)
(* recorded from the real go-orbit-db (harness command `vh core`, random   *)
(* driver) is a behaviour of Core.  TraceLog actions bind only the *inputs*   *)
(* of each step (who, which operation, which heads); everything the        *)
(* implementation reported after the step is compared by named invariants, *)
(* so that a rejection says which observable disagreed.                    *)
(* Several traces are concatenated, separated by "Reset" events.           *)
(***************************************************************************)
EXTENDS Core, Json, TLCExt

RankDef == ("a" :> 1 @@ "b" :> 2 @@ "c" :> 3 @@ "d" :> 4)

TraceLog == ndJsonDeserialize("trace.ndjson")

VARIABLE l        \* next line of TraceLog to consume

tvars == <<vars, l>>

Ev == TraceLog[l]
IsEvent(e) == l <= Len(TraceLog) /\ TraceLog[l].ev = e /\ l' = l + 1
SetOf(s) == {s[i] : i \in DOMAIN s}

TraceInit == Init /\ l = 1

TraceReset == /\ IsEvent("Reset")
              /\ ent' = <<>>
              /\ log' = [r \in Replica |-> {}]
              /\ clock' = [r \in Replica |-> 0]
              /\ index' = [r \in Replica |-> EmptyIndex]
              /\ cacheLocal' = [r \in Replica |-> {}]
              /\ cacheRemote' = [r \in Replica |-> {}]
              /\ restarts' = 0

TraceWrite == IsEvent("Write") /\ Write(Ev.r, Ev.op)

\* A sync that brings nothing new is a stuttering step of the specification.
TraceSync == /\ IsEvent("Sync")
             /\ \/ Sync(Ev.r, SetOf(Ev.H))
                \/ (SetOf(Ev.H) \subseteq Ids /\ Anc(ent, SetOf(Ev.H)) \subseteq log[Ev.r] /\ UNCHANGED vars)

TraceRestart == IsEvent("Restart") /\ Restart(Ev.r)

TraceNext == TraceReset \/ TraceWrite \/ TraceSync \/ TraceRestart
TraceSpec == TraceInit /\ [][TraceNext]_tvars

(* ----- outputs reported by the implementation after the step just taken -- *)
LastEv == TraceLog[l - 1]
HasObs == l > 1 /\ LastEv.ev \in {"Write", "Sync", "Restart"}

\* C01 / C08: the listing is the specification's total order of the entries held
OrderConforms == HasObs => Order(ent, log[LastEv.r]) = LastEv.order
HeadsConform  == HasObs => Heads(ent, log[LastEv.r]) = SetOf(LastEv.heads)
\* C06 / C07: the view read through Get/All/Query is the replay of the log
ViewConforms  == (HasObs /\ StoreType # "log") => index[LastEv.r] = LastEv.index
\* internal conformance of a new entry with Append's rules (clock, next, refs)
EntryConforms == (l > 1 /\ LastEv.ev = "Write") =>
                    /\ Len(ent) = LastEv.id
                    /\ ent[LastEv.id].t = LastEv.t
                    /\ ent[LastEv.id].nx = SetOf(LastEv.nx)
                    /\ ent[LastEv.id].rf = SetOf(LastEv.rf)

TraceAccepted == TLCGet("stats").diameter - 1 = Len(TraceLog)
=============================================================================
