-------------------------------- MODULE Wire --------------------------------
(***************************************************************************)
(* C12: what a peer does with bytes arriving on its three inputs:           *)
(*   topic   a message on a database's pubsub topic (pubSubChanListener)    *)
(*   direct  a payload on the direct channel (monitorDirectChannel,         *)
(*           handleEventExchangeHeads)                                      *)
(*   frame   a raw length-prefixed frame on a direct-channel stream          *)
(*           (directchannel.handleNewPeer)                                   *)
(* Byte strings are partitioned into classes; for every class the           *)
(* specified outcome is the same: the peer stays alive, no database         *)
(* changes, and the next valid message is handled.  Only a valid message    *)
(* carrying an acceptable head changes the contents.                        *)
(***************************************************************************)
EXTENDS Naturals, Sequences, FiniteSets

CONSTANTS Channels, Classes, MaxMalformed, MaxValid

VARIABLES alive,       \* the process has not crashed
          contents,    \* number of valid heads merged so far (all databases)
          nmal, nval,  \* budgets
          last         \* last delivery, for readability of behaviours

vars == <<alive, contents, nmal, nval, last>>

Init == alive = TRUE /\ contents = 0 /\ nmal = 0 /\ nval = 0 /\ last = <<>>

DeliverMalformed(ch, cls) ==
    /\ alive /\ nmal < MaxMalformed
    /\ nmal' = nmal + 1 /\ last' = <<ch, cls>>
    /\ UNCHANGED <<alive, contents, nval>>

DeliverValid(ch) ==
    /\ alive /\ nval < MaxValid /\ ch # "frame"
    /\ nval' = nval + 1 /\ contents' = contents + 1 /\ last' = <<ch, "valid">>
    /\ UNCHANGED <<alive, nmal>>

Next == \/ \E ch \in Channels, cls \in Classes : DeliverMalformed(ch, cls)
        \/ \E ch \in Channels : DeliverValid(ch)

Spec == Init /\ [][Next]_vars

StaysAlive == alive
OnlyValidChanges == [][contents' # contents => (\E ch \in Channels : last' = <<ch, "valid">>)]_vars
ValidCounted == contents = nval
=============================================================================
