----------------------------- MODULE HeadsCache -----------------------------
(***************************************************************************)
(* One replica over several runs of its process: what its cache says the    *)
(* heads are ("_localHeads", "_remoteHeads") against what its log in        *)
(* memory holds. A store replicates from the moment it is opened, i.e.      *)
(* before its owner can call Load, and a load may be limited (Load(n), the  *)
(* MaxHistory option): the log in memory is then NOT the whole database.    *)
(*                                                                         *)
(*   Open            NewOrbitDB + Open on the same directory: log empty      *)
(*   LoadFull        Load(-1): everything the cached heads lead to           *)
(*   LoadLimited(n)  Load(n): the log is cut to its n newest entries         *)
(*   Write           AddOperation: entry on top of the heads in memory;      *)
(*                   cache put "_localHeads"                                 *)
(*   Replicate(h)    Sync of head h, fetch of what the log lacks below it,   *)
(*                   join, cache put "_remoteHeads", EventReplicated         *)
(*   Stop            the process ends (clean close or crash: the cache puts  *)
(*                   are durable once they have returned)                    *)
(*                                                                         *)
(* KeepCachedHeads = FALSE is the tree as pinned: each put REPLACES the      *)
(* cached heads by heads computed from the log in memory. TRUE is the       *)
(* repaired tree: cached heads the log in memory does not hold are kept.     *)
(***************************************************************************)
EXTENDS Naturals, Sequences, FiniteSets, FiniteSetsExt, TLC

CONSTANTS NLocal,            \* number of local writes
          RemoteIds,         \* remote entry ids
          RemotePar,         \* remote entry id -> parents
          RemoteClock,       \* remote entry id -> Lamport time
          RemoteWriter,      \* remote entry id -> writer (2, 3; the local writer is 1): breaks ties of equal times
          MaxStops,
          KeepCachedHeads,
          ReadFirst          \* TRUE (repaired tree): a write reads the cached heads it must keep before it appends its
                             \* entry; FALSE: after (a Load in between makes a cached head look superseded)

VARIABLES par, clock,        \* entry id -> parents, Lamport time; DOMAIN = entries ever created
          log, lclock,       \* entries of the log in memory, and its Lamport time
          blocks,            \* entries whose block is on disk
          cacheL, cacheR,    \* persisted "_localHeads", "_remoteHeads"
          acked,             \* entries acknowledged (write returned / batch reported)
          up, loaded,        \* process running; "no" | "part" | "full"
          seen,              \* hashes the replicator of this run has fetched: it does not fetch them again, even
                             \* after a limited load has cut them off the log
          wpc, wkept,        \* a write in two steps on a store that has not loaded: "idle" | "appended", heads it read
          cut,               \* entries a limited load of this run has cut off the log (see Replicate)
          nloc, stops

vars == <<par, clock, log, lclock, blocks, cacheL, cacheR, acked, up, loaded, seen, wpc, wkept, cut, nloc, stops>>

LocalId(i) == 100 + i
Writer(e) == IF e > 100 THEN 1 ELSE RemoteWriter[e]
Heads(E) == {e \in E : \A f \in E : e \notin par[f]}
Max0(S) == IF S = {} THEN 0 ELSE Max(S)

RECURSIVE AncIn(_, _)
AncIn(S, B) == LET S0 == S \cap B
                   N  == S0 \cup ((UNION {par[e] : e \in S0}) \cap B)
               IN  IF N = S0 THEN S0 ELSE AncIn(N, B)
Recoverable == AncIn(cacheL \cup cacheR, blocks)
\* what a fetch from S brings: it follows links until it meets something known (X)
RECURSIVE Fetch(_, _)
Fetch(S, X) == LET S0 == S \ X
                   N  == S0 \cup ((UNION {par[e] : e \in S0}) \ X)
               IN  IF N = S0 THEN S0 ELSE Fetch(N, X)

\* the order of the log (last write wins: time, then writer); the n newest entries of a set
Before(e, f) == clock[e] < clock[f] \/ (clock[e] = clock[f] /\ Writer(e) < Writer(f))
Newest(E, n) == {e \in E : Cardinality({f \in E : Before(e, f)}) < n}

Init == /\ par = RemotePar /\ clock = RemoteClock
        /\ log = {} /\ lclock = 0 /\ blocks = {} /\ cacheL = {} /\ cacheR = {}
        /\ acked = {} /\ up = TRUE /\ loaded = "full" /\ seen = {} /\ wpc = "idle" /\ wkept = {} /\ cut = {} /\ nloc = 0 /\ stops = 0

Kept(c, lg) == IF KeepCachedHeads THEN c \ lg ELSE {}

\* writes are made through a store that has loaded (C01's assumption: otherwise two entries of one writer carry the same time)
Write == /\ up /\ loaded # "no" /\ wpc = "idle" /\ nloc < NLocal
         /\ LET e == LocalId(nloc + 1)
                t == Max0({lclock} \cup {clock[h] : h \in Heads(log)}) + 1 IN
            /\ par' = [x \in DOMAIN par \cup {e} |-> IF x = e THEN Heads(log) ELSE par[x]]
            /\ clock' = [x \in DOMAIN clock \cup {e} |-> IF x = e THEN t ELSE clock[x]]
            /\ lclock' = t
            /\ log' = log \cup {e} /\ blocks' = blocks \cup {e}
            /\ cacheL' = {e} \cup Kept(cacheL, log')
            /\ acked' = acked \cup {e}
         /\ nloc' = nloc + 1
         /\ UNCHANGED <<cacheR, up, loaded, seen, wpc, wkept, cut, stops>>

\* a write on a store that has been opened and not loaded yet, at the grain of AddOperation: the entry is appended
\* (WriteBegin), then "_localHeads" is put (WriteEnd); the owner's Load may run in between
WriteBegin == /\ up /\ loaded = "no" /\ wpc = "idle" /\ nloc < NLocal
              \* C01's assumption: no two entries of one writer carry the same time (a store that has not loaded does not
              \* know the times it has used: the write is considered only where the time it takes is a new one)
              /\ \A x \in DOMAIN clock : Writer(x) = 1 => clock[x] # Max0({lclock} \cup {clock[h] : h \in Heads(log)}) + 1
              /\ LET e == LocalId(nloc + 1)
                     t == Max0({lclock} \cup {clock[h] : h \in Heads(log)}) + 1 IN
                 /\ par' = [x \in DOMAIN par \cup {e} |-> IF x = e THEN Heads(log) ELSE par[x]]
                 /\ clock' = [x \in DOMAIN clock \cup {e} |-> IF x = e THEN t ELSE clock[x]]
                 /\ lclock' = t
                 /\ log' = log \cup {e} /\ blocks' = blocks \cup {e}
              /\ wkept' = (IF ReadFirst THEN Kept(cacheL, log) ELSE {})
              /\ wpc' = "appended" /\ nloc' = nloc + 1
              /\ UNCHANGED <<cacheL, cacheR, acked, up, loaded, seen, cut, stops>>

WriteEnd == /\ up /\ wpc = "appended"
            /\ LET e == LocalId(nloc) IN
               /\ cacheL' = {e} \cup (IF ReadFirst THEN wkept ELSE Kept(cacheL, log))
               /\ acked' = acked \cup {e}
            /\ wpc' = "idle" /\ wkept' = {}
            /\ UNCHANGED <<par, clock, log, lclock, blocks, cacheR, up, loaded, seen, cut, nloc, stops>>

\* a remote writer's head is announced (or received in a head exchange): everything below it that the log in
\* memory lacks is fetched and joined
Replicate(h) ==
    /\ up /\ h \in RemoteIds /\ h \notin log /\ h \notin seen
    \* not modelled: entries that a limited load of this run has cut off and that come back through replication. The
    \* log of go-ipfs-log keeps its index of links when it is cut, such an entry is held again but not listed unless
    \* everything between it and a head is held too; no listed property speaks about it (a full load brings them back)
    /\ Fetch({h}, log \cup seen) \cap cut = {}
    /\ LET got == Fetch({h}, log \cup seen) IN
       /\ blocks' = blocks \cup got
       /\ log' = log \cup got
       /\ lclock' = Max0({lclock} \cup {clock[e] : e \in got})
       /\ cacheR' = Heads(log') \cup Kept(cacheR, log')
       /\ acked' = acked \cup got
       /\ seen' = seen \cup got
    /\ UNCHANGED <<par, clock, cacheL, up, loaded, wpc, wkept, cut, nloc, stops>>

LoadFull == /\ up /\ loaded # "full"
            /\ log' = log \cup Recoverable
            /\ lclock' = Max0({lclock} \cup {clock[e] : e \in Recoverable})
            /\ loaded' = "full" /\ cut' = {}
            /\ UNCHANGED <<par, clock, blocks, cacheL, cacheR, acked, up, seen, wpc, wkept, nloc, stops>>

LoadLimited(n) ==
    /\ up /\ n >= 1 /\ n < Cardinality(log \cup Recoverable)
    /\ wpc = "idle"      \* (a limited load racing a write that started before any load may cut the entry just appended: not modelled)
    /\ log' = Newest(log \cup Recoverable, n)
    /\ lclock' = Max0({lclock} \cup {clock[e] : e \in Recoverable})
    /\ loaded' = "part"
    /\ cut' = (cut \cup log \cup Recoverable) \ log'
    /\ UNCHANGED <<par, clock, blocks, cacheL, cacheR, acked, up, seen, wpc, wkept, nloc, stops>>

Stop == /\ up /\ wpc = "idle" /\ stops < MaxStops
        /\ up' = FALSE /\ log' = {} /\ lclock' = 0 /\ loaded' = "no" /\ seen' = {} /\ cut' = {} /\ stops' = stops + 1
        /\ UNCHANGED <<par, clock, blocks, cacheL, cacheR, acked, wpc, wkept, nloc>>

Open == /\ ~up /\ up' = TRUE
        /\ UNCHANGED <<par, clock, log, lclock, blocks, cacheL, cacheR, acked, loaded, seen, wpc, wkept, cut, nloc, stops>>

Next == \/ Write \/ WriteBegin \/ WriteEnd \/ LoadFull \/ Stop \/ Open
        \/ \E h \in RemoteIds : Replicate(h)
        \/ \E n \in 1..3 : LoadLimited(n)

Spec == Init /\ [][Next]_vars

\* C05: whatever has been acknowledged is reached from the cached heads, at every instant
Durable   == acked \subseteq Recoverable
NoPhantom == Recoverable \subseteq blocks /\ \A e \in Recoverable : par[e] \subseteq Recoverable
\* a full load shows everything acknowledged
FullIsFull == (up /\ loaded = "full") => acked \subseteq log
=============================================================================
