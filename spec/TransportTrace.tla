--------------------------- MODULE TransportTrace ---------------------------
(***************************************************************************)
(* C20, trace validation: what a transport adapter (pubsubraw over real      *)
(* libp2p gossipsub on a mock network; harness command `vh pubsubraw`)       *)
(* reported to the local peer is checked against what the driver made the   *)
(* remote peers do.  Inputs (driver): Join(p), Leave(p), Publish(p, x).      *)
(* Outputs (adapter): Report(join|leave, p), Deliver(x).  The driver waits   *)
(* for the output an input calls for before its next input, so at a Reset    *)
(* (and at the end) nothing may be outstanding.                              *)
(* A trace is accepted when every line is a step of TraceSpec: a Report that *)
(* repeats or contradicts the membership, a delivery of the local peer's own *)
(* payload, a second delivery, a delivery out of the sender's order or of    *)
(* a payload nobody published leaves the line without an enabled action.     *)
(***************************************************************************)
EXTENDS Naturals, Sequences, FiniteSets, Json, TLC, TLCExt

CONSTANTS Self

TraceLog == ndJsonDeserialize("trace.ndjson")

VARIABLES truth,      \* remote peers subscribed to the topic (driver's ground truth)
          reported,   \* remote peers the adapter has reported as members
          pending,    \* sender -> payloads published and not yet delivered, oldest first
          delivered,  \* payloads delivered so far
          l
vars == <<truth, reported, pending, delivered, l>>

Ev == TraceLog[l]
IsEvent(e) == l <= Len(TraceLog) /\ TraceLog[l].ev = e /\ l' = l + 1
Senders == DOMAIN pending

Init == truth = {} /\ reported = {} /\ pending = <<>> /\ delivered = {} /\ l = 1

Settled == reported = truth /\ \A s \in Senders \ {Self} : pending[s] = <<>>

TraceReset == /\ IsEvent("Reset") /\ Settled
              /\ truth' = {} /\ reported' = {} /\ pending' = <<>> /\ delivered' = {}

TraceJoin == /\ IsEvent("Join") /\ Ev.peer \notin truth
             /\ truth' = truth \cup {Ev.peer}
             /\ UNCHANGED <<reported, pending, delivered>>

TraceLeave == /\ IsEvent("Leave") /\ Ev.peer \in truth
              /\ truth' = truth \ {Ev.peer}
              /\ UNCHANGED <<reported, pending, delivered>>

\* exactly one report per change, and only of a change that happened
TraceReport == /\ IsEvent("Report")
               /\ \/ (Ev.kind = "join" /\ Ev.peer \in truth /\ Ev.peer \notin reported /\ reported' = reported \cup {Ev.peer})
                  \/ (Ev.kind = "leave" /\ Ev.peer \notin truth /\ Ev.peer \in reported /\ reported' = reported \ {Ev.peer})
               /\ UNCHANGED <<truth, pending, delivered>>

Pend(s) == IF s \in Senders THEN pending[s] ELSE <<>>
TracePublish == /\ IsEvent("Publish")
                /\ pending' = [s \in Senders \cup {Ev.peer} |-> IF s = Ev.peer THEN Append(Pend(s), Ev.payload) ELSE pending[s]]
                /\ UNCHANGED <<truth, reported, delivered>>

\* the next payload of some remote sender, never delivered before; the local peer's own payloads never arrive
TraceDeliver == /\ IsEvent("Deliver")
                /\ Ev.payload \notin delivered
                /\ \E s \in Senders \ {Self} :
                      /\ pending[s] # <<>> /\ Head(pending[s]) = Ev.payload
                      /\ pending' = [pending EXCEPT ![s] = Tail(@)]
                /\ delivered' = delivered \cup {Ev.payload}
                /\ UNCHANGED <<truth, reported>>

\* the driver gave a run up because the underlying pubsub did not propagate a subscription: the state is dropped
TraceAbandon == /\ IsEvent("Abandon")
                /\ truth' = {} /\ reported' = {} /\ pending' = <<>> /\ delivered' = {}
TraceResetAfterAbandon == /\ IsEvent("Reset") /\ l > 1 /\ TraceLog[l - 1].ev = "Abandon"
                          /\ UNCHANGED <<truth, reported, pending, delivered>>

TraceNext == TraceAbandon \/ TraceResetAfterAbandon \/ TraceReset \/ TraceJoin \/ TraceLeave \/ TraceReport \/ TracePublish \/ TraceDeliver
TraceSpec == Init /\ [][TraceNext]_vars

\* the local peer's own payloads stay pending for ever: they are not "outstanding"
TraceAccepted == TLCGet("stats").diameter - 1 = Len(TraceLog)
=============================================================================
