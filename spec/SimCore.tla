------------------------------ MODULE SimCore ------------------------------
(* Simulation wrapper of Core: carries the derived observations (total      *)
(* order and heads per replica) in a variable, so that behaviours written   *)
(* by `tlc -simulate` contain what the replay harness compares.             *)
EXTENDS Core
RankDef == ("a" :> 1 @@ "b" :> 2 @@ "c" :> 3 @@ "d" :> 4)

VARIABLE obs
ObsOf(en, lg) == [r \in Replica |-> [order |-> Order(en, lg[r]), heads |-> Heads(en, lg[r])]]
SimInit == Init /\ obs = ObsOf(ent, log)
SWrite(r, op) == Write(r, op) /\ obs' = ObsOf(ent', log')
SSync(r, H)   == Sync(r, H) /\ obs' = ObsOf(ent', log')
SRestart(r)   == Restart(r) /\ obs' = ObsOf(ent', log')
SimNext == \/ \E r \in Writer, op \in Ops : SWrite(r, op)
           \/ \E r \in Replica, H \in SUBSET (1..MaxEntries) : SSync(r, H)
           \/ \E r \in Replica : SRestart(r)
SimSpec == SimInit /\ [][SimNext]_<<vars, obs>>
=============================================================================
