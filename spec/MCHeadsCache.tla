---------------------------- MODULE MCHeadsCache ----------------------------
EXTENDS HeadsCache
\* two remote writers: 1 <- 2 by writer 2, and 3 by writer 3, concurrent with both
RIds == {1, 2, 3}
RPar == (1 :> {} @@ 2 :> {1} @@ 3 :> {})
RClock == (1 :> 1 @@ 2 :> 2 @@ 3 :> 1)
RWriter == (1 :> 2 @@ 2 :> 2 @@ 3 :> 3)
\* behaviours that dwell on loads: the database is filled first, then only loads (full and limited) and restarts follow
\* (random simulation of Spec meets "a limited load after a smaller limited load" too rarely for the quick tier)
Filling == up /\ loaded = "full" /\ Cardinality(log) < 4 /\ stops = 0
LWrite == Filling /\ Write
LReplicate(h) == Filling /\ Replicate(h)
LLoadFull == ~Filling /\ LoadFull
LLoadLimited(n) == ~Filling /\ LoadLimited(n)
LStop == ~Filling /\ Stop
LoadsNext == LWrite \/ LLoadFull \/ LStop \/ Open \/ (\E h \in RemoteIds : LReplicate(h)) \/ (\E n \in 1..3 : LLoadLimited(n))
LoadsSpec == Init /\ [][LoadsNext]_vars
=============================================================================
