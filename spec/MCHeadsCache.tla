---------------------------- MODULE MCHeadsCache ----------------------------
EXTENDS HeadsCache
\* two remote writers: 1 <- 2 by writer 2, and 3 by writer 3, concurrent with both
RIds == {1, 2, 3}
RPar == (1 :> {} @@ 2 :> {1} @@ 3 :> {})
RClock == (1 :> 1 @@ 2 :> 2 @@ 3 :> 1)
RWriter == (1 :> 2 @@ 2 :> 2 @@ 3 :> 3)
=============================================================================
