SPECIFICATION Spec
CONSTANTS N = 4  C = 1  BusCap = 2  Bypass = TRUE
INVARIANTS Ordered
CHECK_DEADLOCK FALSE
