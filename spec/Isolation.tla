----------------------------- MODULE Isolation -----------------------------
(***************************************************************************)
(* C09: several databases opened by one instance (default wiring: all       *)
(* stores and their replicators share the instance's event bus).            *)
(* Per database d the observable state is                                    *)
(*   contents[d]  number of entries visible                                 *)
(*   status[d]    replication progress/max                                  *)
(*   events[d]    store events emitted with d's address                     *)
(*   sent[d]      messages published on d's topic / sent for d's address    *)
(* Every action belongs to one database and leaves the observables of all   *)
(* others unchanged; what it emits and sends carries only its own entries.  *)
(***************************************************************************)
EXTENDS Naturals, Sequences, FiniteSets

CONSTANTS DB,          \* databases of the instance
          Closed,      \* databases whose write list does not name the remote writer
          MaxOps

VARIABLES contents, status, events, sent, remote, nops

vars == <<contents, status, events, sent, remote, nops>>

Init == /\ contents = [d \in DB |-> 0] /\ status = [d \in DB |-> 0]
        /\ events = [d \in DB |-> 0] /\ sent = [d \in DB |-> 0]
        /\ remote = [d \in DB |-> 0]      \* entries written by the remote writer of d, not yet replicated
        /\ nops = 0

Step == nops < MaxOps /\ nops' = nops + 1

\* local write: one entry, one write event, one announcement on d's topic
Write(d) == /\ Step
            /\ contents' = [contents EXCEPT ![d] = @ + 1]
            /\ status' = [status EXCEPT ![d] = contents'[d]]
            /\ events' = [events EXCEPT ![d] = @ + 1]
            /\ sent' = [sent EXCEPT ![d] = @ + 1]
            /\ UNCHANGED remote

\* the remote writer of d writes k entries (nothing changes locally)
RemoteWrite(d) == /\ Step /\ remote' = [remote EXCEPT ![d] = @ + 1]
                  /\ UNCHANGED <<contents, status, events, sent>>

\* the remote heads of d are delivered and replicated: one replicated event, no message sent
\* (for a database closed to the remote writer the heads are refused, whatever the same writer was allowed to
\* do in the other databases of the instance: nothing changes)
Replicate(d) == /\ Step /\ remote[d] > 0
                /\ remote' = [remote EXCEPT ![d] = 0]
                /\ IF d \in Closed
                     THEN UNCHANGED <<contents, status, events, sent>>
                     ELSE /\ contents' = [contents EXCEPT ![d] = @ + remote[d]]
                          /\ status' = [status EXCEPT ![d] = contents'[d]]
                          /\ events' = [events EXCEPT ![d] = @ + 1]
                          /\ UNCHANGED sent

\* close, reopen and load d from disk
Reload(d) == /\ Step
             /\ UNCHANGED <<contents, status, sent, remote>>
             /\ events' = [events EXCEPT ![d] = @]

\* a head that names another database of the instance as its log is delivered on d's topic by the remote writer
\* (who may write to d): d refuses it, and nothing changes for the database it names either
Foreign(d) == /\ Step /\ d \notin Closed
              /\ UNCHANGED <<contents, status, events, sent, remote>>

\* the remote writer of d writes an operation the index of this implementation cannot read (another implementation's
\* encoding of a value) and it is replicated: d's own view is out of the model from here on (its index update fails
\* half-way, every time); nothing changes for the others, now or later
Garbage(d) == /\ Step /\ d \notin Closed
              /\ UNCHANGED <<contents, status, events, sent, remote>>

Next == \/ \E d \in DB : Foreign(d)
        \/ \E d \in DB : Garbage(d)
        \/ \E d \in DB : Write(d)
        \/ \E d \in DB : RemoteWrite(d)
        \/ \E d \in DB : Replicate(d)
        \/ \E d \in DB : Reload(d)
Spec == Init /\ [][Next]_vars

Obs(d) == <<contents[d], status[d], events[d], sent[d]>>
\* at most one database's observables change per step
NonInterference == [][\A d1, d2 \in DB : (d1 # d2 /\ Obs(d1)' # Obs(d1)) => Obs(d2)' = Obs(d2)]_vars
StatusIsCount == \A d \in DB : status[d] = contents[d]
=============================================================================
