------------------------------ MODULE Emitter ------------------------------
(***************************************************************************)
(* The legacy channel API of go-orbit-db (events/events.go,                *)
(* EventEmitter.handleSubscriber): every subscriber gets a buffered         *)
(* channel of capacity C backed by an overflow queue and two goroutines.   *)
(*                                                                         *)
(*   goroutine A: receive the next event from the bus subscription, then,   *)
(*                under the condition lock: if the overflow queue is empty  *)
(*                and the channel has room put it in the channel, else      *)
(*                append it to the overflow queue (action Place);           *)
(*   goroutine B: under the lock take the head of the overflow queue        *)
(*                (Dequeue), release the lock, send it on the channel       *)
(*                (Send, blocks while full), take the lock again (Relock);  *)
(*   reader     : receives from the channel at its own pace (Read).         *)
(*                                                                         *)
(* Receiving from the subscription commutes with every other step, so it    *)
(* is merged into Place.  Bypass = TRUE is the pinned tree before the fix:  *)
(* A used the channel directly whenever the queue was empty, even while B   *)
(* was still holding a dequeued event.                                     *)
(***************************************************************************)
EXTENDS Naturals, Sequences, SequencesExt

CONSTANTS N,        \* number of events emitted
          C,        \* capacity of the subscriber channel (16 in the code)
          BusCap,   \* capacity of the bus subscription channel (16)
          Bypass    \* TRUE: behaviour of the pinned tree (defect), FALSE: repaired

VARIABLES nxt,      \* next event to emit (events are 1..N, emitted in order)
          inq,      \* bus subscription channel (plus the event in A's hand)
          q,        \* overflow queue
          ch,       \* subscriber channel
          g2,       \* event held by B (0 = none); kept until B has the lock again
          pcB,      \* "wait" | "hold" | "sent"
          out       \* what the reader has received

vars == <<nxt, inq, q, ch, g2, pcB, out>>

Init == nxt = 1 /\ inq = <<>> /\ q = <<>> /\ ch = <<>> /\ g2 = 0 /\ pcB = "wait" /\ out = <<>>

Emit == /\ nxt <= N /\ Len(inq) < BusCap
        /\ inq' = Append(inq, nxt) /\ nxt' = nxt + 1
        /\ UNCHANGED <<q, ch, g2, pcB, out>>

Direct == q = <<>> /\ Len(ch) < C /\ (Bypass \/ g2 = 0)

Place == /\ inq # <<>>
         /\ IF Direct THEN ch' = Append(ch, Head(inq)) /\ q' = q
                      ELSE q' = Append(q, Head(inq)) /\ ch' = ch
         /\ inq' = Tail(inq)
         /\ UNCHANGED <<nxt, g2, pcB, out>>

Dequeue == /\ pcB = "wait" /\ q # <<>>
           /\ g2' = Head(q) /\ q' = Tail(q) /\ pcB' = "hold"
           /\ UNCHANGED <<nxt, inq, ch, out>>

Send == /\ pcB = "hold" /\ Len(ch) < C
        /\ ch' = Append(ch, g2) /\ pcB' = "sent"
        /\ UNCHANGED <<nxt, inq, q, g2, out>>

Relock == /\ pcB = "sent"
          /\ g2' = 0 /\ pcB' = "wait"
          /\ UNCHANGED <<nxt, inq, q, ch, out>>

Read == /\ ch # <<>>
        /\ out' = Append(out, Head(ch)) /\ ch' = Tail(ch)
        /\ UNCHANGED <<nxt, inq, q, g2, pcB>>

Next == Emit \/ Place \/ Dequeue \/ Send \/ Relock \/ Read
Spec == Init /\ [][Next]_vars
FairSpec == Spec /\ WF_vars(Place) /\ WF_vars(Dequeue) /\ WF_vars(Send) /\ WF_vars(Relock) /\ WF_vars(Read) /\ WF_vars(Emit)

All == [i \in 1..N |-> i]
\* C16: every subscriber receives events in emission order, without loss or duplication
Ordered  == IsPrefix(out, All)
Drained  == nxt = N + 1 /\ inq = <<>> /\ q = <<>> /\ ch = <<>> /\ pcB = "wait"
Lossless == Drained => out = All
Delivered == <>(out = All)
=============================================================================
