---------------------------- MODULE SimReplicator ----------------------------
(* Behaviours of Replicator that the harness forces on the real replicator:   *)
(* the simulated block exchange serves blocks at once, so starting a fetch    *)
(* and its completion are one step here (SFetch).                             *)
EXTENDS Replicator
SFetch(w) ==
    /\ w \in W /\ workers[w].pc = "dequeued" /\ workers[w].item \notin Ghost
    /\ IF WLive(w)
         THEN SetW(w, "fetched", workers[w].item) /\ buffer' = Append(buffer, workers[w].item)
         ELSE SetW(w, "failed", workers[w].item) /\ UNCHANGED buffer
    /\ UNCHANGED <<tasks, queue, inProg, sem, log, req, ctx, bus, cancels>>
\* the main loop handles a LoadEnd under the lock Load needs: in the replay Load runs when no batch is waiting
SStoreLoad == bus = <<>> /\ StoreLoad
\* the read of the block fails: the driver denies the block for the time of this fetch
SFetchErr(w) ==
    /\ w \in W /\ workers[w].pc = "dequeued" /\ WLive(w)
    /\ workers[w].item \in Flaky /\ req[NReq] = "new"
    /\ SetW(w, "failed", workers[w].item)
    /\ UNCHANGED <<tasks, queue, inProg, sem, buffer, log, req, ctx, bus, cancels>>
\* nobody answers the fetch: it ends when its bound expires
SFetchTimeout(w) ==
    /\ w \in W /\ workers[w].pc = "dequeued" /\ WLive(w)
    /\ workers[w].item \in Ghost /\ Bounded
    /\ SetW(w, "failed", workers[w].item)
    /\ UNCHANGED <<tasks, queue, inProg, sem, buffer, log, req, ctx, bus, cancels>>
SimNext == \/ SStoreLoad
           \/ \E w \in 1..MaxW : SFetchTimeout(w)
           \/ \E w \in 1..MaxW : SFetchErr(w)
           \/ \E q \in Reqs : Request(q)
           \/ \E w \in 1..MaxW : Acquire(w)
           \/ \E w \in 1..MaxW : AcquireFail(w)
           \/ \E w \in 1..MaxW : SFetch(w)
           \/ \E w \in 1..MaxW : Finish(w)
           \/ \E q \in Reqs : Return(q)
           \/ \E q \in Reqs : Cancel(q)
           \/ JoinBatch
SimSpec == Init /\ [][SimNext]_vars
\* entry 4 links to 2 and to a block nobody provides (5)
LinksI == (1 :> <<>> @@ 2 :> <<1>> @@ 3 :> <<2, 1>> @@ 4 :> <<2, 5>> @@ 5 :> <<>>)
LinksDef == (1 :> <<>> @@ 2 :> <<1>> @@ 3 :> <<2, 1>> @@ 4 :> <<2, 1>>)
HeadsA == (1 :> <<3>> @@ 2 :> <<2, 4>> @@ 3 :> <<3, 4>>)
HeadsB == (1 :> <<2, 3>> @@ 2 :> <<4, 3, 2>> @@ 3 :> <<3, 4>>)
HeadsC == (1 :> <<3, 6>> @@ 2 :> <<4, 3, 2>> @@ 3 :> <<3, 4>>)
\* 7 is a head written for another database by an authorised writer: it passes Sync, is fetched, and is refused at the join
HeadsD == (1 :> <<7, 3>> @@ 2 :> <<4, 7, 2>> @@ 3 :> <<3, 4>>)
LinksD == (1 :> <<>> @@ 2 :> <<>> @@ 3 :> <<1>> @@ 4 :> <<1, 5>> @@ 5 :> <<>> @@ 7 :> <<>>)
LinksB == (1 :> <<>> @@ 2 :> <<>> @@ 3 :> <<1>> @@ 4 :> <<1, 5>> @@ 5 :> <<>>)
=============================================================================
