------------------------------ MODULE CoreSnap ------------------------------
(***************************************************************************)
(* C13: snapshots (basestore/utils.go SaveSnapshot, BaseStore.              *)
(* LoadFromSnapshot).  On top of every log Core can produce, replica r      *)
(* saves a snapshot and a fresh store object on the same durable state      *)
(* loads it.  The file format prefixes the header and every entry with a    *)
(* 16-bit length: an entry whose JSON form does not fit (value class BigVal  *)
(* stands for payloads of 64 KiB and more) cannot be written, and the       *)
(* repaired SaveSnapshot refuses it.  Outcome: "error", or "ok" together    *)
(* with what the loader reconstructs.                                      *)
(***************************************************************************)
EXTENDS Core

CONSTANT BigVal      \* the value that stands for an oversize payload

VARIABLE snap        \* [set, res, at, heads, view, loaded, lheads, lview]

svars == <<vars, snap>>

Oversize(E) == \E e \in E : ent[e].op.v = BigVal \/ (\E k \in DOMAIN ent[e].op.docs : ent[e].op.docs[k] = BigVal)

SaveLoad(r) ==
    /\ snap' = IF Oversize(log[r])
                 THEN [set |-> TRUE, res |-> "error", at |-> log[r], heads |-> Heads(ent, log[r]), view |-> index[r],
                       loaded |-> {}, lheads |-> {}, lview |-> EmptyIndex]
                 ELSE \* the file holds every entry and the heads; the loader joins them into an empty log
                      [set |-> TRUE, res |-> "ok", at |-> log[r], heads |-> Heads(ent, log[r]), view |-> index[r],
                       loaded |-> log[r], lheads |-> Heads(ent, log[r]),
                       lview |-> UpdateIndex(ent, EmptyIndex, Order(ent, log[r]))]
    /\ UNCHANGED vars

SInit == Init /\ snap = [set |-> FALSE, res |-> "error", at |-> {}, heads |-> {}, view |-> EmptyIndex,
                         loaded |-> {}, lheads |-> {}, lview |-> EmptyIndex]
SNext == (Next /\ UNCHANGED snap) \/ (\E r \in Replica : SaveLoad(r))
SSpec == SInit /\ [][SNext]_svars

\* C13: either saving fails, or the fresh instance shows exactly the saved database
SnapOK == (snap.set /\ snap.res = "ok") =>
             /\ snap.loaded = snap.at
             /\ snap.lheads = snap.heads
             /\ snap.lview = snap.view
=============================================================================
