SPECIFICATION FairSpec
CONSTANTS N = 5  C = 2  BusCap = 2  Bypass = FALSE
INVARIANTS Ordered Lossless
PROPERTIES Delivered
