------------------------------ MODULE StatusInd ------------------------------
(* The arithmetic of spec/Status.tla (repaired tree: ElseIf = FALSE, AtomicRecalc = TRUE) with type annotations,    *)
(* for Apalache: IndInv is inductive for any number of local writes (L is not bounded here) and a remote chain of   *)
(* any length R in 0..8, and implies ProgLeMax and MaxCoversLog in every reachable state.                           *)
EXTENDS Integers, FiniteSets

CONSTANT
    \* @type: Int;
    R

VARIABLES
    \* @type: Int;
    len,
    \* @type: Int;
    clk,
    \* @type: Int;
    wrote,
    \* @type: Bool;
    ann,
    \* @type: Set(Int);
    got,
    \* @type: Bool;
    joined,
    \* @type: Int;
    max,
    \* @type: Int;
    prog,
    \* @type: Int;
    pend

ConstInit == R \in 0..8

Max2(a, b) == IF a > b THEN a ELSE b
Min2(a, b) == IF a < b THEN a ELSE b
RecalcMax(x, ln, m) == Max2(Max2(ln, x), m)
RecalcProg(ln, m, p) == Max2(ln, Min2(p + 1, m))

Init == len = 0 /\ clk = 0 /\ wrote = 0 /\ ann = FALSE /\ got = {} /\ joined = FALSE /\ max = 0 /\ prog = 0 /\ pend = 0

Write == /\ pend = 0
         /\ wrote' = wrote + 1 /\ len' = len + 1 /\ clk' = clk + 1
         /\ max' = RecalcMax(clk + 1, len + 1, max)
         /\ prog' = RecalcProg(len + 1, RecalcMax(clk + 1, len + 1, max), prog)
         /\ UNCHANGED <<ann, got, joined, pend>>

Announce == /\ ~ann /\ R > 0 /\ pend = 0
            /\ ann' = TRUE
            /\ max' = RecalcMax(R, len, max)
            /\ UNCHANGED <<len, clk, wrote, got, joined, prog, pend>>

AnnRead == /\ ~ann /\ R > 0 /\ pend = 0
           /\ ann' = TRUE
           /\ pend' = 1 + RecalcMax(R, len, max)
           /\ UNCHANGED <<len, clk, wrote, got, joined, max, prog>>

AnnSet == /\ pend > 0
          /\ max' = pend - 1 /\ pend' = 0
          /\ UNCHANGED <<len, clk, wrote, ann, got, joined, prog>>

Progress(e) == /\ ann /\ e \notin got /\ pend = 0
               /\ got' = got \union {e}
               /\ max' = RecalcMax(e, len, max)
               /\ prog' = RecalcProg(len, RecalcMax(e, len, max), prog)
               /\ UNCHANGED <<len, clk, wrote, ann, joined, pend>>

JoinAll == /\ ann /\ ~joined /\ pend = 0
           /\ joined' = TRUE
           /\ len' = len + R /\ clk' = Max2(clk, R)
           /\ IF len + R > prog
                 THEN /\ max' = RecalcMax(len + R, len + R, max)
                      /\ prog' = RecalcProg(len + R, RecalcMax(len + R, len + R, max), prog)
                 ELSE UNCHANGED <<max, prog>>
           /\ UNCHANGED <<wrote, ann, got, pend>>

Next == Write \/ Announce \/ AnnRead \/ AnnSet \/ (\E e \in 1..R : Progress(e)) \/ JoinAll

\* ---- the inductive invariant -------------------------------------------------------------------------------------
TypeOK == /\ len >= 0 /\ clk >= 0 /\ wrote >= 0 /\ max >= 0 /\ prog >= 0 /\ pend >= 0
          /\ got \subseteq 1..R
IndInv == /\ TypeOK
          /\ prog <= max                       \* ProgLeMax
          /\ len <= max                        \* the maximum covers the log
          /\ clk <= max                        \* ... and the largest time
          /\ (pend > 0 => (pend - 1 >= max /\ pend - 1 >= len /\ pend - 1 >= clk))
IndInit == /\ len \in Nat /\ clk \in Nat /\ wrote \in Nat /\ max \in Nat /\ prog \in Nat /\ pend \in Nat
           /\ ann \in BOOLEAN /\ joined \in BOOLEAN /\ got \in SUBSET (1..8)
           /\ IndInv
ProgLeMax == prog <= max
MaxCoversLog == len <= max /\ clk <= max
\* the maximum and the progress never decrease (an action property, checked as an invariant of pairs of states)
\* @type: () => Bool;
Monotone == max' >= max /\ prog' >= prog
=============================================================================
