------------------------------ MODULE Windows ------------------------------
(***************************************************************************)
(* C08: range queries of the event log (eventlogstore/log.go query/read).   *)
(* L is the full listing, oldest first.  kind is "none", "gt", "gte", "lt"    *)
(* or "lte"; pos is the position in L of the entry given as bound (ignored   *)
(* for "none"); amt is the requested amount, Unset when not given.           *)
(* The amount rule of the code: unset or 0 -> 1, negative -> all, positive   *)
(* -> that many.                                                            *)
(***************************************************************************)
EXTENDS Integers, Sequences

Unset == -100

Amount(amt, n) == IF amt = Unset \/ amt = 0 THEN 1 ELSE IF amt < 0 THEN n ELSE amt
Min2(a, b) == IF a < b THEN a ELSE b
Max2(a, b) == IF a > b THEN a ELSE b

Window(L, kind, pos, amt) ==
    LET n == Len(L)
        a == Amount(amt, n)
    IN  CASE kind = "gt"   -> SubSeq(L, pos + 1, Min2(n, pos + a))
          [] kind = "gte"  -> SubSeq(L, pos, Min2(n, pos + a - 1))
          [] kind = "lt"   -> SubSeq(L, Max2(1, pos - a), pos - 1)
          [] kind = "lte"  -> SubSeq(L, Max2(1, pos - a + 1), pos)
          [] OTHER         -> SubSeq(L, Max2(1, n - a + 1), n)
=============================================================================
