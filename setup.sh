#!/bin/sh
# Builds the verification harness against /repo (offline) and checks the tools.
set -e
export GOFLAGS=-mod=mod GOPROXY=off GOSUMDB=off GOTOOLCHAIN=local
cd "$(dirname "$0")"
python3 - <<'PY'
import sys
sys.path.insert(0, 'tools')
import vlib
out, t = vlib.build_harness()
print('harness built: %s (%.1fs)' % (out, t))
PY
command -v tlc >/dev/null || { echo "tlc not found"; exit 1; }
echo setup ok
